// hgdrive: simulation driver. Reads a case file (programs are data), wires each program through
// the tree's C++ authoring API, runs it under a LifecycleObserver, writes a trace.
//
//   hgdrive <casefile> <tracefile> [threads]
//
// Case file grammar (one directive per line):
//   CASE <name>
//   WINDOW <start> <end>                 offsets from MIN_ST in MIN_TD units
//   OPT <key>=<value> ...                cleanup=0|1 light=0|1 busy=<ns> repeat=<n> dump=0|1
//   SCRIPT <uid> <t>:<v> ...             scripted source values
//   CSCRIPT <uid> <t>|<ops>              collection mutation script (see hg_coll.h)
//   SCHED <uid> <evalno> <op>[;<op>...]  scheduler ops: s<d>[@tag] S<abs>[@tag] u[@tag] p@tag r
//   FAULT <uid> <start|eval|stop> <occ>
//   GRAPH <name>  ...statements...  END
//   RUN
// Statements: <dst> = <op> <args...> k=v ...   |   RET <src>   |   bind/bindd/rank ...
#include "hg_nodes.h"
#include "hg_coll.h"
#include <hgraph/lib/std/operators/impl/record_replay_memory_impl.h>
#include <hgraph/lib/testing/record_replay.h>
#include <hgraph/lib/testing/eval_node.h>
#include <hgraph/lib/std/operators/impl/higher_order_impl.h>
#include <hgraph/types/metadata/type_realization.h>
#include <hgraph/types/value/value_builder.h>

// A polymorphic named bundle family that is registered LAZILY, the first time a case uses it (i.e. possibly after many other
// graphs have been wired in this process): an abstract base and two concrete alternatives carried through TS<base>.
namespace hv_poly { struct Event {}; }
namespace hgraph
{
    template <>
    struct scalar_descriptor<hv_poly::Event>
    {
        [[nodiscard]] static constexpr bool is_concrete() noexcept { return true; }
        [[nodiscard]] static const ValueTypeMetaData *value_meta()
        {
            auto &registry = TypeRegistry::instance();
            return registry.bundle("verif.poly", "Event", {{"event_id", registry.value_type("str")}}, {}, true);
        }
    };
}  // namespace hgraph
namespace hgraph::testing
{
    template <>
    struct ts_harness<TS<hv_poly::Event>> : bundle_ts_harness<TS<hv_poly::Event>>
    {
    };
}  // namespace hgraph::testing

#include <atomic>
#include <mutex>
#include <thread>

namespace hv
{
    using namespace hgraph;

    // -------------------------------------------------------------------------------------
    // Interpreter
    // -------------------------------------------------------------------------------------
    enum class PT { Int, Err, Tsd, Tss, TryRes, Tsl2, Other };

    struct PortVal
    {
        WiringPortRef ref;
        PT            type{PT::Int};
        std::string   shape{"ts"};
    };

    using TryRes = TSB<"TryRes", Field<"exception", TS<NodeError>>, Field<"out", TS<Int>>>;

    struct Interp;
    void interpret(Wiring &w, const GraphProg &prog, std::vector<PortVal> params, PortVal *ret);

    // Sub-graph definitions: programs are looked up at compose time by scalar id.
    struct Sub0
    {
        static constexpr auto name = "sub0";
        static Port<TS<Int>> compose(Wiring &w, Scalar<"sid", Int> sid)
        {
            PortVal r;
            interpret(w, ctx().graphs.at("sub" + std::to_string(sid.value())), {}, &r);
            return Port<TS<Int>>{w, r.ref};
        }
    };
    struct Sub1
    {
        static constexpr auto name = "sub1";
        static Port<TS<Int>> compose(Wiring &w, Port<TS<Int>> a, Scalar<"sid", Int> sid)
        {
            PortVal r;
            interpret(w, ctx().graphs.at("sub" + std::to_string(sid.value())), {PortVal{a.erased(), PT::Int}}, &r);
            return Port<TS<Int>>{w, r.ref};
        }
    };
    // one explicit parameter plus two ports CAPTURED from the enclosing graph (the body refers to them directly): when the
    // sub-graph is nested, the wiring layer turns the captures into boundary inputs of its own
    inline thread_local std::vector<PortVal> g_captures;
    struct SubCap1
    {
        static constexpr auto name = "subcap1";
        static Port<TS<Int>> compose(Wiring &w, Port<TS<Int>> a, Scalar<"sid", Int> sid)
        {
            PortVal r;
            std::vector<PortVal> params{PortVal{a.erased(), PT::Int}};
            for (const auto &c : g_captures) params.push_back(c);
            interpret(w, ctx().graphs.at("sub" + std::to_string(sid.value())), params, &r);
            return Port<TS<Int>>{w, r.ref};
        }
    };
    struct SubCap1Deep
    {
        static constexpr auto name = "subcap1deep";
        static Port<TS<Int>> compose(Wiring &w, Port<TS<Int>> a, Scalar<"sid", Int> sid)
        {
            return nested_<SubCap1>(w, a, sid.value());
        }
    };
    struct Sub2
    {
        static constexpr auto name = "sub2";
        static Port<TS<Int>> compose(Wiring &w, Port<TS<Int>> a, Port<TS<Int>> b, Scalar<"sid", Int> sid)
        {
            PortVal r;
            interpret(w, ctx().graphs.at("sub" + std::to_string(sid.value())),
                      {PortVal{a.erased(), PT::Int}, PortVal{b.erased(), PT::Int}}, &r);
            return Port<TS<Int>>{w, r.ref};
        }
    };

    // Two TS<Int> arguments packed into ONE structured parameter (fixed list): the body reads its projections xs[0] / xs[1]
    // (boundary sources that differ only in the path below one argument).
    struct SubL2
    {
        static constexpr auto name = "subl2";
        static Port<TS<Int>> compose(Wiring &w, Port<TSL<TS<Int>, 2>> xs, Scalar<"sid", Int> sid)
        {
            PortVal r;
            interpret(w, ctx().graphs.at("sub" + std::to_string(sid.value())),
                      {PortVal{tsl_element(xs, 0).erased(), PT::Int}, PortVal{tsl_element(xs, 1).erased(), PT::Int}}, &r);
            return Port<TS<Int>>{w, r.ref};
        }
    };

    // Result = a re-arrangement of ONE structured (2x2) parameter, built from its projections:
    //   1 rows exchanged (whole rows)   2 rows exchanged, leaf by leaf   3 columns exchanged   4 transposed   5 rows exchanged and
    //   columns exchanged   6 unchanged, leaf by leaf (rebuilt, not the parameter itself)
    struct SubQ
    {
        static constexpr auto name = "subq";
        static Port<S_QQ> compose(Wiring &w, Port<S_QQ> q, Scalar<"perm", Int> perm)
        {
            auto r0 = tsl_element(q, 0);
            auto r1 = tsl_element(q, 1);
            auto pair = [&](const Port<TS<Int>> &a, const Port<TS<Int>> &b) { return stdlib::to_tsl<S_PAIR>(w, a, b).template as<S_PAIR>(); };
            auto grid = [&](const Port<S_PAIR> &a, const Port<S_PAIR> &b) { return stdlib::to_tsl<S_QQ>(w, a, b).template as<S_QQ>(); };
            switch (perm.value())
            {
                case 1: return grid(r1, r0);
                case 2: return grid(pair(tsl_element(r1, 0), tsl_element(r1, 1)), pair(tsl_element(r0, 0), tsl_element(r0, 1)));
                case 3: return grid(pair(tsl_element(r0, 1), tsl_element(r0, 0)), pair(tsl_element(r1, 1), tsl_element(r1, 0)));
                case 4: return grid(pair(tsl_element(r0, 0), tsl_element(r1, 0)), pair(tsl_element(r0, 1), tsl_element(r1, 1)));
                case 5: return grid(pair(tsl_element(r1, 1), tsl_element(r1, 0)), pair(tsl_element(r0, 1), tsl_element(r0, 0)));
                default: return grid(pair(tsl_element(r0, 0), tsl_element(r0, 1)), pair(tsl_element(r1, 0), tsl_element(r1, 1)));
            }
        }
    };
    struct SubQ2   // the same, one nesting level deeper
    {
        static constexpr auto name = "subq2";
        static Port<S_QQ> compose(Wiring &w, Port<S_QQ> q, Scalar<"perm", Int> perm)
        {
            return nested_<SubQ>(w, q, perm.value()).template as<S_QQ>();
        }
    };

    // key-set reader of a dictionary argument (keys_ and a structural mirror of the dictionary itself), as a sub-graph
    struct SubKeys
    {
        static constexpr auto name = "subkeys";
        static Port<TS<Int>> compose(Wiring &w, Port<S_TSD> d, Scalar<"uid", Int> uid)
        {
            auto ks = wire<stdlib::keys_>(w, d).template as<TSS<Int>>();
            wire<CMirror<S_TSS>>(w, ks, uid.value());
            wire<CMirror<S_TSD>>(w, d, Int{uid.value() + 1});
            // (a key-set projection of a boundary dictionary cannot be a nested graph's RESULT: the engine refuses it at start)
            return wire<stdlib::const_, TS<Int>>(w, Int{0});
        }
    };
    struct SubKeys2
    {
        static constexpr auto name = "subkeys2";
        static Port<TS<Int>> compose(Wiring &w, Port<S_TSD> d, Scalar<"uid", Int> uid)
        {
            return nested_<SubKeys>(w, d, uid.value()).template as<TS<Int>>();
        }
    };

    // WiredFn-able sub-graphs (no scalars): template index selects the program "fn<K>".
    template <int K>
    struct Fn1
    {
        static constexpr auto name = "fn1";
        static Port<TS<Int>> compose(Wiring &w, Port<TS<Int>> a)
        {
            PortVal r;
            interpret(w, ctx().graphs.at("fn" + std::to_string(K)), {PortVal{a.erased(), PT::Int}}, &r);
            return Port<TS<Int>>{w, r.ref};
        }
    };
    template <int K>
    struct Fn2
    {
        static constexpr auto name = "fn2";
        static Port<TS<Int>> compose(Wiring &w, Port<TS<Int>> a, Port<TS<Int>> b)
        {
            PortVal r;
            interpret(w, ctx().graphs.at("fn" + std::to_string(K)),
                      {PortVal{a.erased(), PT::Int}, PortVal{b.erased(), PT::Int}}, &r);
            return Port<TS<Int>>{w, r.ref};
        }
    };
    template <int K>
    struct FnP    // one structured parameter (a pair of TS<Int>) in, a pair out - the body may return the parameter itself
    {
        static constexpr auto name = "fnp";
        static Port<S_PAIR> compose(Wiring &w, Port<S_PAIR> q)
        {
            PortVal r;
            interpret(w, ctx().graphs.at("fn" + std::to_string(K)), {PortVal{q.erased(), PT::Other, "pair"}}, &r);
            return Port<S_PAIR>{w, r.ref};
        }
    };
    template <int K>
    struct FnK1   // key-consuming
    {
        static constexpr auto name = "fnk1";
        static Port<TS<Int>> compose(Wiring &w, NamedPort<"key", TS<Int>> key, Port<TS<Int>> a)
        {
            PortVal r;
            interpret(w, ctx().graphs.at("fn" + std::to_string(K)),
                      {PortVal{static_cast<const Port<TS<Int>> &>(key).erased(), PT::Int}, PortVal{a.erased(), PT::Int}}, &r);
            return Port<TS<Int>>{w, r.ref};
        }
    };
    template <int K>
    struct FnK2   // key-consuming, two multiplexed elements
    {
        static constexpr auto name = "fnk2";
        static Port<TS<Int>> compose(Wiring &w, NamedPort<"key", TS<Int>> key, Port<TS<Int>> a, Port<TS<Int>> b)
        {
            PortVal r;
            interpret(w, ctx().graphs.at("fn" + std::to_string(K)),
                      {PortVal{static_cast<const Port<TS<Int>> &>(key).erased(), PT::Int}, PortVal{a.erased(), PT::Int},
                       PortVal{b.erased(), PT::Int}}, &r);
            return Port<TS<Int>>{w, r.ref};
        }
    };
    template <int K>
    struct FnD   // element + a whole dictionary handed through unchanged; returns a dictionary (an inner map_ lives in the body)
    {
        static constexpr auto name = "fnd";
        static Port<TSD<Int, TS<Int>>> compose(Wiring &w, Port<TS<Int>> a, Port<TSD<Int, TS<Int>>> shared)
        {
            PortVal r;
            interpret(w, ctx().graphs.at("fn" + std::to_string(K)),
                      {PortVal{a.erased(), PT::Int}, PortVal{shared.erased(), PT::Other, "tsd"}}, &r);
            return Port<TSD<Int, TS<Int>>>{w, r.ref};
        }
    };
    template <int K>
    struct FnS   // one argument, returns a SET (a collection-valued result, e.g. of a switch branch)
    {
        static constexpr auto name = "fns";
        static Port<TSS<Int>> compose(Wiring &w, Port<TS<Int>> a)
        {
            PortVal r;
            interpret(w, ctx().graphs.at("fn" + std::to_string(K)), {PortVal{a.erased(), PT::Int}}, &r);
            return Port<TSS<Int>>{w, r.ref};
        }
    };
    template <int K>
    struct Fn0
    {
        static constexpr auto name = "fn0";
        static Port<TS<Int>> compose(Wiring &w)
        {
            PortVal r;
            interpret(w, ctx().graphs.at("fn" + std::to_string(K)), {}, &r);
            return Port<TS<Int>>{w, r.ref};
        }
    };

    struct Stmt
    {
        std::string                        dst;
        std::string                        op;
        std::vector<std::string>           args;
        std::map<std::string, std::string> kw;
        long long kwi(const std::string &k, long long d = 0) const
        {
            auto it = kw.find(k);
            return it == kw.end() ? d : std::atoll(it->second.c_str());
        }
        std::string kws(const std::string &k, const std::string &d = "") const
        {
            auto it = kw.find(k);
            return it == kw.end() ? d : it->second;
        }
    };

    inline Stmt parse_stmt(const std::string &line)
    {
        Stmt s;
        auto ws = words(line);
        std::size_t i = 0;
        if (ws.size() >= 3 && ws[1] == "=") { s.dst = ws[0]; i = 2; }
        if (i < ws.size()) s.op = ws[i++];
        for (; i < ws.size(); ++i)
        {
            auto eq = ws[i].find('=');
            if (eq != std::string::npos && eq > 0) s.kw[ws[i].substr(0, eq)] = ws[i].substr(eq + 1);
            else s.args.push_back(ws[i]);
        }
        return s;
    }

    template <int K, template <int> class F, typename Fun>
    auto dispatch_k_impl(int k, Fun &&fun)
    {
        return fun(fn<F<K>>());
    }
    template <template <int> class F, typename Fun>
    auto dispatch_k(int k, Fun &&fun)
    {
        switch (k)
        {
            case 0: return fun(fn<F<0>>());
            case 1: return fun(fn<F<1>>());
            case 2: return fun(fn<F<2>>());
            default: return fun(fn<F<3>>());
        }
    }
    inline WiredFn wired_fn_for(const std::string &spec)
    {
        // spec: fn1:K | fn2:K | fnk1:K | fn0:K | sum | max | xor | mark | pass | acc | count
        auto parts = split(spec, ':');
        int  k     = parts.size() > 1 ? std::atoi(parts[1].c_str()) : 0;
        const std::string &n = parts[0];
        if (n == "fn1") return dispatch_k<Fn1>(k, [](WiredFn f) { return f; });
        if (n == "fn2") return dispatch_k<Fn2>(k, [](WiredFn f) { return f; });
        if (n == "fnk1") return dispatch_k<FnK1>(k, [](WiredFn f) { return f; });
        if (n == "fnk2") return dispatch_k<FnK2>(k, [](WiredFn f) { return f; });
        if (n == "fnd") return dispatch_k<FnD>(k, [](WiredFn f) { return f; });
        if (n == "fnp") return dispatch_k<FnP>(k, [](WiredFn f) { return f; });
        if (n == "fn0") return dispatch_k<Fn0>(k, [](WiredFn f) { return f; });
        if (n == "fns") return dispatch_k<FnS>(k, [](WiredFn f) { return f; });
        if (n == "sum") return fn<VSum2>();
        if (n == "max") return fn<VMax2>();
        if (n == "xor") return fn<VXor2>();
        if (n == "mark") return fn<VMark2>();
        if (n == "ord") return fn<VOrd2>();
        if (n == "add") return fn<stdlib::add_>();
        if (n == "mergedd") return fn<VMergeDD>();
        throw std::runtime_error("unknown wired fn " + spec);
    }

    struct Interp
    {
        Wiring                                                  &w;
        std::map<std::string, PortVal>                           env;
        std::map<std::string, stdlib::FeedbackWiringPort<TS<Int>>> fbs;
        std::map<std::string, DelayedBindingWiringPort<TS<Int>>>  delayed;
        struct FbAny
        {
            std::function<WiringPortRef()>     get;
            std::function<void(WiringPortRef)> bind;
            std::string                        shape;
        };
        std::map<std::string, FbAny> cfbs;      // feedbacks over collection shapes

        PortVal get(const std::string &name0)
        {
            std::string name = name0;
            bool pas = false;
            if (!name.empty() && name[0] == '~') { pas = true; name = name.substr(1); }
            PortVal v;
            if (auto f = fbs.find(name); f != fbs.end()) v = PortVal{f->second().erased(), PT::Int};
            else if (auto cf = cfbs.find(name); cf != cfbs.end()) v = PortVal{cf->second.get(), PT::Other, cf->second.shape};
            else if (auto d = delayed.find(name); d != delayed.end()) v = PortVal{d->second().erased(), PT::Int};
            else
            {
                auto it = env.find(name);
                if (it == env.end()) throw std::runtime_error("interp: unknown port " + name);
                v = it->second;
            }
            if (pas) v.ref = v.ref.with_arg_tag(WiringPortRef::ArgTag::Passive);
            return v;
        }
        Port<TS<Int>> pi(const std::string &n) { return Port<TS<Int>>{w, get(n).ref}; }
        template <typename S>
        Port<S> pt(const std::string &n) { return Port<S>{w, get(n).ref}; }

        template <typename S>
        void put(const std::string &dst, const Port<S> &p, PT t = PT::Int)
        {
            if (!dst.empty()) env[dst] = PortVal{p.erased(), t};
        }

        void exec(const Stmt &s, PortVal *ret)
        {
            const Int uid = s.kwi("uid");
            const auto &a = s.args;
            if (s.op == "RET") { if (ret) *ret = get(a.at(0)); return; }
            if (s.op == "src") { put(s.dst, wire<VSrc>(w, uid, Int{s.kwi("mode")}, Int{s.kwi("rel")})); return; }
            if (s.op == "beacon") { wire<VBeacon>(w, uid, Int{s.kwi("period", 1)}, Int{s.kwi("count", 1)}); return; }
            if (s.op == "ticker") { put(s.dst, wire<VTicker>(w, uid, Int{s.kwi("period", 1)}, Int{s.kwi("count", 1)})); return; }
            if (s.op == "const") { put(s.dst, wire<stdlib::const_, TS<Int>>(w, Int{s.kwi("v")})); return; }
            if (s.op == "pass") { put(s.dst, wire<VPass>(w, pi(a.at(0)), uid)); return; }
            if (s.op == "thrower") { put(s.dst, wire<VThrower>(w, pi(a.at(0)), uid)); return; }
            if (s.op == "add2") { put(s.dst, wire<VAdd2>(w, pi(a.at(0)), pi(a.at(1)), uid)); return; }
            if (s.op == "add3") { put(s.dst, wire<VAdd3>(w, pi(a.at(0)), pi(a.at(1)), pi(a.at(2)), uid)); return; }
            if (s.op == "hi100") { put(s.dst, wire<VHi100>(w, pi(a.at(0)))); return; }
            if (s.op == "lo100") { put(s.dst, wire<VLo100>(w, pi(a.at(0)))); return; }
            if (s.op == "sum2") { put(s.dst, wire<VSum2>(w, pi(a.at(0)), pi(a.at(1)))); return; }
            if (s.op == "ord2") { put(s.dst, wire<VOrd2>(w, pi(a.at(0)), pi(a.at(1)))); return; }
            if (s.op == "max2") { put(s.dst, wire<VMax2>(w, pi(a.at(0)), pi(a.at(1)))); return; }
            if (s.op == "gs") { put(s.dst, wire<VGs>(w, pi(a.at(0)), uid)); return; }
            if (s.op == "acc") { put(s.dst, wire<VAcc>(w, pi(a.at(0)), uid)); return; }
            if (s.op == "count") { put(s.dst, wire<VCount>(w, pi(a.at(0)), uid)); return; }
            if (s.op == "sample3") { put(s.dst, wire<VSample3>(w, pi(a.at(0)), pi(a.at(1)), pi(a.at(2)), uid)); return; }
            if (s.op == "sample") { put(s.dst, wire<VSample>(w, pi(a.at(0)), pi(a.at(1)), uid)); return; }
            if (s.op == "gate") { put(s.dst, wire<VGate>(w, pi(a.at(0)), pi(a.at(1)), uid)); return; }
            if (s.op == "halfgate") { put(s.dst, wire<VHalfGate>(w, pi(a.at(0)), pi(a.at(1)), uid)); return; }
            if (s.op == "delay") { put(s.dst, wire<VDelay>(w, pi(a.at(0)), uid, Int{s.kwi("k", 1)})); return; }
            if (s.op == "sched") { put(s.dst, wire<VSched>(w, pi(a.at(0)), uid)); return; }
            if (s.op == "rec") { wire<VRec>(w, pi(a.at(0)), uid); return; }
            if (s.op == "allvalid2")
            {
                put(s.dst, wire<VAllValid2>(w, {get(a.at(0)).ref, get(a.at(1)).ref}, uid));
                return;
            }
            if (s.op == "pairall" || s.op == "pairany")
            {
                // pairall <trig> <a> [<b>]: without <b> the bundle is wired with the partial named initializer
                const bool all = s.op == "pairall";
                if (a.size() >= 3)
                {
                    if (all) put(s.dst, wire<VPairAll>(w, pi(a.at(0)), {{"a", get(a.at(1)).ref}, {"b", get(a.at(2)).ref}}, uid));
                    else put(s.dst, wire<VPairAny>(w, pi(a.at(0)), {{"a", get(a.at(1)).ref}, {"b", get(a.at(2)).ref}}, uid));
                }
                else
                {
                    if (all) put(s.dst, wire<VPairAll>(w, pi(a.at(0)), {{"a", get(a.at(1)).ref}}, uid));
                    else put(s.dst, wire<VPairAny>(w, pi(a.at(0)), {{"a", get(a.at(1)).ref}}, uid));
                }
                return;
            }
            if (s.op == "list2")
            {
                put(s.dst, wire<VList2>(w, {get(a.at(0)).ref, get(a.at(1)).ref}, uid));
                return;
            }
            if (s.op == "fb")
            {
                if (s.kw.count("init")) fbs.emplace(s.dst, stdlib::feedback<TS<Int>>(w, Int{s.kwi("init")}));
                else fbs.emplace(s.dst, stdlib::feedback<TS<Int>>(w));
                return;
            }
            if (s.op == "bind")
            {
                if (auto cf = cfbs.find(a.at(0)); cf != cfbs.end()) { cf->second.bind(get(a.at(1)).ref); return; }
                fbs.at(a.at(0))(pi(a.at(1)));
                return;
            }
            if (s.op == "delayed") { delayed.emplace(s.dst, delayed_binding<TS<Int>>(w)); return; }
            if (s.op == "bindd") { delayed.at(a.at(0))(pi(a.at(1))); return; }
            if (s.op == "rank")
            {
                w.add_rank_dependency(get(a.at(0)).ref.peered_node(), get(a.at(1)).ref.peered_node());
                return;
            }
            if (s.op == "inline" || s.op == "nested" || s.op == "try")
            {
                const Int sid = s.kwi("sid");
                const bool nest = s.op == "nested";
                if (s.op == "try")
                {
                    if (a.size() == 1) put(s.dst, try_except_<Sub1>(w, pi(a[0]), sid).template as<TryRes>(), PT::TryRes);
                    else if (a.size() == 2) put(s.dst, try_except_<Sub2>(w, pi(a[0]), pi(a[1]), sid).template as<TryRes>(), PT::TryRes);
                    else throw std::runtime_error("try arity");
                    return;
                }
                if (s.kw.count("cap") && a.size() == 1)
                {
                    // cap=<p>,<q>: the sub-graph body reads <p> and <q> of THIS graph as p1, p2 without receiving them as arguments
                    g_captures.clear();
                    for (const auto &nm : split(s.kws("cap"), ',')) if (!nm.empty()) g_captures.push_back(get(nm));
                    const long long depth = s.kwi("depth", nest ? 1 : 0);
                    put(s.dst, depth == 0 ? wire<SubCap1>(w, pi(a[0]), sid)
                               : depth == 1 ? nested_<SubCap1>(w, pi(a[0]), sid)
                                            : nested_<SubCap1Deep>(w, pi(a[0]), sid));
                    g_captures.clear();
                    return;
                }
                if (a.empty()) put(s.dst, nest ? nested_<Sub0>(w, sid) : wire<Sub0>(w, sid));
                else if (a.size() == 1) put(s.dst, nest ? nested_<Sub1>(w, pi(a[0]), sid) : wire<Sub1>(w, pi(a[0]), sid));
                else if (a.size() == 2 && s.kwi("pack", 0))
                {
                    // both arguments travel as one fixed-list parameter built by a structural initializer
                    std::initializer_list<WiringPortRef> xs{pi(a[0]).erased(), pi(a[1]).erased()};
                    put(s.dst, (nest ? nested_<SubL2>(w, xs, sid) : wire<SubL2>(w, xs, sid)).template as<TS<Int>>());
                }
                else if (a.size() == 2)
                    put(s.dst, nest ? nested_<Sub2>(w, pi(a[0]), pi(a[1]), sid) : wire<Sub2>(w, pi(a[0]), pi(a[1]), sid));
                else throw std::runtime_error("sub arity");
                return;
            }
            if (s.op == "tryout") { put(s.dst, wire<VTryOut>(w, pt<TryRes>(a.at(0)), uid)); return; }
            if (s.op == "tryerr") { wire<VTryErr>(w, pt<TryRes>(a.at(0)), uid); return; }
            if (s.op == "err")
            {
                // err <port> [depth=<trace_back_depth>] [values=0|1]
                ErrorCaptureOptions eo;
                eo.trace_back_depth = static_cast<std::size_t>(s.kwi("depth", 1));
                eo.capture_values   = s.kwi("values", 0) != 0;
                if (get(a.at(0)).type == PT::Err) put(s.dst, exception_time_series(pt<TS<NodeError>>(a.at(0)), eo), PT::Err);
                else put(s.dst, exception_time_series(pi(a.at(0)), eo), PT::Err);
                return;
            }
            if (s.op == "validate") { put(s.dst, wire<VValidate>(w, pi(a.at(0)), uid), PT::Err); return; }
            if (s.op == "errlen") { put(s.dst, wire<VErrLen>(w, pt<TS<NodeError>>(a.at(0)), uid)); return; }
            if (s.op == "recerr") { wire<VRecErr>(w, pt<TS<NodeError>>(a.at(0)), uid); return; }
            if (exec_coll(*this, s)) return;
            throw std::runtime_error("interp: unknown op " + s.op);
        }

        // defined in hg_coll.h section below
        static bool exec_coll(Interp &I, const Stmt &s);
    };

    void interpret(Wiring &w, const GraphProg &prog, std::vector<PortVal> params, PortVal *ret)
    {
        Interp I{w};
        for (std::size_t k = 0; k < params.size(); ++k) I.env["p" + std::to_string(k)] = params[k];
        for (const auto &line : prog.lines)
        {
            Stmt s = parse_stmt(line);
            if (s.op.empty()) continue;
            I.exec(s, ret);
        }
    }

    struct MainG
    {
        static constexpr auto name = "main";
        static void compose(Wiring &w, Scalar<"g", Str> g) { interpret(w, ctx().graphs.at(g.value()), {}, nullptr); }
    };

#include "hg_coll_interp.inl"

    // -------------------------------------------------------------------------------------
    // Case execution
    // -------------------------------------------------------------------------------------
    inline void dump_builder(const GraphBuilder &gb, const std::string &tag, int depth);

    struct ChildDump
    {
        std::string tag;
        int depth;
    };

    inline void dump_builder(const GraphBuilder &gb, const std::string &tag, int depth)
    {
        const auto &nodes = gb.nodes();
        Line("B.graph").s(tag).i((long long)nodes.size()).i((long long)gb.edges().size()).i(depth);
        for (std::size_t k = 0; k < nodes.size(); ++k)
        {
            const auto *sch = nodes[k].type().schema();
            Line("B.node").s(tag).i((long long)k).s(nodes[k].label()).s(sch ? sch->name() : std::string_view{"?"}).i(sch ? (long long)sch->node_kind : -1);
        }
        for (const auto &e : gb.edges())
        {
            Line("B.edge").s(tag).i((long long)graph_edge_source_node(e.source_node)).i((long long)graph_edge_source_kind(e.source_node))
                .i((long long)e.target_node).i((long long)e.target_path.size()).i(e.target_path.empty() ? -1 : (long long)e.target_path[0]);
        }
    }

    inline bool       g_serialise_wiring = false;
    inline std::mutex g_wiring_mutex;

    // Staged execution (C20): graphs main, main2, main3 run one after the other; the GlobalState of each stage's
    // root graph is carried into the next stage's builder (record in stage k, replay in stage k+1).
    inline void run_staged(Ctx &c, const std::string &name)
    {
        GlobalState carried;
        live_values().clear();
        int stage = 0;
        for (const std::string gname : {"main", "main2", "main3"})
        {
            if (!c.graphs.count(gname)) break;
            c.fault_counts.clear();
            c.gid_by_addr.clear();
            c.next_gid = 0;
            Line("RUN").i(stage);
            std::string status = "ok";
            try
            {
                std::optional<GraphBuilder> gbo;
                {
                    std::unique_lock<std::mutex> wiring_lock(g_wiring_mutex, std::defer_lock);
                    if (g_serialise_wiring) wiring_lock.lock();
                    gbo.emplace(build_graph<MainG>(Str{gname}));
                }
                GraphBuilder gb = std::move(*gbo);
                gb.global_state().copy_from(carried.view());
                Obs obs;
                GraphExecutorBuilder eb;
                // OPT start2=<t>: the stages after the first run over the window [t, end) (a replay that starts later than the recording)
                const long long stage_start = stage > 0 ? c.opt_int("start2", c.win_start) : c.win_start;
                eb.graph_builder(std::move(gb)).start_time(tabs(stage_start)).end_time(tabs(c.win_end)).add_lifecycle_observer(&obs);
                std::optional<GraphExecutorValue> exo;
                {
                    std::unique_lock<std::mutex> wiring_lock(g_wiring_mutex, std::defer_lock);
                    if (g_serialise_wiring) wiring_lock.lock();
                    exo.emplace(eb.make_executor());
                }
                GraphExecutorValue &ex = *exo;
                ex.view().run();
                auto gs = ex.view().graph().global_state();
                if (const std::string fold = c.opt_str("fold", ""); !fold.empty() && stage == 0)
                {
                    // OPT fold=<fq key>@<clive uid>@<shape>: the recovery fold of the "memory" recording (what a component seeds its
                    // inputs from) at every instant the recorded series ticked, against the value it really had then
                    const auto parts = split(fold, '@');
                    const auto &live = live_values()[std::atoll(parts.at(1).c_str())];
                    with_shape(parts.at(2), [&]<typename S>() {
                        const auto *schema = schema_descriptor<S>::ts_meta();
                        for (const auto &[when, value] : live)
                        {
                            std::string fs = "<none>";
                            int same = 0;
                            try
                            {
                                const Value folded = record_replay::recorded_seed_resolver(gs, parts.at(0), schema, when);
                                same = folded.has_value() && folded.view().equals(value.view()) ? 1 : 0;
                                if (folded.has_value()) fs = folded.view().to_string();
                            }
                            catch (const std::exception &e) { fs = std::string("<err:") + e.what() + ">"; }
                            std::string ls = value.view().to_string();
                            for (char &ch : fs) { if (ch == ' ' || ch == '\n' || ch == '\t') ch = '_'; }
                            for (char &ch : ls) { if (ch == ' ' || ch == '\n' || ch == '\t') ch = '_'; }
                            Line("FOLD").i(stage).t(when).i(same).s(ls).s(fs);
                        }
                    });
                }
                for (const auto &key : split(c.opt_str("gsdump", ""), ','))
                {
                    if (key.empty() || !gs.contains(key)) continue;
                    std::string v = gs.get(key).to_string();
                    for (char &ch : v) { if (ch == ' ' || ch == '\n' || ch == '\t') ch = '_'; }
                    Line("GS").i(stage).s(key).s(v);
                }
                carried.view().copy_from(gs);
            }
            catch (const std::exception &e)
            {
                Line("X.run").s(typeid(e).name()).s(e.what());
                status = "run-failed";
            }
            Line("RUN.returned").i(stage);
            Line("RUN.released").i(stage).s(status);
            ++stage;
        }
        Line("ENDCASE").s(name).s("done");
    }

    // one-cycle delay line over the polymorphic event stream
    struct PolyLoop
    {
        static constexpr auto name = "verif_poly_loop";
        static Port<TS<hv_poly::Event>> compose(Wiring &w, Port<TS<hv_poly::Event>> value)
        {
            auto feedback = stdlib::feedback<TS<hv_poly::Event>>(w);
            feedback(value);
            return feedback();
        }
    };

    // OPT poly=<n>: n events (alternating concrete kinds by SCRIPT 1 values: even -> Heartbeat, odd -> Create) through PolyLoop
    inline void run_poly(Ctx &c, const std::string &name)
    {
        std::unique_lock<std::mutex> wiring_lock(g_wiring_mutex, std::defer_lock);
        if (g_serialise_wiring) wiring_lock.lock();       // eval_node wires and runs in one call
        Line("RUN").i(0);
        try
        {
            auto       &registry  = TypeRegistry::instance();
            const auto *text      = registry.value_type("str");
            const auto *event     = scalar_descriptor<hv_poly::Event>::value_meta();
            const auto *heartbeat = registry.bundle("verif.poly", "Heartbeat", {{"event_id", text}}, {event});
            const auto *create    = registry.bundle("verif.poly", "Create", {{"event_id", text}, {"order_id", text}}, {event});
            std::vector<std::optional<Value>> inputs;
            for (const auto &[t, v] : c.scripts[1])
            {
                (void)t;
                if (v % 3 == 0) { inputs.emplace_back(std::nullopt); continue; }
                if (v % 2 == 0)
                {
                    BundleBuilder b{ValuePlanFactory::instance().type_for(heartbeat)};
                    b.set("event_id", Value{Str{"hb-" + std::to_string(v)}});
                    inputs.emplace_back(b.build());
                }
                else
                {
                    BundleBuilder b{ValuePlanFactory::instance().type_for(create)};
                    b.set("event_id", Value{Str{"ev-" + std::to_string(v)}});
                    b.set("order_id", Value{Str{"order-" + std::to_string(v * 7)}});
                    inputs.emplace_back(b.build());
                }
            }
            const auto out = hgraph::testing::eval_node<PolyLoop>(inputs);
            for (std::size_t i = 0; i < out.size(); ++i)
            {
                if (!out[i].has_value()) { Line("POLY").i((long long)i).s("-"); continue; }
                const auto concrete = out[i]->view().concrete();
                Line("POLY").i((long long)i).s(std::string{concrete.schema()->name()}).s(concrete.to_string());
            }
        }
        catch (const std::exception &e)
        {
            Line("X.run").s(typeid(e).name()).s(e.what());
        }
        Line("RUN.returned").i(0);
        Line("RUN.released").i(0).s("ok");
        Line("ENDCASE").s(name).s("done");
    }

    inline void run_case(Ctx &c, const std::string &name)
    {
        tl_ctx = &c;
        c.light   = c.opt_int("light", 0) != 0;
        c.busy_ns = c.opt_int("busy", 0);
        const long long repeat = c.opt_int("repeat", 1);
        Line("CASE").s(name).i(c.win_start).i(c.win_end);
        if (c.graphs.count("main2")) { run_staged(c, name); return; }
        if (c.opt_int("poly", 0) != 0) { run_poly(c, name); return; }
        // OPT gctx=<v>: this case wires and runs inside a GlobalContext of its own thread whose selected state holds a value;
        // cases on other threads select nothing and must never see it
        GlobalState                  session;
        std::optional<GlobalContext> selected;
        if (c.opts.count("gctx"))
        {
            session.view().set("verif.k0", Value{Int{c.opt_int("gctx", 0)}});
            selected.emplace(session);
        }
        // OPT rebuild=<n>: the whole build + run is done n times under the SAME selected context (the user's state object stays
        // theirs: every build sees it as it was handed in)
        const long long rebuilds = c.opt_int("rebuild", 1);
        for (long long rb = 0; rb < rebuilds; ++rb)
        {
        std::optional<GraphBuilder> gb;
        try
        {
            std::unique_lock<std::mutex> wiring_lock(g_wiring_mutex, std::defer_lock);
            if (g_serialise_wiring) wiring_lock.lock();
            gb.emplace(build_graph<MainG>(Str{"main"}));
        }
        catch (const std::exception &e)
        {
            Line("X.build").s(typeid(e).name()).s(e.what());
            Line("ENDCASE").s(name).s("build-failed");
            return;
        }
        catch (...)
        {
            Line("X.build").s("unknown").s("unknown");
            Line("ENDCASE").s(name).s("build-failed");
            return;
        }
        if (c.opt_int("dump", 1)) dump_builder(*gb, "root", 0);
        Obs obs;
        GraphExecutorBuilder eb;
        eb.graph_builder(std::move(*gb)).start_time(tabs(c.win_start)).end_time(tabs(c.win_end)).add_lifecycle_observer(&obs);
        eb.cleanup_on_error(c.opt_int("cleanup", 1) != 0);
        for (long long r = 0; r < repeat; ++r)
        {
            c.fault_counts.clear();
            c.gid_by_addr.clear();
            c.next_gid = 0;
            Line("RUN").i(r);
            std::string status = "ok";
            {
                std::optional<GraphExecutorValue> ex;
                try
                {
                    {
                        // executor construction compiles graph types into process-wide registries: part of "building"
                        std::unique_lock<std::mutex> wiring_lock(g_wiring_mutex, std::defer_lock);
                        if (g_serialise_wiring) wiring_lock.lock();
                        ex.emplace(eb.make_executor());
                    }
                    ex->view().run();
                }
                catch (const std::exception &e)
                {
                    Line("X.run").s(typeid(e).name()).s(e.what());
                    status = "run-failed";
                }
                catch (...)
                {
                    Line("X.run").s("unknown").s("unknown");
                    status = "run-failed";
                }
                Line("RUN.returned").i(r);
                try { ex.reset(); }
                catch (const std::exception &e) { Line("X.release").s(e.what()); }
            }
            Line("RUN.released").i(r).s(status);
        }
        if (c.opts.count("gctx") && rebuilds > 1)
        {
            // what the user's own state object holds after the graph was built from it and run
            try
            {
                auto sv = session.view();
                Line("GCTX.kept").i(rb).i(sv.contains("verif.k0") ? (long long)sv.get("verif.k0").checked_as<Int>() : -1);
            }
            catch (const std::exception &e) { Line("GCTX.kept").i(rb).s(std::string("unreadable:") + e.what()); }
        }
        }
        Line("ENDCASE").s(name).s("done");
    }

    inline bool parse_cases(std::istream &in, std::vector<std::pair<std::string, Ctx>> &cases)
    {
        std::string line;
        Ctx        *cur = nullptr;
        GraphProg  *g   = nullptr;
        while (std::getline(in, line))
        {
            if (line.empty() || line[0] == '#') continue;
            auto ws = words(line);
            if (ws.empty()) continue;
            if (g != nullptr)
            {
                if (ws[0] == "END") { g = nullptr; continue; }
                g->lines.push_back(line);
                continue;
            }
            if (ws[0] == "CASE") { cases.emplace_back(ws.at(1), Ctx{}); cur = &cases.back().second; continue; }
            if (cur == nullptr) return false;
            if (ws[0] == "WINDOW") { cur->win_start = std::atoll(ws.at(1).c_str()); cur->win_end = std::atoll(ws.at(2).c_str()); }
            else if (ws[0] == "OPT")
            {
                for (std::size_t k = 1; k < ws.size(); ++k)
                {
                    auto eq = ws[k].find('=');
                    cur->opts[ws[k].substr(0, eq)] = ws[k].substr(eq + 1);
                }
            }
            else if (ws[0] == "SCRIPT")
            {
                auto &sc = cur->scripts[std::atoll(ws.at(1).c_str())];
                for (std::size_t k = 2; k < ws.size(); ++k)
                {
                    auto p = split(ws[k], ':');
                    sc.emplace_back(std::atoll(p.at(0).c_str()), std::atoll(p.at(1).c_str()));
                }
            }
            else if (ws[0] == "CSCRIPT")
            {
                auto &sc = cur->cscripts[std::atoll(ws.at(1).c_str())];
                for (std::size_t k = 2; k < ws.size(); ++k) sc.push_back(ws[k]);
            }
            else if (ws[0] == "SCHED")
            {
                auto &ops = cur->sched[std::atoll(ws.at(1).c_str())][std::atoll(ws.at(2).c_str())];
                for (std::size_t k = 3; k < ws.size(); ++k)
                {
                    for (const auto &tok : split(ws[k], ';'))
                    {
                        if (tok.empty()) continue;
                        SchedOp op;
                        std::string body = tok;
                        auto        at   = body.find('@');
                        if (at != std::string::npos) { op.tag = body.substr(at + 1); body = body.substr(0, at); }
                        op.op  = body.substr(0, 1);
                        op.arg = body.size() > 1 ? std::atoll(body.c_str() + 1) : 0;
                        ops.push_back(op);
                    }
                }
            }
            else if (ws[0] == "FAULT")
            {
                cur->faults.push_back(Fault{std::atoll(ws.at(1).c_str()), ws.at(2), std::atoll(ws.at(3).c_str())});
            }
            else if (ws[0] == "GRAPH")
            {
                g       = &cur->graphs[ws.at(1)];
                g->name = ws.at(1);
            }
            else if (ws[0] == "RUN") {}
            else return false;
        }
        return true;
    }
}  // namespace hv

int main(int argc, char **argv)
{
    using namespace hv;
    if (argc < 3) { std::fprintf(stderr, "usage: hgdrive <cases> <trace> [threads]\n"); return 64; }
    std::ifstream in(argv[1]);
    if (!in) { std::fprintf(stderr, "cannot open %s\n", argv[1]); return 64; }
    std::vector<std::pair<std::string, Ctx>> cases;
    if (!parse_cases(in, cases)) { std::fprintf(stderr, "bad case file\n"); return 64; }
    const int threads = argc > 3 ? std::atoi(argv[3]) : 0;
    hgraph::stdlib::register_standard_operators();
    FILE *out = std::fopen(argv[2], "w");
    if (!out) return 64;
    if (threads <= 1)
    {
        for (auto &[name, c] : cases)
        {
            run_case(c, name);
            std::fwrite(c.out.data(), 1, c.out.size(), out);
            c.out.clear();
            c.out.shrink_to_fit();
            std::fflush(out);
        }
    }
    else
    {
        // C07: wiring is sequential (the code base does not claim concurrent wiring: wiring scopes live in a singleton),
        // so graph construction is serialised by g_wiring_mutex inside run_case; executors run concurrently.
        g_serialise_wiring = true;
        std::atomic<std::size_t> next{0};
        std::mutex               out_mutex;
        std::vector<std::thread> pool;
        for (int t = 0; t < threads; ++t)
        {
            pool.emplace_back([&] {
                for (;;)
                {
                    const std::size_t k = next.fetch_add(1);
                    if (k >= cases.size()) break;
                    auto &[name, c] = cases[k];
                    run_case(c, name);
                    std::lock_guard<std::mutex> lock(out_mutex);
                    std::fwrite(c.out.data(), 1, c.out.size(), out);
                    c.out.clear();
                    c.out.shrink_to_fit();
                    std::fflush(out);
                }
            });
        }
        for (auto &th : pool) th.join();
    }
    std::fclose(out);
    return 0;
}
