// Collection vocabulary (TSS/TSD/TSL/TSB/TSW sources, mirrors, probes) and try/except helpers.
#pragma once
#include "hg_nodes.h"

namespace hv
{
    using namespace hgraph;
    using TryResT = TSB<"TryRes", Field<"exception", TS<NodeError>>, Field<"out", TS<Int>>>;

    struct VTryOut
    {
        static constexpr auto name = "v_tryout";
        HV_LIFECYCLE
        static void eval(In<"r", TryResT, InputValidity::Unchecked> r, Scalar<"uid", Int> uid, NodeView nv, DateTime now,
                         Out<TS<Int>> out)
        {
            auto o = r.field<"out">();
            std::optional<Int> written;
            if (o.modified())
            {
                written = o.value();
                out.set(o.value());
            }
            log_eval(uid.value(), nv, now, written, o);
        }
    };
    struct VTryErr
    {
        static constexpr auto name = "v_tryerr";
        HV_LIFECYCLE
        static void eval(In<"r", TryResT, InputValidity::Unchecked> r, Scalar<"uid", Int> uid, NodeView nv, DateTime now)
        {
            auto e = r.field<"exception">();
            if (e.modified())
            {
                std::string msg = e.base().value().as_bundle().at("error_msg").checked_as<Str>();
                Line("u.err").i(uid.value()).i(gid_of(nv.graph())).i((long long)nv.node_index()).t(now).i(1).s(msg);
            }
        }
    };
}  // namespace hv
