// Collection vocabulary: scripted sources over a fixed set of shapes, a generic (erased, recursive)
// endpoint dumper used by mirror nodes (tick driven) and probe nodes (passive, clock driven),
// and try/except helpers.
#pragma once
#include "hg_nodes.h"
#include <hgraph/types/time_series/ts_delta.h>

namespace hv
{
    using namespace hgraph;
    using TryResT = TSB<"TryRes", Field<"exception", TS<NodeError>>, Field<"out", TS<Int>>>;

    struct VTryOut
    {
        static constexpr auto name = "v_tryout";
        HV_LIFECYCLE
        static void eval(In<"r", TryResT, InputValidity::Unchecked> r, Scalar<"uid", Int> uid, NodeView nv, DateTime now,
                         Out<TS<Int>> out)
        {
            auto o = r.field<"out">();
            std::optional<Int> written;
            if (o.modified())
            {
                written = o.value();
                out.set(o.value());
            }
            log_eval(uid.value(), nv, now, written, o);
        }
    };
    struct VTryErr
    {
        static constexpr auto name = "v_tryerr";
        HV_LIFECYCLE
        static void eval(In<"r", TryResT, InputValidity::Unchecked> r, Scalar<"uid", Int> uid, NodeView nv, DateTime now)
        {
            auto e = r.field<"exception">();
            if (e.modified())
            {
                std::string msg = e.base().value().as_bundle().at("error_msg").checked_as<Str>();
                Line("u.err").i(uid.value()).i(gid_of(nv.graph())).i((long long)nv.node_index()).t(now).i(1).s(msg);
            }
        }
    };

    template <typename O>
    decltype(auto) out_base(const O &o)
    {
        if constexpr (std::is_base_of_v<TSOutputView, O>) return static_cast<const TSOutputView &>(o);
        else return o.base();
    }

    // ---- shapes ---------------------------------------------------------------------------
    using VB    = TSB<"VB", Field<"x", TS<Int>>, Field<"s", TSS<Int>>>;
    using S_TS  = TS<Int>;
    using S_TSS = TSS<Int>;
    using S_TSD = TSD<Int, TS<Int>>;
    using S_TSL = TSL<TS<Int>, 3>;
    using S_DL  = TSL<TS<Int>>;           // dynamic list (no fixed size): a separate storage / delta implementation
    using S_TSB = VB;
    using S_TSW = TSW<Int, 3, 2>;
    using S_DSS = TSD<Int, TSS<Int>>;
    using S_DSB = TSD<Str, VB>;
    using S_LB  = TSL<VB, 2>;
    using S_DD  = TSD<Int, TSD<Int, TS<Int>>>;
    // fixed composites nested in a bundle (child-only ticks of an inner composite while its siblings are still unset)
    using VQ    = TSB<"VQ", Field<"b", TS<Int>>, Field<"a", TS<Int>>>;
    using S_BB  = TSB<"BB", Field<"q", VQ>, Field<"l", TS<Int>>>;
    using S_BL  = TSB<"BL", Field<"g", TSL<TS<Int>, 2>>, Field<"l", TS<Int>>>;
    // a fixed composite two levels deep (rows of a 2x2 grid)
    using S_PAIR = TSL<TS<Int>, 2>;
    using S_QQ   = TSL<TSL<TS<Int>, 2>, 2>;
    // keys narrower than a pointer (the slot store keeps liveness in bitmaps for these)
    using I32     = std::int32_t;
    using S_TSS32 = TSS<I32>;
    using S_TSD32 = TSD<I32, TS<Int>>;

    // ---- generic endpoint dump (JSON) ---------------------------------------------------------
    inline void jesc(std::string &o, const std::string &s)
    {
        o += '"';
        for (char c : s)
        {
            if (c == '"' || c == '\\') { o += '\\'; o += c; }
            else if (c == '\n') o += "\\n";
            else if ((unsigned char)c < 0x20) o += ' ';
            else o += c;
        }
        o += '"';
    }
    inline std::string vstr(const ValueView &v)
    {
        try { return v.has_value() ? v.to_string() : std::string{"<none>"}; }
        catch (const std::exception &e) { return std::string{"<err:"} + e.what() + ">"; }
    }

    inline void dump_ep(std::string &o, const TSInputView &in, int depth = 0)
    {
        const auto *sch = in.schema();
        const bool  valid = in.valid();
        const bool  mod   = in.modified();
        o += "{\"k\":";
        o += std::to_string(sch ? (int)sch->kind : -1);
        o += ",\"v\":";
        o += valid ? "1" : "0";
        o += ",\"m\":";
        o += mod ? "1" : "0";
        o += ",\"av\":";
        o += in.all_valid() ? "1" : "0";
        o += ",\"lmt\":";
        o += std::to_string(toff(in.last_modified_time()));
        if (sch == nullptr) { o += "}"; return; }
        // delta readable?
        {
            o += ",\"d\":";
            std::string ds;
            try
            {
                ValueView d = in.delta_value();
                ds = d.has_value() ? d.to_string() : std::string{"<none>"};
            }
            catch (const std::exception &e) { ds = std::string{"<err:"} + e.what() + ">"; }
            jesc(o, ds);
        }
        switch (sch->kind)
        {
            case TSTypeKind::TS:
            case TSTypeKind::SIGNAL:
            case TSTypeKind::REF:
            {
                o += ",\"val\":";
                jesc(o, valid ? vstr(in.value()) : std::string{"<none>"});
                break;
            }
            case TSTypeKind::TSS:
            {
                auto s = in.as_set();
                auto list = [&](const char *key, Range<ValueView> r) {
                    o += ",\"";
                    o += key;
                    o += "\":[";
                    bool first = true;
                    for (const auto &v : r)
                    {
                        if (!first) o += ',';
                        first = false;
                        jesc(o, vstr(v));
                    }
                    o += "]";
                };
                list("vals", s.values());
                list("add", s.added());
                list("rem", s.removed());
                break;
            }
            case TSTypeKind::TSD:
            {
                auto d = in.as_dict();
                o += ",\"items\":{";
                bool first = true;
                for (auto [k, child] : d.items())
                {
                    if (!first) o += ',';
                    first = false;
                    jesc(o, vstr(k));
                    o += ':';
                    dump_ep(o, child, depth + 1);
                }
                o += "}";
                auto klist = [&](const char *key, Range<ValueView> r) {
                    o += ",\"";
                    o += key;
                    o += "\":[";
                    bool f = true;
                    for (const auto &v : r)
                    {
                        if (!f) o += ',';
                        f = false;
                        jesc(o, vstr(v));
                    }
                    o += "]";
                };
                klist("add", d.added_keys());
                klist("rem", d.removed_keys());
                klist("modk", d.modified_keys());
                klist("validk", d.valid_keys());
                // removed values stay readable for the cycle
                o += ",\"remv\":{";
                first = true;
                for (auto [k, child] : d.removed_items())
                {
                    if (!first) o += ',';
                    first = false;
                    jesc(o, vstr(k));
                    o += ':';
                    std::string cv;
                    try { cv = child.valid() ? vstr(child.value()) : std::string{"<none>"}; }
                    catch (const std::exception &e) { cv = std::string{"<err:"} + e.what() + ">"; }
                    jesc(o, cv);
                }
                o += "}";
                break;
            }
            case TSTypeKind::TSL:
            {
                auto l = in.as_list();
                o += ",\"ch\":[";
                const std::size_t n = l.size();
                for (std::size_t k = 0; k < n; ++k)
                {
                    if (k) o += ',';
                    dump_ep(o, l.at(k), depth + 1);
                }
                o += "],\"modi\":[";
                bool first = true;
                for (auto [k, child] : l.modified_items())
                {
                    if (!first) o += ',';
                    first = false;
                    o += std::to_string(k);
                }
                o += "]";
                // the indices the list's own per-tick delta lists (its canonical delta is a map index -> child delta)
                o += ",\"dk\":";
                try
                {
                    ValueView dv = in.delta_value();
                    std::string ks = "[";
                    if (dv.has_value())
                    {
                        bool f2 = true;
                        for (const auto &[key, cd] : dv.as_map())
                        {
                            static_cast<void>(cd);
                            if (!f2) ks += ',';
                            f2 = false;
                            ks += std::to_string((long long)key.template checked_as<std::int64_t>());
                        }
                    }
                    o += ks + "]";
                }
                catch (const std::exception &) { o += "null"; }
                break;
            }
            case TSTypeKind::TSB:
            {
                auto b = in.as_bundle();
                o += ",\"ch\":[";
                const std::size_t n = b.size();
                for (std::size_t k = 0; k < n; ++k)
                {
                    if (k) o += ',';
                    dump_ep(o, b.at(k), depth + 1);
                }
                o += "],\"modi\":[";
                bool first = true;
                for (auto [k, child] : b.modified_items())
                {
                    if (!first) o += ',';
                    first = false;
                    std::size_t fi = 0, q = 0;
                    for (auto name : b.keys()) { if (name == k) fi = q; ++q; }
                    o += std::to_string(fi);
                }
                o += "]";
                break;
            }
            case TSTypeKind::TSW:
            {
                auto w = in.as_window();
                o += ",\"vals\":[";
                bool first = true;
                if (w.size() > 0)
                {
                    for (const auto &v : w.values())
                    {
                        if (!first) o += ',';
                        first = false;
                        jesc(o, vstr(v));
                    }
                }
                o += "],\"times\":[";
                try
                {
                    auto dv = w.data_view();
                    for (std::size_t i = 0; i < dv.size(); ++i)
                    {
                        if (i) o += ',';
                        o += std::to_string(toff(dv.time_at(i)));
                    }
                }
                catch (const std::exception &) {}
                o += "],\"hasrem\":";
                bool hasrem = false;
                try { hasrem = w.has_removed_value(); } catch (const std::exception &) {}
                o += hasrem ? "1" : "0";
                o += ",\"remv\":";
                std::string rv = "<none>";
                if (hasrem) { try { rv = vstr(w.removed_value()); } catch (const std::exception &e) { rv = std::string{"<err:"} + e.what() + ">"; } }
                jesc(o, rv);
                o += ",\"cleared\":";
                bool clr = false;
                try { clr = w.data_view().cleared(in.evaluation_time()); } catch (const std::exception &) {}
                o += clr ? "1" : "0";
                o += ",\"size\":";
                o += std::to_string(w.size());
                // tick-count windows only: a duration window has no size layout
                long long per = -1, minp = -1;
                try { per = (long long)w.period(); minp = (long long)w.min_period(); }
                catch (const std::exception &) {}
                o += ",\"period\":";
                o += std::to_string(per);
                o += ",\"minp\":";
                o += std::to_string(minp);
                break;
            }
        }
        o += "}";
    }

    inline void log_dump(const char *kind, Int uid, const NodeView &nv, DateTime now, const TSInputView &in)
    {
        auto &c = ctx();
        c.out += kind;
        c.out += ' ';
        c.out += std::to_string(uid);
        c.out += ' ';
        c.out += std::to_string(gid_of(nv.graph()));
        c.out += ' ';
        c.out += std::to_string((long long)nv.node_index());
        c.out += ' ';
        c.out += std::to_string(toff(now));
        c.out += ' ';
        std::string js;
        try { dump_ep(js, in); }
        catch (const std::exception &e) { js = std::string{"{\"error\":\""} + e.what() + "\"}"; }
        // trace lines are whitespace tokenised: keep the JSON as one token
        for (char &ch : js) { if (ch == ' ' || ch == '\t') ch = '_'; }
        c.out += js;
        c.out += '\n';
    }

    // ---- scripted mutation --------------------------------------------------------------------
    // op grammar (per shape, recursive):
    //   TS<Int>:  =<v> | i (invalidate)          TSS<Int>: +<v> | -<v> | c
    //   TSD<K,V>: [<k>]<child op> | x[<k>] | c    TSL:      [<i>]<child op>
    //   VB:       .x<child op> | .s<child op>      TSW:      ^<v>
    template <typename T> struct is_tsd : std::false_type {};
    template <typename K, typename V> struct is_tsd<TSD<K, V>> : std::true_type { using key = K; using val = V; };
    template <typename T> struct is_tsl : std::false_type {};
    template <typename E, auto N> struct is_tsl<TSL<E, N>> : std::true_type { using elem = E; };
    template <typename T> struct is_tsw : std::false_type {};
    template <typename V, std::size_t P, std::size_t M> struct is_tsw<TSW<V, P, M>> : std::true_type {};

    template <typename K> K parse_key(const std::string &s);
    template <> inline Int parse_key<Int>(const std::string &s) { return std::atoll(s.c_str()); }
    template <> inline Str parse_key<Str>(const std::string &s) { return s; }
    template <> inline I32 parse_key<I32>(const std::string &s) { return (I32)std::atoll(s.c_str()); }

    template <typename Sch>
    void apply_op(const Out<Sch> &out, const std::string &op, DateTime now)
    {
        if (op.empty()) return;
        if (op == "I")
        {
            // explicit invalidation of the WHOLE endpoint (a container cascades into its children)
            auto m = out_base(out).begin_mutation(now);
            (void)m.invalidate();
            return;
        }
        if constexpr (std::is_same_v<Sch, TS<Int>>)
        {
            if (op[0] == '=') out.set(Int{std::atoll(op.c_str() + 1)});
            else if (op[0] == 'i') { auto m = out_base(out).begin_mutation(now); (void)m.invalidate(); }
            else throw std::runtime_error("bad TS op " + op);
        }
        else if constexpr (std::is_same_v<Sch, TSS<Int>>)
        {
            if (op[0] == '+') (void)out.add(Int{std::atoll(op.c_str() + 1)});
            else if (op[0] == '-') (void)out.remove(Int{std::atoll(op.c_str() + 1)});
            else if (op[0] == 'c') out.clear();
            else if (op[0] == ':')
            {
                // :a;b;c  whole-value assignment (copy_value_from a set value): what push sources, table outputs and keyed
                // entries assigned as a whole do; ":" alone assigns the empty set
                SetBuilder builder{stdlib::scalar_value_binding<Int>()};
                for (const auto &e : split(op.substr(1), ';'))
                    if (!e.empty()) (void)builder.insert(Int{std::atoll(e.c_str())});
                Value whole = builder.build();
                auto  m     = out_base(out).begin_mutation(now);
                (void)m.copy_value_from(whole.view());
            }
            else throw std::runtime_error("bad TSS op " + op);
        }
        else if constexpr (std::is_same_v<Sch, TSS<I32>>)
        {
            if (op[0] == '+') (void)out.add(I32{(I32)std::atoll(op.c_str() + 1)});
            else if (op[0] == '-') (void)out.remove(I32{(I32)std::atoll(op.c_str() + 1)});
            else if (op[0] == 'c') out.clear();
            else if (op[0] == ':')
            {
                SetBuilder builder{stdlib::scalar_value_binding<I32>()};
                for (const auto &e : split(op.substr(1), ';'))
                    if (!e.empty()) (void)builder.insert(I32{(I32)std::atoll(e.c_str())});
                Value whole = builder.build();
                auto  m     = out_base(out).begin_mutation(now);
                (void)m.copy_value_from(whole.view());
            }
            else throw std::runtime_error("bad TSS32 op " + op);
        }
        else if constexpr (is_tsd<Sch>::value)
        {
            using K = typename is_tsd<Sch>::key;
            using V = typename is_tsd<Sch>::val;
            if (op[0] == 'c') { out.clear(); return; }
            const bool erase = op[0] == 'x';
            const std::size_t lb = op.find('['), rb = op.find(']');
            if (lb == std::string::npos || rb == std::string::npos) throw std::runtime_error("bad TSD op " + op);
            K key = parse_key<K>(op.substr(lb + 1, rb - lb - 1));
            if (erase) { (void)out.erase(key); return; }
            Out<V> child = out[key];
            apply_op<V>(child, op.substr(rb + 1), now);
        }
        else if constexpr (is_tsl<Sch>::value)
        {
            using E = typename is_tsl<Sch>::elem;
            const std::size_t lb = op.find('['), rb = op.find(']');
            if (lb == std::string::npos || rb == std::string::npos) throw std::runtime_error("bad TSL op " + op);
            Out<E> child = out[(std::size_t)std::atoll(op.substr(lb + 1, rb - lb - 1).c_str())];
            apply_op<E>(child, op.substr(rb + 1), now);
        }
        else if constexpr (std::is_same_v<Sch, VB>)
        {
            if (op.rfind(".x", 0) == 0) { auto c = out.template field<"x">(); apply_op<TS<Int>>(c, op.substr(2), now); }
            else if (op.rfind(".s", 0) == 0) { auto c = out.template field<"s">(); apply_op<TSS<Int>>(c, op.substr(2), now); }
            else throw std::runtime_error("bad TSB op " + op);
        }
        else if constexpr (std::is_same_v<Sch, VQ>)
        {
            if (op.rfind(".b", 0) == 0) { auto c = out.template field<"b">(); apply_op<TS<Int>>(c, op.substr(2), now); }
            else if (op.rfind(".a", 0) == 0) { auto c = out.template field<"a">(); apply_op<TS<Int>>(c, op.substr(2), now); }
            else throw std::runtime_error("bad VQ op " + op);
        }
        else if constexpr (std::is_same_v<Sch, S_BB>)
        {
            if (op.rfind(".q", 0) == 0) { auto c = out.template field<"q">(); apply_op<VQ>(c, op.substr(2), now); }
            else if (op.rfind(".l", 0) == 0) { auto c = out.template field<"l">(); apply_op<TS<Int>>(c, op.substr(2), now); }
            else throw std::runtime_error("bad BB op " + op);
        }
        else if constexpr (std::is_same_v<Sch, S_BL>)
        {
            if (op.rfind(".g", 0) == 0) { auto c = out.template field<"g">(); apply_op<TSL<TS<Int>, 2>>(c, op.substr(2), now); }
            else if (op.rfind(".l", 0) == 0) { auto c = out.template field<"l">(); apply_op<TS<Int>>(c, op.substr(2), now); }
            else throw std::runtime_error("bad BL op " + op);
        }
        else if constexpr (is_tsw<Sch>::value)
        {
            if (op[0] == '^') out.push(Int{std::atoll(op.c_str() + 1)});
            else if (op[0] == 'c') out.clear();
            else throw std::runtime_error("bad TSW op " + op);
        }
    }

    // cscript entry: "<t>|op,op,op"
    inline long long cs_time(const std::string &e) { return std::atoll(e.c_str()); }

    template <typename Sch>
    struct CSrc
    {
        static constexpr auto name = "c_src";
        static void start(NodeScheduler sched, State<Int> pos, Scalar<"uid", Int> uid, NodeView nv, DateTime now)
        {
            user_start(uid.value(), nv, now);
            auto &sc = ctx().cscripts[uid.value()];
            std::size_t p = 0;
            while (p < sc.size() && tabs(cs_time(sc[p])) < now) ++p;
            pos.set(Int{(long long)p});
            if (p < sc.size()) sched.schedule(tabs(cs_time(sc[p])));
        }
        static void stop(Scalar<"uid", Int> uid, NodeView nv, DateTime now) { user_stop(uid.value(), nv, now); }
        static void eval(NodeScheduler sched, State<Int> pos, Scalar<"uid", Int> uid, NodeView nv, DateTime now, Out<Sch> out)
        {
            maybe_fault(uid.value(), "eval");
            auto &sc = ctx().cscripts[uid.value()];
            std::size_t p = (std::size_t)pos.get();
            if (p < sc.size() && tabs(cs_time(sc[p])) == now)
            {
                const std::string &e = sc[p];
                const std::string ops = e.substr(e.find('|') + 1);
                Line("c.write").i(uid.value()).i(gid_of(nv.graph())).i((long long)nv.node_index()).t(now).s(ops);
                for (const auto &op : split(ops, ',')) apply_op<Sch>(out, op, now);
                ++p;
                pos.set(Int{(long long)p});
                if (p < sc.size()) sched.schedule(tabs(cs_time(sc[p])));
            }
        }
    };

    // combiner over DICTIONARY-valued elements: key-wise sum of two dictionaries (keys of either side; stale keys are erased)
    struct VMergeDD
    {
        static constexpr auto name = "v_mergedd";
        static void eval(In<"a", TSD<Int, TS<Int>>, InputValidity::Unchecked> a, In<"b", TSD<Int, TS<Int>>, InputValidity::Unchecked> b,
                         Out<TSD<Int, TS<Int>>> out)
        {
            std::map<Int, Int> sum;
            auto add_side = [&](const TSInputView &side) {
                if (!side.valid()) return;
                auto d = side.as_dict();
                for (auto [k, child] : d.items())
                {
                    if (!child.valid()) continue;
                    const Int key = std::atoll(k.to_string().c_str());
                    sum[key] = wrap(sum[key] + std::atoll(child.value().to_string().c_str()));
                }
            };
            add_side(a.base());
            add_side(b.base());
            std::vector<Int> stale;
            for (auto [k, child] : out.items())
            {
                (void)child;
                const Int key = std::atoll(k.to_string().c_str());
                if (!sum.count(key)) stale.push_back(key);
            }
            for (const Int k : stale) (void)out.erase(k);
            for (const auto &[k, v] : sum) out.set(k, v);
        }
    };

    // TS<Int> -> TSS<Int>: publishes (value mod m) into a set output; acc=1 accumulates over the life of the INSTANCE, acc=0 keeps
    // exactly the latest element. A fresh instance therefore starts from the empty set (C12: collection-valued switch outputs).
    struct VToSet
    {
        static constexpr auto name = "v_toset";
        static void stop(Scalar<"uid", Int> uid, NodeView nv, DateTime now) { user_stop(uid.value(), nv, now); }
        static void eval(In<"a", TS<Int>> a, Scalar<"uid", Int> uid, Scalar<"mod", Int> mod, Scalar<"acc", Int> acc, State<Int> last,
                         NodeView nv, DateTime now, Out<TSS<Int>> out)
        {
            const Int m = mod.value() <= 0 ? Int{8} : mod.value();
            const Int e = ((a.value() % m) + m) % m;
            if (acc.value() == 0 && last.get() != e && last.get() >= 0) (void)out.remove(last.get());
            (void)out.add(e);
            last.set(e);
            log_eval(uid.value(), nv, now, e, a);
        }
        static void start(State<Int> last, Scalar<"uid", Int> uid, NodeView nv, DateTime now)
        {
            last.set(Int{-1});
            user_start(uid.value(), nv, now);
        }
    };

    // holds a reference and publishes it AGAIN on every trigger tick (and when the reference itself changes): a producer that does
    // not de-duplicate - "republishing an unchanged reference causes no tick" has to be realised below it (C13)
    template <typename Sch>
    struct VRepublish
    {
        static constexpr auto name = "v_republish";
        HV_LIFECYCLE
        static void eval(In<"ts", REF<Sch>> ts, In<"trigger", TS<Int>> trigger, Scalar<"uid", Int> uid, NodeView nv, DateTime now,
                         Out<REF<Sch>> out)
        {
            out.set(ts.value());
            log_eval(uid.value(), nv, now, trigger.modified() ? Int{1} : Int{0}, trigger);
        }
    };

    // remembers the live VALUE of its input after every tick (a copy), per uid: the post-run fold oracle (OPT fold=) compares what
    // the recovery fold of a recording yields at each of these instants with the value the series really had (C20)
    inline std::map<long long, std::vector<std::pair<DateTime, Value>>> &live_values()
    {
        static thread_local std::map<long long, std::vector<std::pair<DateTime, Value>>> m;
        return m;
    }
    template <typename Sch>
    struct CLive
    {
        static constexpr auto name = "c_live";
        HV_LIFECYCLE
        static void eval(In<"a", Sch> a, Scalar<"uid", Int> uid, NodeView nv, DateTime now)
        {
            (void)nv;
            live_values()[(long long)uid.value()].emplace_back(now, Value{a.base().value()});
        }
    };

    // two structural inputs, each ASSEMBLED from two independent ports (non-peered); at its <at>-th evaluation the node makes the
    // list selected by <drop> (0 = xs, 1 = ys) passive AT RUN TIME, at its <back>-th evaluation (0 = never) active again. Ticks
    // of a passive list alone must not run it, ticks of the other list still must (C03)
    struct VGate4
    {
        static constexpr auto name = "v_gate4";
        static void start(State<Int> n, Scalar<"uid", Int> uid, NodeView nv, DateTime now)
        {
            n.set(Int{0});
            user_start(uid.value(), nv, now);
        }
        static void stop(Scalar<"uid", Int> uid, NodeView nv, DateTime now) { user_stop(uid.value(), nv, now); }
        static void eval(In<"xs", TSL<TS<Int>, 2>, InputValidity::Unchecked> xs, In<"ys", TSL<TS<Int>, 2>, InputValidity::Unchecked> ys,
                         Scalar<"uid", Int> uid, Scalar<"drop", Int> drop, Scalar<"at", Int> at, Scalar<"back", Int> back, State<Int> n,
                         NodeView nv, DateTime now, Out<TS<Int>> out)
        {
            Int sum = 0;
            for (std::size_t i = 0; i < 2; ++i)
            {
                if (xs[i].valid()) sum += xs[i].value();
                if (ys[i].valid()) sum += ys[i].value();
            }
            sum = wrap(sum);
            out.set(sum);
            const Int k = n.get() + 1;
            n.set(k);
            if (k == at.value())
            {
                if (drop.value() == 0) xs.make_passive();
                else if (drop.value() == 1) ys.make_passive();
            }
            if (back.value() > 0 && k == back.value())
            {
                if (drop.value() == 0) xs.make_active();
                else if (drop.value() == 1) ys.make_active();
            }
            log_eval(uid.value(), nv, now, sum);
        }
    };

    // tick-driven mirror (active input) and clock-driven probe (passive input)
    template <typename Sch>
    struct CMirror
    {
        static constexpr auto name = "c_mirror";
        HV_LIFECYCLE
        static void eval(In<"a", Sch, InputValidity::Unchecked> a, Scalar<"uid", Int> uid, NodeView nv, DateTime now)
        {
            log_dump("c.mirror", uid.value(), nv, now, a.base());
        }
    };
    // mirror over a schema that has no compile-time spelling (duration windows): generic input, same dump
    struct CMirrorAny
    {
        static constexpr auto name = "c_mirror_any";
        HV_LIFECYCLE
        static void eval(In<"a", TsVar<"W">, InputValidity::Unchecked> a, Scalar<"uid", Int> uid, NodeView nv, DateTime now)
        {
            log_dump("c.mirror", uid.value(), nv, now, a.base());
        }
    };
    template <typename Sch>
    struct CProbe
    {
        static constexpr auto name = "c_probe";
        HV_LIFECYCLE
        static void eval(In<"a", Sch, InputActivity::Passive, InputValidity::Unchecked> a, In<"clk", TS<Int>> clk,
                         Scalar<"uid", Int> uid, NodeView nv, DateTime now)
        {
            (void)clk;
            log_dump("c.probe", uid.value(), nv, now, a.base());
        }
    };
    // delta round trip: out receives only apply_delta(capture_delta(in)) each tick (the tree's pass_through_node logic,
    // instrumented): C20 (b)
    template <typename Sch>
    struct CCopy
    {
        static constexpr auto name = "c_copy";
        HV_LIFECYCLE
        static void eval(In<"a", Sch> a, Scalar<"uid", Int> uid, NodeView nv, DateTime now, Out<Sch> out)
        {
            const Value delta = capture_delta(a.base());
            std::string ds = delta.view().has_value() ? delta.view().to_string() : std::string{"<none>"};
            for (char &ch : ds) { if (ch == ' ' || ch == '\t' || ch == '\n') ch = '_'; }
            Line("c.delta").i(uid.value()).i(gid_of(nv.graph())).i((long long)nv.node_index()).t(now).s(ds);
            apply_delta(out_base(out), delta.view());
        }
    };
}  // namespace hv
