// hgrt: real-time / threaded driver (C16 push queue, C17 real-time loop).
//
//   hgrt <scenario file> <trace file>
//
// One scenario per line, key=value tokens:
//   name=<id> kind=push|timers
//   push:   policy=queue|burst|conflate cap=<n> producers=<p> msgs=<m> blocking=0|1 pacing=spin|yield|sleep:<us>|burst:<n>:<us>
//           stop=drain|afterms:<ms>|aftermsgs:<n> late=<n> end_ms=<ms> slice_us=<us>
//   timers: timers=<spec>;<spec>...   spec = rel:<us> | abs:<us> | wall:<us> | due:<us> (wall alarm already due by <us>)
//                                            | chain:<us>:<n> (re-arms itself n times) ; all relative to the run start
//           stop=none|afterms:<ms> end_ms=<ms> start_past_ms=<ms> slice_us=<us>
//   both:   delays=<hook>:<us>[:every]   (comma separated) seed=<n>
//
// Trace (times in ns from scenario start unless stated):
//   SC <name> / ENDSC <name>
//   H <tid> <phase> <ts>                       hook point reached (before the injected delay)
//   P <tid> <op> <id> <call_ts> <ret_ts> <result>   producer boundary history (op = try|block|late)
//   D <evaltime_us> <wall_us> <steady_ts> <pending> <n> <ids...>   delivery seen by the sink (evaltime/wall relative to run start)
//   T <label> <evaltime_us> <wall_us> <steady_ts> <kind>  timer node evaluation
//   R <label> <made_evaltime_us> <when_us> <kind>        wake-up request made by a timer node
//   STOP <call_ts> <ret_ts>                    request_stop from the controller thread
//   RUN <start_ts> <returned_ts> <status> <start_time_us_epoch>
//   X <text>
#include <hgraph/lib/std/standard_types.h>
#include <hgraph/lib/testing/runtime_support.h>
#include <hgraph/runtime/lifecycle_observer.h>
#include <hgraph/runtime/node_scheduler.h>
#include <hgraph/runtime/push_source_node.h>
#include <hgraph/runtime/runtime.h>
#include <hgraph/types/metadata/type_registry.h>
#include <hgraph/types/static_node.h>
#include <hgraph/types/static_schema.h>
#include <hgraph/util/verif_hooks.h>

#include <atomic>
#include <chrono>
#include <cstdio>
#include <fstream>
#include <map>
#include <mutex>
#include <random>
#include <sstream>
#include <string>
#include <thread>
#include <vector>

using namespace hgraph;
using sclock = std::chrono::steady_clock;

namespace
{
    // write-through trace: a run that never returns still leaves its phase log on disk (the hang verdict of C17
    // is taken on that log, not on a timer)
    struct Trace
    {
        std::mutex  m;
        FILE       *out{nullptr};
        sclock::time_point t0;
        long long now() const { return std::chrono::duration_cast<std::chrono::nanoseconds>(sclock::now() - t0).count(); }
        void line(const std::string &s)
        {
            std::lock_guard<std::mutex> l(m);
            std::fwrite(s.data(), 1, s.size(), out);
            std::fputc('\n', out);
            std::fflush(out);
        }
    };
    Trace *g_trace = nullptr;

    struct DelayPlan
    {
        std::map<std::string, std::pair<long long, long long>> delays;   // hook -> (us, every)
        std::map<std::string, std::atomic<long long>>          counts;
    };
    DelayPlan *g_plan = nullptr;
    thread_local int tl_tid = -1;
    std::atomic<int> g_next_tid{0};

    int tid()
    {
        if (tl_tid < 0) tl_tid = g_next_tid.fetch_add(1);
        return tl_tid;
    }

    void hook_point(const char *name)
    {
        Trace *t = g_trace;
        if (t == nullptr) return;
        const long long ts = t->now();
        t->line("H " + std::to_string(tid()) + " " + name + " " + std::to_string(ts));
        DelayPlan *p = g_plan;
        if (p == nullptr) return;
        auto it = p->delays.find(name);
        if (it == p->delays.end()) return;
        const long long n = p->counts[name].fetch_add(1);
        if (it->second.second <= 1 || n % it->second.second == 0)
        {
            std::this_thread::sleep_for(std::chrono::microseconds(it->second.first));
        }
    }

    std::map<std::string, std::string> parse_kv(const std::string &line)
    {
        std::map<std::string, std::string> kv;
        std::istringstream is(line);
        std::string tok;
        while (is >> tok)
        {
            auto eq = tok.find('=');
            if (eq != std::string::npos) kv[tok.substr(0, eq)] = tok.substr(eq + 1);
        }
        return kv;
    }
    std::vector<std::string> split(const std::string &s, char sep)
    {
        std::vector<std::string> out;
        std::string cur;
        for (char c : s)
        {
            if (c == sep) { out.push_back(cur); cur.clear(); }
            else cur += c;
        }
        if (!cur.empty()) out.push_back(cur);
        return out;
    }
    long long geti(const std::map<std::string, std::string> &kv, const std::string &k, long long d)
    {
        auto it = kv.find(k);
        return it == kv.end() ? d : std::atoll(it->second.c_str());
    }
    std::string gets(const std::map<std::string, std::string> &kv, const std::string &k, const std::string &d)
    {
        auto it = kv.find(k);
        return it == kv.end() ? d : it->second;
    }

    long long us_since(DateTime t, DateTime start) { return (long long)(t - start).count(); }

    // -------------------------------------------------------------------------------------------
    // push scenario
    // -------------------------------------------------------------------------------------------
    // start / stop order of the root graph's nodes ("LS start <idx>", "LS stop <idx>")
    struct OrderObserver : LifecycleObserver
    {
        Trace *tr{nullptr};
        void on_before_start_node(const NodeView &n) override { tr->line("LS start " + std::to_string(n.node_index())); }
        void on_before_stop_node(const NodeView &n) override { tr->line("LS stop " + std::to_string(n.node_index())); }
    };

    void run_push(const std::map<std::string, std::string> &kv, Trace &tr)
    {
        const std::string policy = gets(kv, "policy", "queue");
        const std::size_t cap     = (std::size_t)geti(kv, "cap", 0);
        const int producers       = (int)geti(kv, "producers", 2);
        const long long msgs      = geti(kv, "msgs", 100);
        const bool blocking       = geti(kv, "blocking", 0) != 0;
        const std::string pacing  = gets(kv, "pacing", "spin");
        const std::string stop    = gets(kv, "stop", "drain");
        const long long late      = geti(kv, "late", 3);
        const long long end_ms    = geti(kv, "end_ms", 3000);
        const long long slice_us  = geti(kv, "slice_us", 0);
        const int nsrc            = (int)std::max<long long>(1, geti(kv, "sources", 1));   // push sources in ONE graph
        std::vector<std::size_t> caps((std::size_t)nsrc, cap);                               // caps=a,b,..: one capacity per source
        {
            const auto cs = split(gets(kv, "caps", ""), ',');
            for (std::size_t i = 0; i < cs.size() && i < caps.size(); ++i)
                if (!cs[i].empty()) caps[i] = (std::size_t)std::atoll(cs[i].c_str());
        }

        const auto *ts_int   = ts_type<TS<Int>>();
        const auto *ts_tuple = ts_type<TS<HomogeneousTuple<Int>>>();
        const bool burst     = policy == "burst";
        const auto *out_ts   = burst ? ts_tuple : ts_int;
        const auto *in_schema = hgraph::testing::single_input_schema(*out_ts);

        std::vector<PushSourceSender> senders((std::size_t)nsrc);
        std::atomic<int> started_n{0};
        std::atomic<bool> started{false};
        DateTime start_time = hgraph::testing::wall_now();

        NodeTypeMetaData sink_schema;
        sink_schema.display_name = "verif_sink";
        sink_schema.input_schema = in_schema;
        sink_schema.node_kind    = NodeKind::Sink;
        std::atomic<long long> delivered{0};
        std::vector<std::atomic<long long>> last_delivered((std::size_t)nsrc);
        std::vector<std::atomic<long long>> last_accepted((std::size_t)std::max(1, producers));
        std::vector<std::atomic<long long>> last_acc_call((std::size_t)std::max(1, producers)), last_acc_ret((std::size_t)std::max(1, producers));
        for (auto &a : last_delivered) a.store(-1);
        for (auto &a : last_accepted) a.store(-1);
        for (auto &a : last_acc_call) a.store(-1);
        for (auto &a : last_acc_ret) a.store(-1);
        auto make_eval = [&](int src) {
          return [&, src](const NodeView &view, DateTime evaluation_time) {
            auto root   = view.input(evaluation_time);
            auto bundle = root.as_bundle();
            auto input  = bundle[0];
            std::string ids;
            long long n = 0;
            if (burst)
            {
                auto tuple = input.value().as_list();
                for (std::size_t i = 0; i < tuple.size(); ++i)
                {
                    ids += " " + std::to_string((long long)tuple[i].checked_as<Int>());
                    ++n;
                }
            }
            else
            {
                ids += " " + std::to_string((long long)input.value().checked_as<Int>());
                n = 1;
                last_delivered[(std::size_t)src].store((long long)input.value().checked_as<Int>());
            }
            delivered.fetch_add(n);
            long long pending = -1;
            try
            {
                auto m = view.graph().node_at((std::size_t)src).inspection_metrics();
                if (m.pending_items.has_value()) pending = (long long)*m.pending_items;
            }
            catch (...) {}
            const DateTime wall = hgraph::testing::wall_now();
            tr.line("D " + std::to_string(us_since(evaluation_time, start_time)) + " " + std::to_string(us_since(wall, start_time)) + " " +
                    std::to_string(tr.now()) + " " + std::to_string(pending) + " " + std::to_string(n) + ids + " s" + std::to_string(src));
          };
        };

        GraphBuilder builder;
        for (int src = 0; src < nsrc; ++src)
        {
            PushSourcePolicy pol_s = policy == "conflate" ? make_push_source_conflating_policy(*ts_int)
                                     : burst              ? make_push_source_burst_policy(*ts_tuple, caps[(std::size_t)src])
                                                          : make_push_source_queue_policy(*ts_int, caps[(std::size_t)src]);
            builder.add_node(make_push_source_node(*out_ts, pol_s, [&, src](PushSourceSender s) {
                senders[(std::size_t)src] = std::move(s);
                if (started_n.fetch_add(1) + 1 == nsrc) started.store(true, std::memory_order_release);
            }));
        }
        for (int src = 0; src < nsrc; ++src)
        {
            NodeTypeMetaData sk = sink_schema;
            NodeCallbacks cbs;
            cbs.evaluate = make_eval(src);
            builder.add_node(NodeBuilder::native(std::move(sk), std::move(cbs), hgraph::testing::single_input_endpoint(*in_schema, *out_ts)));
            builder.add_edge(GraphEdge{.source_node = make_graph_edge_source((std::size_t)src), .source_path = {},
                                       .target_node = (std::size_t)(nsrc + src), .target_path = {0}});
        }

        start_time = hgraph::testing::wall_now();
        GraphExecutorBuilder eb;
        eb.graph_builder(std::move(builder)).mode(GraphExecutorMode::RealTime).start_time(start_time).end_time(start_time + TimeDelta{end_ms * 1000});
        if (slice_us > 0) eb.max_wait_slice(TimeDelta{slice_us});
        OrderObserver order_obs;
        order_obs.tr = &tr;
        eb.add_lifecycle_observer(&order_obs);
        auto executor = eb.make_executor();
        auto view     = executor.view();

        std::atomic<bool> run_returned{false};
        std::atomic<long long> accepted_total{0};
        std::atomic<int> producers_done{0};
        std::vector<std::thread> threads;
        std::mt19937_64 seed_rng((unsigned long long)geti(kv, "seed", 1));
        for (int p = 0; p < producers; ++p)
        {
            const unsigned long long ps = seed_rng();
            threads.emplace_back([&, p, ps] {
                std::mt19937_64 rng(ps);
                while (!started.load(std::memory_order_acquire) && !run_returned.load()) std::this_thread::yield();
                PushSourceSender s = senders[(std::size_t)(p % nsrc)];
                const auto pp = split(pacing, ':');
                for (long long i = 0; i < msgs; ++i)
                {
                    const long long id = (long long)(p + 1) * 1000000 + i;
                    const long long c  = tr.now();
                    bool ok = blocking ? s.send_blocking(Int{id}) : s.try_send(Int{id});
                    const long long r = tr.now();
                    if (ok)
                    {
                        accepted_total.fetch_add(1);
                        last_acc_call[(std::size_t)p].store(c);
                        last_acc_ret[(std::size_t)p].store(r);
                        last_accepted[(std::size_t)p].store(id);
                    }
                    tr.line("P " + std::to_string(tid()) + (blocking ? " block " : " try ") + std::to_string(id) + " " + std::to_string(c) + " " +
                            std::to_string(r) + " " + (ok ? "1" : "0"));
                    if (run_returned.load()) break;
                    if (pp[0] == "yield") std::this_thread::yield();
                    else if (pp[0] == "sleep") std::this_thread::sleep_for(std::chrono::microseconds(std::atoll(pp.at(1).c_str())));
                    else if (pp[0] == "burst")
                    {
                        if ((i + 1) % std::atoll(pp.at(1).c_str()) == 0) std::this_thread::sleep_for(std::chrono::microseconds(std::atoll(pp.at(2).c_str())));
                    }
                    else if (pp[0] == "rand")
                    {
                        const auto d = rng() % 4;
                        if (d == 1) std::this_thread::yield();
                        else if (d == 2) std::this_thread::sleep_for(std::chrono::microseconds(rng() % 200));
                    }
                }
                producers_done.fetch_add(1);
            });
        }
        std::thread controller([&] {
            const auto sp = split(stop, ':');
            if (sp[0] == "afterms") std::this_thread::sleep_for(std::chrono::milliseconds(std::atoll(sp.at(1).c_str())));
            else if (sp[0] == "aftermsgs")
            {
                const long long want = std::atoll(sp.at(1).c_str());
                while (delivered.load() < want && !run_returned.load() && producers_done.load() < producers) std::this_thread::sleep_for(std::chrono::microseconds(50));
            }
            else   // drain: wait for the producers, then for everything accepted to be delivered (bounded)
            {
                while (producers_done.load() < producers && !run_returned.load()) std::this_thread::sleep_for(std::chrono::microseconds(100));
                const auto deadline = sclock::now() + std::chrono::milliseconds(2500);
                while (policy != "conflate" && delivered.load() < accepted_total.load() && sclock::now() < deadline && !run_returned.load())
                    std::this_thread::sleep_for(std::chrono::microseconds(100));
                // conflating source: the latest accepted value of some producer of each source must come out (same bound)
                auto conflated_out = [&] {
                    for (int src = 0; src < nsrc; ++src)
                    {
                        bool any = false, hit = false;
                        for (int p = src; p < producers; p += nsrc)
                        {
                            const long long la = last_accepted[(std::size_t)p].load();
                            if (la < 0) continue;
                            any = true;
                            if (la != last_delivered[(std::size_t)src].load()) continue;
                            // ... and it can be the FINAL value: no other producer's last accepted send began after this one returned
                            bool final_ok = true;
                            for (int q = src; q < producers; q += nsrc)
                                if (q != p && last_accepted[(std::size_t)q].load() >= 0 &&
                                    last_acc_call[(std::size_t)q].load() > last_acc_ret[(std::size_t)p].load()) final_ok = false;
                            if (final_ok) hit = true;
                        }
                        if (any && !hit) return false;
                    }
                    return true;
                };
                while (policy == "conflate" && !conflated_out() && sclock::now() < deadline && !run_returned.load())
                    std::this_thread::sleep_for(std::chrono::microseconds(100));
            }
            const long long c = tr.now();
            view.request_stop();
            tr.line("STOP " + std::to_string(c) + " " + std::to_string(tr.now()));
        });
        const long long rs = tr.now();
        std::string status = "ok";
        try { view.run(); }
        catch (const std::exception &e) { status = "error"; tr.line(std::string("X ") + e.what()); }
        const long long rr = tr.now();
        run_returned.store(true);
        tr.line("RUN " + std::to_string(rs) + " " + std::to_string(rr) + " " + status + " " + std::to_string((long long)(start_time - DateTime{}).count()));
        controller.join();
        for (auto &t : threads) t.join();
        // sends after the run returned must be refused
        for (long long i = 0; i < late; ++i)
        {
            const long long id = 900000000 + i;
            const long long c  = tr.now();
            const bool ok = (i % 2 == 0) ? senders[0].try_send(Int{id}) : senders[0].send_blocking(Int{id});
            tr.line("P " + std::to_string(tid()) + " late " + std::to_string(id) + " " + std::to_string(c) + " " + std::to_string(tr.now()) + " " + (ok ? "1" : "0"));
        }
    }

    // -------------------------------------------------------------------------------------------
    // push source that ALSO owns timers (kind=pstimer): node 0 is a push source built with the scheduler extension; its start
    // hook arms wake-ups at start + timers=<us,us,..>. A producer pushes values (to that source, or - two=1 - to a second,
    // plain push source of the same graph) before the timers fall due. The run ends at its end time. Lines:
    //   R ps 0 <when_us> abs <wall_us>     one per armed wake-up
    //   T ps <evaltime_us> <wall_us> <steady_ts> abs   every evaluation of node 0 (lifecycle observer)
    //   D / P as for the push scenario
    // -------------------------------------------------------------------------------------------
    struct Node0Observer : LifecycleObserver
    {
        Trace   *tr{nullptr};
        DateTime start{};
        void on_before_node_evaluation(const NodeView &node) override
        {
            if (node.node_index() != 0) return;
            const DateTime et   = node.graph().evaluation_time();
            const DateTime wall = hgraph::testing::wall_now();
            tr->line("T ps " + std::to_string(us_since(et, start)) + " " + std::to_string(us_since(wall, start)) + " " +
                     std::to_string(tr->now()) + " abs");
        }
    };

    void run_pstimer(const std::map<std::string, std::string> &kv, Trace &tr)
    {
        const long long msgs   = geti(kv, "msgs", 5);
        const long long gap_us = geti(kv, "gap_us", 5000);
        const long long end_ms = geti(kv, "end_ms", 150);
        const bool two         = geti(kv, "two", 0) != 0;
        std::vector<long long> timers;
        for (const auto &t : split(gets(kv, "timers", "40000"), ',')) if (!t.empty()) timers.push_back(std::atoll(t.c_str()));
        const auto *ts_int    = ts_type<TS<Int>>();
        const auto *in_schema = hgraph::testing::single_input_schema(*ts_int);
        PushSourceSender sender0, sender1;
        std::atomic<int> started_n{0};
        DateTime start_time = hgraph::testing::wall_now();

        PushSourceNodeExtension extension;
        extension.uses_scheduler = true;
        extension.on_start = [&](PushSourceSender s, const NodeView &view, DateTime st) {
            sender0 = std::move(s);
            const NodeScheduler sched{view.scheduler_state(), view.graph_value(), view.node_index(), st,
                                      view.started(), view.evaluation_clock(), /*supports_wall_clock=*/true};
            int k = 0;
            for (long long t : timers)
            {
                sched.schedule(st + TimeDelta{t}, "w" + std::to_string(k++));
                tr.line("R ps 0 " + std::to_string(t) + " abs " + std::to_string(us_since(hgraph::testing::wall_now(), st)));
            }
            started_n.fetch_add(1);
        };
        GraphBuilder builder;
        builder.add_node(make_push_source_node_with_view(*ts_int, make_push_source_queue_policy(*ts_int, 0), std::move(extension)));
        if (two)
            builder.add_node(make_push_source_node(*ts_int, make_push_source_queue_policy(*ts_int, 0), [&](PushSourceSender s) {
                sender1 = std::move(s);
                started_n.fetch_add(1);
            }));
        const int nsrc = two ? 2 : 1;
        for (int src = 0; src < nsrc; ++src)
        {
            NodeTypeMetaData sk;
            sk.display_name = "verif_sink";
            sk.input_schema = in_schema;
            sk.node_kind    = NodeKind::Sink;
            NodeCallbacks cbs;
            cbs.evaluate = [&, src](const NodeView &view, DateTime evaluation_time) {
                auto root   = view.input(evaluation_time);
                auto bundle = root.as_bundle();
                auto input  = bundle[0];
                const DateTime wall = hgraph::testing::wall_now();
                tr.line("D " + std::to_string(us_since(evaluation_time, start_time)) + " " + std::to_string(us_since(wall, start_time)) + " " +
                        std::to_string(tr.now()) + " -1 1 " + std::to_string((long long)input.value().checked_as<Int>()) + " s" + std::to_string(src));
            };
            builder.add_node(NodeBuilder::native(std::move(sk), std::move(cbs), hgraph::testing::single_input_endpoint(*in_schema, *ts_int)));
            builder.add_edge(GraphEdge{.source_node = make_graph_edge_source((std::size_t)src), .source_path = {},
                                       .target_node = (std::size_t)(nsrc + src), .target_path = {0}});
        }
        Node0Observer obs;
        obs.tr = &tr;
        start_time = hgraph::testing::wall_now();
        obs.start  = start_time;
        GraphExecutorBuilder eb;
        eb.graph_builder(std::move(builder)).mode(GraphExecutorMode::RealTime).start_time(start_time)
            .end_time(start_time + TimeDelta{end_ms * 1000}).add_lifecycle_observer(&obs);
        auto executor = eb.make_executor();
        auto view     = executor.view();
        std::atomic<bool> run_returned{false};
        std::thread producer([&] {
            while (started_n.load() < nsrc && !run_returned.load()) std::this_thread::yield();
            PushSourceSender s = two ? sender1 : sender0;
            for (long long i = 0; i < msgs && !run_returned.load(); ++i)
            {
                std::this_thread::sleep_for(std::chrono::microseconds(gap_us));
                const long long id = 1000000 + i;
                const long long c  = tr.now();
                const bool ok      = s.send_blocking(Int{id});
                tr.line("P " + std::to_string(tid()) + " block " + std::to_string(id) + " " + std::to_string(c) + " " + std::to_string(tr.now()) +
                        " " + (ok ? "1" : "0"));
            }
        });
        const long long rs = tr.now();
        std::string status = "ok";
        try { view.run(); }
        catch (const std::exception &e) { status = "error"; tr.line(std::string("X ") + e.what()); }
        const long long rr = tr.now();
        const DateTime wall_end = hgraph::testing::wall_now();
        run_returned.store(true);
        tr.line("RUN " + std::to_string(rs) + " " + std::to_string(rr) + " " + status + " " + std::to_string((long long)(start_time - DateTime{}).count()) +
                " " + std::to_string(us_since(wall_end, start_time)));
        producer.join();
    }

    // -------------------------------------------------------------------------------------------
    // conflating dictionary push source: every accepted delta (set a key, remove a key - also one that is not there -, empty
    // delta) must be reflected in the merged state the sink ends up with. Keys are disjoint per producer, so the expected
    // final state is the per-key last accepted operation. Lines: P as above (id = producer*1000000 + i, op in the CD line),
    //   CD <tid> <i> <op> <key> <value>     the delta sent as message i of this thread (op = set|rem|empty)
    //   DV <evaltime_us> <steady_ts> <n> k=v ...   full value seen by the sink at a tick
    // -------------------------------------------------------------------------------------------
    void run_cpush(const std::map<std::string, std::string> &kv, Trace &tr)
    {
        const int producers      = (int)geti(kv, "producers", 2);
        const long long msgs     = geti(kv, "msgs", 50);
        const std::string pacing = gets(kv, "pacing", "rand");
        const long long end_ms   = geti(kv, "end_ms", 3000);
        const auto *tsd       = ts_type<TSD<Int, TS<Int>>>();
        const auto *in_schema = hgraph::testing::single_input_schema(*tsd);
        PushSourceSender sender;
        std::atomic<bool> started{false};
        DateTime start_time = hgraph::testing::wall_now();
        NodeTypeMetaData sink_schema;
        sink_schema.display_name = "verif_dict_sink";
        sink_schema.input_schema = in_schema;
        sink_schema.node_kind    = NodeKind::Sink;
        NodeCallbacks cb;
        std::atomic<long long> ticks{0};
        cb.evaluate = [&](const NodeView &view, DateTime evaluation_time) {
            auto root   = view.input(evaluation_time);
            auto bundle = root.as_bundle();
            auto in0    = bundle[0];
            auto d      = in0.as_dict();
            std::string items;
            long long n = 0;
            for (auto [k, child] : d.items())
            {
                if (!child.valid()) continue;
                items += " " + k.to_string() + "=" + child.value().to_string();
                ++n;
            }
            ticks.fetch_add(1);
            tr.line("DV " + std::to_string(us_since(evaluation_time, start_time)) + " " + std::to_string(tr.now()) + " " + std::to_string(n) + items);
        };
        GraphBuilder builder;
        builder.add_node(make_push_source_node(*tsd, make_push_source_conflating_policy(*tsd), [&](PushSourceSender s) {
            sender = std::move(s);
            started.store(true, std::memory_order_release);
        }));
        builder.add_node(NodeBuilder::native(std::move(sink_schema), std::move(cb), hgraph::testing::single_input_endpoint(*in_schema, *tsd)));
        builder.add_edge(GraphEdge{.source_node = make_graph_edge_source(0), .source_path = {}, .target_node = 1, .target_path = {0}});
        start_time = hgraph::testing::wall_now();
        GraphExecutorBuilder eb;
        eb.graph_builder(std::move(builder)).mode(GraphExecutorMode::RealTime).start_time(start_time).end_time(start_time + TimeDelta{end_ms * 1000});
        auto executor = eb.make_executor();
        auto view     = executor.view();
        std::atomic<bool> run_returned{false};
        std::atomic<int> producers_done{0};
        std::vector<std::thread> threads;
        std::mt19937_64 seed_rng((unsigned long long)geti(kv, "seed", 1));
        for (int p = 0; p < producers; ++p)
        {
            const unsigned long long ps = seed_rng();
            threads.emplace_back([&, p, ps] {
                std::mt19937_64 rng(ps);
                while (!started.load(std::memory_order_acquire) && !run_returned.load()) std::this_thread::yield();
                PushSourceSender s = sender;
                const auto pp = split(pacing, ':');
                for (long long i = 0; i < msgs; ++i)
                {
                    const long long id  = (long long)(p + 1) * 1000000 + i;
                    const Int       key = Int{(long long)(p + 1) * 100 + (long long)(rng() % 4)};
                    const auto      r   = rng() % 10;
                    std::string op;
                    Value delta;
                    // effective updates interleaved with deltas that change nothing (lenient removal of a key nobody ever set,
                    // empty delta): accepted all the same, and never an excuse to lose the update accepted just before them
                    if (r < 5) { op = "set"; delta = dict_delta<Int, TS<Int>>({{key, Int{id}}}); }
                    else if (r < 8) { op = "remunseen"; delta = dict_delta<Int, TS<Int>>({}, {Int{999999}}); }
                    else { op = "empty"; delta = dict_delta<Int, TS<Int>>({}); }
                    tr.line("CD " + std::to_string(tid()) + " " + std::to_string(id) + " " + op + " " + std::to_string((long long)key) + " " + std::to_string(id));
                    const long long c = tr.now();
                    const bool ok = s.try_send(std::move(delta));
                    const long long rt = tr.now();
                    tr.line("P " + std::to_string(tid()) + " try " + std::to_string(id) + " " + std::to_string(c) + " " + std::to_string(rt) + " " + (ok ? "1" : "0"));
                    if (run_returned.load()) break;
                    if (pp[0] == "yield") std::this_thread::yield();
                    else if (pp[0] == "sleep") std::this_thread::sleep_for(std::chrono::microseconds(std::atoll(pp.at(1).c_str())));
                    else if (pp[0] == "rand")
                    {
                        const auto d = rng() % 4;
                        if (d == 1) std::this_thread::yield();
                        else if (d == 2) std::this_thread::sleep_for(std::chrono::microseconds(rng() % 300));
                    }
                }
                producers_done.fetch_add(1);
            });
        }
        std::thread controller([&] {
            while (producers_done.load() < producers && !run_returned.load()) std::this_thread::sleep_for(std::chrono::microseconds(100));
            // bounded progress: the run continues well beyond the last send before the stop is requested
            std::this_thread::sleep_for(std::chrono::milliseconds(150));
            const long long c = tr.now();
            view.request_stop();
            tr.line("STOP " + std::to_string(c) + " " + std::to_string(tr.now()));
        });
        const long long rs = tr.now();
        std::string status = "ok";
        try { view.run(); }
        catch (const std::exception &e) { status = "error"; tr.line(std::string("X ") + e.what()); }
        const long long rr = tr.now();
        run_returned.store(true);
        tr.line("RUN " + std::to_string(rs) + " " + std::to_string(rr) + " " + status + " " + std::to_string((long long)(start_time - DateTime{}).count()));
        controller.join();
        for (auto &t : threads) t.join();
    }

    // -------------------------------------------------------------------------------------------
    // timers scenario (static nodes; per-node plan looked up by label)
    // -------------------------------------------------------------------------------------------
    struct TimerPlan
    {
        std::string kind;      // rel abs wall due chain
        long long   us{0};
        long long   n{0};
    };
    std::vector<TimerPlan> g_timers;
    DateTime               g_start{};
    std::atomic<long long> g_timer_evals{0};
    // stop requests that arrive while the graph is still STARTING: from a node's own start hook (g_stop_in_start = node index) or
    // from another thread while one start hook is slow (g_slow_start = node index, g_slow_start_ms; g_in_start tells the controller)
    long long              g_stop_in_start{-1}, g_slow_start{-1}, g_slow_start_ms{0};
    std::atomic<bool>      g_in_start{false};

    struct TimerNode
    {
        static constexpr auto name = "verif_timer";
        static void start(NodeScheduler sched, State<Int> st, Scalar<"idx", Int> idx, EvaluationClockView clock, EngineControlView engine,
                          DateTime now)
        {
            const TimerPlan &p = g_timers.at((std::size_t)idx.value());
            st.set(Int{0});
            if (g_stop_in_start == (long long)idx.value())
            {
                const long long c = g_trace->now();
                engine.request_stop();
                g_trace->line("STOP " + std::to_string(c) + " " + std::to_string(g_trace->now()));
            }
            if (g_slow_start == (long long)idx.value())
            {
                g_in_start.store(true);
                std::this_thread::sleep_for(std::chrono::milliseconds(g_slow_start_ms));
            }
            DateTime when{};
            if (p.kind == "rel" || p.kind == "chain") { when = now + TimeDelta{p.us}; sched.schedule(TimeDelta{p.us}); }
            else if (p.kind == "abs") { when = g_start + TimeDelta{p.us}; sched.schedule(when); }
            else if (p.kind == "wall") { when = g_start + TimeDelta{p.us}; sched.schedule(when, std::nullopt, true); }
            else if (p.kind == "due") { when = g_start - TimeDelta{p.us}; sched.schedule(when, std::nullopt, true); }
            else if (p.kind == "wrel")
            {
                // a wall-clock alarm requested as a DELAY: it counts from the later of the cycle's time and the wall clock (read
                // here BEFORE the request, so the engine's own reading is not earlier): never earlier than that
                const DateTime wall0 = hgraph::testing::wall_now();
                when = (wall0 > now ? wall0 : now) + TimeDelta{p.us};
                sched.schedule(TimeDelta{p.us}, std::nullopt, true);
            }
            // the wall clock at the request decides whether a wall-clock alarm can still fall inside the run window
            g_trace->line("R t" + std::to_string((long long)idx.value()) + " " + std::to_string(us_since(now, g_start)) + " " +
                          std::to_string(us_since(when, g_start)) + " " + (p.kind == "wrel" ? std::string("wall") : p.kind) + " " +
                          std::to_string(us_since(hgraph::testing::wall_now(), g_start)));
        }
        static void eval(NodeScheduler sched, State<Int> st, Scalar<"idx", Int> idx, DateTime now, Out<TS<Int>> out)
        {
            const TimerPlan &p = g_timers.at((std::size_t)idx.value());
            const DateTime wall = hgraph::testing::wall_now();
            g_timer_evals.fetch_add(1);
            g_trace->line("T t" + std::to_string((long long)idx.value()) + " " + std::to_string(us_since(now, g_start)) + " " +
                          std::to_string(us_since(wall, g_start)) + " " + std::to_string(g_trace->now()) + " " + p.kind);
            const Int k = st.get() + 1;
            st.set(k);
            out.set(k);
            if (p.kind == "chain" && k < p.n)
            {
                sched.schedule(TimeDelta{p.us});
                g_trace->line("R t" + std::to_string((long long)idx.value()) + " " + std::to_string(us_since(now, g_start)) + " " +
                              std::to_string(us_since(now + TimeDelta{p.us}, g_start)) + " chain");
            }
        }
    };

}  // namespace

// timers are wired through the Wiring API (scalars need the static wiring path)
#include <hgraph/types/graph_wiring.h>
namespace
{
    struct TimerGraph
    {
        static constexpr auto name = "verif_timer_graph";
        static void compose(Wiring &w)
        {
            for (std::size_t i = 0; i < g_timers.size(); ++i) { (void)wire<TimerNode>(w, Int{(long long)i}); }
        }
    };

    void run_timers2(const std::map<std::string, std::string> &kv, Trace &tr)
    {
        g_timers.clear();
        for (const auto &spec : split(gets(kv, "timers", "rel:1000"), ';'))
        {
            auto p = split(spec, ':');
            TimerPlan tp;
            tp.kind = p.at(0);
            tp.us   = p.size() > 1 ? std::atoll(p[1].c_str()) : 0;
            tp.n    = p.size() > 2 ? std::atoll(p[2].c_str()) : 0;
            g_timers.push_back(tp);
        }
        const std::string stop = gets(kv, "stop", "none");
        const long long end_ms = geti(kv, "end_ms", 200);
        const long long past   = geti(kv, "start_past_ms", 0);
        const long long slice  = geti(kv, "slice_us", 0);
        g_timer_evals.store(0);
        g_stop_in_start = g_slow_start = -1;
        g_in_start.store(false);
        {
            const auto sp0 = split(stop, ':');
            if (sp0[0] == "instart") g_stop_in_start = std::atoll(sp0.at(1).c_str());
            if (sp0[0] == "slowstart") { g_slow_start = std::atoll(sp0.at(1).c_str()); g_slow_start_ms = std::atoll(sp0.at(2).c_str()); }
        }
        GraphBuilder gb = build_graph<TimerGraph>(WiringOptions{.is_realtime = true});
        g_start = hgraph::testing::wall_now() - TimeDelta{past * 1000};
        GraphExecutorBuilder eb;
        eb.graph_builder(std::move(gb)).mode(GraphExecutorMode::RealTime).start_time(g_start).end_time(g_start + TimeDelta{end_ms * 1000});
        if (slice > 0) eb.max_wait_slice(TimeDelta{slice});
        auto executor = eb.make_executor();
        auto view     = executor.view();
        std::atomic<bool> returned{false};
        std::thread controller([&] {
            const auto sp = split(stop, ':');
            if (sp[0] == "afterms")
            {
                std::this_thread::sleep_for(std::chrono::microseconds(std::atoll(sp.at(1).c_str()) * 1000 + (sp.size() > 2 ? std::atoll(sp[2].c_str()) : 0)));
                const long long c = tr.now();
                view.request_stop();
                tr.line("STOP " + std::to_string(c) + " " + std::to_string(tr.now()));
            }
            else if (sp[0] == "slowstart")
            {
                // the request lands while a start hook of the graph is still running
                while (!g_in_start.load() && !returned.load()) std::this_thread::sleep_for(std::chrono::microseconds(200));
                std::this_thread::sleep_for(std::chrono::milliseconds(1));
                const long long c = tr.now();
                view.request_stop();
                tr.line("STOP " + std::to_string(c) + " " + std::to_string(tr.now()));
            }
        });
        const long long rs = tr.now();
        std::string status = "ok";
        try { view.run(); }
        catch (const std::exception &e) { status = "error"; tr.line(std::string("X ") + e.what()); }
        const long long rr = tr.now();
        const DateTime wall_end = hgraph::testing::wall_now();
        returned.store(true);
        tr.line("RUN " + std::to_string(rs) + " " + std::to_string(rr) + " " + status + " " + std::to_string((long long)(g_start - DateTime{}).count()) +
                " " + std::to_string(us_since(wall_end, g_start)));
        controller.join();
    }
}  // namespace

int main(int argc, char **argv)
{
    if (argc < 3) { std::fprintf(stderr, "usage: hgrt <scenarios> <trace>\n"); return 64; }
    std::ifstream in(argv[1]);
    FILE *out = std::fopen(argv[2], "w");
    if (!in || !out) return 64;
    (void)TypeRegistry::instance().register_scalar<Int>("int");
#ifdef HGRAPH_VERIF_HOOKS
    hgraph::verif::g_point.store(&hook_point, std::memory_order_release);
#endif
    std::string line;
    while (std::getline(in, line))
    {
        if (line.empty() || line[0] == '#') continue;
        auto kv = parse_kv(line);
        Trace tr;
        tr.out = out;
        tr.t0 = sclock::now();
        DelayPlan plan;
        for (const auto &d : split(gets(kv, "delays", ""), ','))
        {
            auto p = split(d, ':');
            if (p.size() >= 2) plan.delays[p[0]] = {std::atoll(p[1].c_str()), p.size() > 2 ? std::atoll(p[2].c_str()) : 1};
        }
        for (auto &[k, v] : plan.delays) plan.counts[k].store(0);
        g_next_tid.store(0);
        tl_tid = -1;
        g_plan  = &plan;
        g_trace = &tr;
        const std::string name = gets(kv, "name", "?");
        tr.line("SC " + name);
        try
        {
            if (gets(kv, "kind", "push") == "push") run_push(kv, tr);
            else if (gets(kv, "kind", "push") == "cpush") run_cpush(kv, tr);
            else if (gets(kv, "kind", "push") == "pstimer") run_pstimer(kv, tr);
            else run_timers2(kv, tr);
        }
        catch (const std::exception &e) { tr.line(std::string("X scenario-failed ") + e.what()); }
        g_trace = nullptr;
        g_plan  = nullptr;
        tr.line("ENDSC " + name);
    }
    std::fclose(out);
    return 0;
}
