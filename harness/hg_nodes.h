// Instrumented node vocabulary over TS<Int>. Every node logs, from inside user code, its
// start/stop, every evaluation with a snapshot of every input, the value written, every
// scheduler call it makes and every throw it performs for a fault plan.
#pragma once
#include "hg_common.h"

namespace hv
{
    using namespace hgraph;

    // all arithmetic is reduced into [0, WRAP) so that long feedback loops never overflow
    inline constexpr Int WRAP = 1000003;
    inline Int wrap(Int x) { return ((x % WRAP) + WRAP) % WRAP; }

    inline void user_start(Int uid, const NodeView &nv, DateTime now)
    {
        Line("u.start").i(uid).i(gid_of(nv.graph())).i((long long)nv.node_index()).t(now);
        maybe_fault(uid, "start");
    }
    inline void user_stop(Int uid, const NodeView &nv, DateTime now)
    {
        Line("u.stop").i(uid).i(gid_of(nv.graph())).i((long long)nv.node_index()).t(now);
        maybe_fault(uid, "stop");
    }

    template <typename InT>
    inline void log_in(Line &l, const InT &in)
    {
        const bool v = in.valid();
        l.i(v ? 1 : 0).i(in.modified() ? 1 : 0).t(in.last_modified_time());
        if (v) l.i((long long)in.value()); else l.s("-");
    }

    // u.eval uid gid idx t out|- nin {valid modified lmt value}*
    template <typename... Ins>
    inline void log_eval(Int uid, const NodeView &nv, DateTime now, std::optional<Int> out, const Ins &...ins)
    {
        Line l("u.eval");
        l.i(uid).i(gid_of(nv.graph())).i((long long)nv.node_index()).t(now);
        if (out) l.i(*out); else l.s("-");
        l.i((long long)sizeof...(Ins));
        (log_in(l, ins), ...);
    }

#define HV_LIFECYCLE                                                                                             \
    static void start(Scalar<"uid", Int> uid, NodeView nv, DateTime now) { user_start(uid.value(), nv, now); }   \
    static void stop(Scalar<"uid", Int> uid, NodeView nv, DateTime now) { user_stop(uid.value(), nv, now); }

    // ---- sources -----------------------------------------------------------------------
    // Scripted source. script: ctx().scripts[uid] = sorted (t, v), distinct t.
    // mode 0: schedule the next entry from eval; mode 1: schedule every entry at start.
    // rel 1: script times are relative to this instance's start time.
    struct VSrc
    {
        static constexpr auto name = "v_src";
        static DateTime at(long long t, long long base, Int rel) { return rel ? tabs(base + t) : tabs(t); }
        static void start(NodeScheduler sched, State<Int> st, Scalar<"uid", Int> uid, Scalar<"mode", Int> mode,
                          Scalar<"rel", Int> rel, NodeView nv, DateTime now)
        {
            user_start(uid.value(), nv, now);
            auto &sc   = ctx().scripts[uid.value()];
            long long base = toff(now);
            std::size_t pos = 0;
            while (pos < sc.size() && at(sc[pos].first, base, rel.value()) < now) ++pos;
            // state packs (base << 20) | pos ; base < 2^40, pos < 2^20
            st.set(Int{(base << 20) | (long long)pos});
            if (mode.value() == 1)
            {
                for (std::size_t k = pos; k < sc.size(); ++k)
                {
                    DateTime w = at(sc[k].first, base, rel.value());
                    Line("u.req").i(uid.value()).i(gid_of(nv.graph())).i((long long)nv.node_index()).t(now).t(w).s("start");
                    sched.schedule(w);
                }
            }
            else if (pos < sc.size())
            {
                DateTime w = at(sc[pos].first, base, rel.value());
                Line("u.req").i(uid.value()).i(gid_of(nv.graph())).i((long long)nv.node_index()).t(now).t(w).s("start");
                sched.schedule(w);
            }
        }
        static void stop(Scalar<"uid", Int> uid, NodeView nv, DateTime now) { user_stop(uid.value(), nv, now); }
        static void eval(NodeScheduler sched, State<Int> st, Scalar<"uid", Int> uid, Scalar<"mode", Int> mode,
                         Scalar<"rel", Int> rel, NodeView nv, DateTime now, Out<TS<Int>> out)
        {
            maybe_fault(uid.value(), "eval");
            busy();
            auto &sc   = ctx().scripts[uid.value()];
            long long packed = st.get();
            long long base = packed >> 20;
            std::size_t pos = (std::size_t)(packed & ((1 << 20) - 1));
            std::optional<Int> written;
            if (pos < sc.size() && at(sc[pos].first, base, rel.value()) == now)
            {
                written = sc[pos].second;
                out.set(Int{sc[pos].second});
                ++pos;
                st.set(Int{(base << 20) | (long long)pos});
                if (mode.value() == 0 && pos < sc.size())
                {
                    DateTime w = at(sc[pos].first, base, rel.value());
                    Line("u.req").i(uid.value()).i(gid_of(nv.graph())).i((long long)nv.node_index()).t(now).t(w).s("eval");
                    sched.schedule(w);
                }
            }
            log_eval(uid.value(), nv, now, written);
        }
    };

    // Self-scheduling counter: emits 0,1,2.. every `period` steps, `count` times, first at start.
    // side-effecting node with NO time-series input and NO output (a heartbeat): scheduler-driven, logs every beat
    struct VBeacon
    {
        static constexpr auto name = "v_beacon";
        static void start(NodeScheduler sched, State<Int> n, Scalar<"uid", Int> uid, Scalar<"period", Int> period,
                          Scalar<"count", Int> count, NodeView nv, DateTime now)
        {
            user_start(uid.value(), nv, now);
            n.set(Int{0});
            if (count.value() > 0) sched.schedule(now);
        }
        static void stop(Scalar<"uid", Int> uid, NodeView nv, DateTime now) { user_stop(uid.value(), nv, now); }
        static void eval(NodeScheduler sched, State<Int> n, Scalar<"uid", Int> uid, Scalar<"period", Int> period,
                         Scalar<"count", Int> count, NodeView nv, DateTime now)
        {
            Int v = n.get();
            n.set(v + 1);
            if (v + 1 < count.value()) sched.schedule(MIN_TD * period.value());
            log_eval(uid.value(), nv, now, v);
        }
    };
    struct VTicker
    {
        static constexpr auto name = "v_ticker";
        static void start(NodeScheduler sched, State<Int> n, Scalar<"uid", Int> uid, Scalar<"period", Int> period,
                          Scalar<"count", Int> count, NodeView nv, DateTime now)
        {
            user_start(uid.value(), nv, now);
            n.set(Int{0});
            if (count.value() > 0)
            {
                Line("u.req").i(uid.value()).i(gid_of(nv.graph())).i((long long)nv.node_index()).t(now).t(now).s("start");
                sched.schedule(now);
            }
        }
        static void stop(Scalar<"uid", Int> uid, NodeView nv, DateTime now) { user_stop(uid.value(), nv, now); }
        static void eval(NodeScheduler sched, State<Int> n, Scalar<"uid", Int> uid, Scalar<"period", Int> period,
                         Scalar<"count", Int> count, NodeView nv, DateTime now, Out<TS<Int>> out)
        {
            maybe_fault(uid.value(), "eval");
            busy();
            Int v = n.get();
            out.set(v);
            n.set(v + 1);
            if (v + 1 < count.value())
            {
                DateTime w = now + MIN_TD * period.value();
                Line("u.req").i(uid.value()).i(gid_of(nv.graph())).i((long long)nv.node_index()).t(now).t(w).s("eval");
                sched.schedule(MIN_TD * period.value());
            }
            log_eval(uid.value(), nv, now, v);
        }
    };

    // ---- compute -----------------------------------------------------------------------
    struct VPass
    {
        static constexpr auto name = "v_pass";
        HV_LIFECYCLE
        static void eval(In<"a", TS<Int>> a, Scalar<"uid", Int> uid, NodeView nv, DateTime now, Out<TS<Int>> out)
        {
            maybe_fault(uid.value(), "eval");
            busy();
            Int v = a.value();
            out.set(v);
            log_eval(uid.value(), nv, now, v, a);
        }
    };

    // integer division / remainder by 100 (two keys packed into one link value)
    struct VHi100
    {
        static constexpr auto name = "v_hi100";
        static void eval(In<"a", TS<Int>> a, Out<TS<Int>> out) { out.set(a.value() / 100); }
    };
    struct VLo100
    {
        static constexpr auto name = "v_lo100";
        static void eval(In<"a", TS<Int>> a, Out<TS<Int>> out) { out.set(a.value() % 100); }
    };
    struct VThrower   // distinct definition from VPass; identical behaviour (fault plan decides)
    {
        static constexpr auto name = "v_thrower";
        HV_LIFECYCLE
        static void eval(In<"a", TS<Int>> a, Scalar<"uid", Int> uid, NodeView nv, DateTime now, Out<TS<Int>> out)
        {
            maybe_fault(uid.value(), "eval");
            Int v = wrap(a.value() + 1);
            out.set(v);
            log_eval(uid.value(), nv, now, v, a);
        }
    };

    struct VAdd2
    {
        static constexpr auto name = "v_add2";
        HV_LIFECYCLE
        static void eval(In<"a", TS<Int>> a, In<"b", TS<Int>> b, Scalar<"uid", Int> uid, NodeView nv, DateTime now,
                         Out<TS<Int>> out)
        {
            maybe_fault(uid.value(), "eval");
            busy();
            Int v = wrap(3 * a.value() + 5 * b.value() + 1);
            out.set(v);
            log_eval(uid.value(), nv, now, v, a, b);
        }
    };

    struct VAdd3
    {
        static constexpr auto name = "v_add3";
        HV_LIFECYCLE
        static void eval(In<"a", TS<Int>> a, In<"b", TS<Int>> b, In<"c", TS<Int>> c, Scalar<"uid", Int> uid, NodeView nv,
                         DateTime now, Out<TS<Int>> out)
        {
            maybe_fault(uid.value(), "eval");
            Int v = wrap(3 * a.value() + 5 * b.value() + 7 * c.value() + 2);
            out.set(v);
            log_eval(uid.value(), nv, now, v, a, b, c);
        }
    };

    // plain sum (associative/commutative) – the reduce combiner
    struct VSum2
    {
        static constexpr auto name = "v_sum2";
        static void eval(In<"lhs", TS<Int>> a, In<"rhs", TS<Int>> b, Out<TS<Int>> out) { out.set(a.value() + b.value()); }
    };
    // order-sensitive combiner (ordered reductions): lhs * 3 + rhs, wrapped
    struct VOrd2
    {
        static constexpr auto name = "v_ord2";
        static void eval(In<"lhs", TS<Int>> a, In<"rhs", TS<Int>> b, Out<TS<Int>> out) { out.set((a.value() * 3 + b.value()) % 1000003); }
    };
    struct VMax2
    {
        static constexpr auto name = "v_max2";
        static void eval(In<"lhs", TS<Int>> a, In<"rhs", TS<Int>> b, Out<TS<Int>> out) { out.set(std::max(a.value(), b.value())); }
    };
    struct VXor2
    {
        static constexpr auto name = "v_xor2";
        static void eval(In<"lhs", TS<Int>> a, In<"rhs", TS<Int>> b, Out<TS<Int>> out) { out.set(a.value() ^ b.value()); }
    };
    // marker combiner: a+b+1000 (not associative; used only with <= 2 live elements to pin the zero rules)
    struct VMark2
    {
        static constexpr auto name = "v_mark2";
        static void eval(In<"lhs", TS<Int>> a, In<"rhs", TS<Int>> b, Out<TS<Int>> out) { out.set(a.value() + b.value() + 1000); }
    };

    struct VAcc
    {
        static constexpr auto name = "v_acc";
        static void start(State<Int> s, Scalar<"uid", Int> uid, NodeView nv, DateTime now)
        {
            user_start(uid.value(), nv, now);
            s.set(Int{0});
        }
        static void stop(Scalar<"uid", Int> uid, NodeView nv, DateTime now) { user_stop(uid.value(), nv, now); }
        static void eval(In<"a", TS<Int>> a, State<Int> s, Scalar<"uid", Int> uid, NodeView nv, DateTime now, Out<TS<Int>> out)
        {
            maybe_fault(uid.value(), "eval");
            Int v = wrap(s.get() + a.value());
            s.set(v);
            out.set(v);
            log_eval(uid.value(), nv, now, v, a);
        }
    };

    struct VCount
    {
        static constexpr auto name = "v_count";
        static void start(State<Int> s, Scalar<"uid", Int> uid, NodeView nv, DateTime now)
        {
            user_start(uid.value(), nv, now);
            s.set(Int{0});
        }
        static void stop(Scalar<"uid", Int> uid, NodeView nv, DateTime now) { user_stop(uid.value(), nv, now); }
        static void eval(In<"a", TS<Int>> a, State<Int> s, Scalar<"uid", Int> uid, NodeView nv, DateTime now, Out<TS<Int>> out)
        {
            maybe_fault(uid.value(), "eval");
            Int v = s.get() + 1;
            s.set(v);
            out.set(v);
            log_eval(uid.value(), nv, now, v, a);
        }
    };

    // active trigger + passive value (declared passive in the signature)
    struct VSample
    {
        static constexpr auto name = "v_sample";
        HV_LIFECYCLE
        static void eval(In<"trig", TS<Int>> trig, In<"val", TS<Int>, InputActivity::Passive> val, Scalar<"uid", Int> uid,
                         NodeView nv, DateTime now, Out<TS<Int>> out)
        {
            maybe_fault(uid.value(), "eval");
            Int v = wrap(val.value() * 2 + trig.value());
            out.set(v);
            log_eval(uid.value(), nv, now, v, trig, val);
        }
    };

    // active trigger, signature-passive level, plain third input (used with a wiring-time passive() marker)
    struct VSample3
    {
        static constexpr auto name = "v_sample3";
        HV_LIFECYCLE
        static void eval(In<"trig", TS<Int>> trig, In<"lvl", TS<Int>, InputActivity::Passive> lvl, In<"x", TS<Int>> x,
                         Scalar<"uid", Int> uid, NodeView nv, DateTime now, Out<TS<Int>> out)
        {
            maybe_fault(uid.value(), "eval");
            Int v = wrap(trig.value() + 2 * lvl.value() + 3 * x.value());
            out.set(v);
            log_eval(uid.value(), nv, now, v, trig, lvl, x);
        }
    };

    // both inputs unchecked: runs whenever either ticks
    struct VGate
    {
        static constexpr auto name = "v_gate";
        HV_LIFECYCLE
        static void eval(In<"a", TS<Int>, InputValidity::Unchecked> a, In<"b", TS<Int>, InputValidity::Unchecked> b,
                         Scalar<"uid", Int> uid, NodeView nv, DateTime now, Out<TS<Int>> out)
        {
            maybe_fault(uid.value(), "eval");
            Int v = wrap((a.valid() ? a.value() : Int{-1}) * 3 + (b.valid() ? b.value() : Int{-1}) * 5);
            out.set(v);
            log_eval(uid.value(), nv, now, v, a, b);
        }
    };

    // a required; b unchecked (mixed selector)
    struct VHalfGate
    {
        static constexpr auto name = "v_halfgate";
        HV_LIFECYCLE
        static void eval(In<"a", TS<Int>> a, In<"b", TS<Int>, InputValidity::Unchecked> b, Scalar<"uid", Int> uid, NodeView nv,
                         DateTime now, Out<TS<Int>> out)
        {
            maybe_fault(uid.value(), "eval");
            Int v = wrap(a.value() * 3 + (b.valid() ? b.value() : Int{-1}) * 5);
            out.set(v);
            log_eval(uid.value(), nv, now, v, a, b);
        }
    };

    // TSL<TS<Int>,2> with AllValid: runs only when both children valid
    struct VAllValid2
    {
        static constexpr auto name = "v_allvalid2";
        HV_LIFECYCLE
        static void eval(In<"xs", TSL<TS<Int>, 2>, InputValidity::AllValid> xs, Scalar<"uid", Int> uid, NodeView nv, DateTime now,
                         Out<TS<Int>> out)
        {
            maybe_fault(uid.value(), "eval");
            auto a = xs[0];
            auto b = xs[1];
            Int  v = wrap(3 * a.value() + 5 * b.value() + 1);
            out.set(v);
            log_eval(uid.value(), nv, now, v, a, b);
        }
    };
    // trigger + PASSIVE structural bundle {a, b}: all-valid gate / default gate. Wired fully ({{"a",x},{"b",y}}) or partially
    // ({{"a",x}}: field b is a null source and never holds a value)
    using VPairT = TSB<"VPairT", Field<"a", TS<Int>>, Field<"b", TS<Int>>>;
    struct VPairAll
    {
        static constexpr auto name = "v_pairall";
        HV_LIFECYCLE
        static void eval(In<"trig", TS<Int>> trig, In<"pair", VPairT, InputActivity::Passive, InputValidity::AllValid> pair,
                         Scalar<"uid", Int> uid, NodeView nv, DateTime now, Out<TS<Int>> out)
        {
            maybe_fault(uid.value(), "eval");
            static_cast<void>(pair);
            Int v = trig.value();
            out.set(v);
            log_eval(uid.value(), nv, now, v, trig);
        }
    };
    struct VPairAny
    {
        static constexpr auto name = "v_pairany";
        HV_LIFECYCLE
        static void eval(In<"trig", TS<Int>> trig, In<"pair", VPairT, InputActivity::Passive> pair,
                         Scalar<"uid", Int> uid, NodeView nv, DateTime now, Out<TS<Int>> out)
        {
            maybe_fault(uid.value(), "eval");
            static_cast<void>(pair);
            Int v = trig.value();
            out.set(v);
            log_eval(uid.value(), nv, now, v, trig);
        }
    };
    // TSL<TS<Int>,2> default validity (valid = any child valid)
    struct VList2
    {
        static constexpr auto name = "v_list2";
        HV_LIFECYCLE
        static void eval(In<"xs", TSL<TS<Int>, 2>> xs, Scalar<"uid", Int> uid, NodeView nv, DateTime now, Out<TS<Int>> out)
        {
            maybe_fault(uid.value(), "eval");
            auto a = xs[0];
            auto b = xs[1];
            Int  v = wrap((a.valid() ? a.value() : Int{-1}) * 3 + (b.valid() ? b.value() : Int{-1}) * 5);
            out.set(v);
            log_eval(uid.value(), nv, now, v, a, b);
        }
    };

    // delay: on input tick remember value and ask to be woken k steps later; emit on wake.
    struct VDelay
    {
        static constexpr auto name = "v_delay";
        static void start(State<Int> s, Scalar<"uid", Int> uid, NodeView nv, DateTime now)
        {
            user_start(uid.value(), nv, now);
            s.set(Int{0});
        }
        static void stop(Scalar<"uid", Int> uid, NodeView nv, DateTime now) { user_stop(uid.value(), nv, now); }
        static void eval(In<"a", TS<Int>> a, NodeScheduler sched, State<Int> s, Scalar<"uid", Int> uid, Scalar<"k", Int> k,
                         NodeView nv, DateTime now, Out<TS<Int>> out)
        {
            maybe_fault(uid.value(), "eval");
            std::optional<Int> written;
            const bool due = sched.is_scheduled_now();
            if (due)
            {
                written = s.get();
                out.set(s.get());
            }
            if (a.modified())
            {
                s.set(a.value());
                DateTime w = now + MIN_TD * k.value();
                Line("u.req").i(uid.value()).i(gid_of(nv.graph())).i((long long)nv.node_index()).t(now).t(w).s("eval");
                sched.schedule(MIN_TD * k.value());
            }
            Line("u.due").i(uid.value()).t(now).i(due ? 1 : 0);
            log_eval(uid.value(), nv, now, written, a);
        }
    };

    struct VToBool
    {
        static constexpr auto name = "v_tobool";
        HV_LIFECYCLE
        static void eval(In<"a", TS<Int>> a, Scalar<"uid", Int> uid, NodeView nv, DateTime now, Out<TS<Bool>> out)
        {
            out.set(a.value() != 0);
            log_eval(uid.value(), nv, now, a.value() != 0 ? Int{1} : Int{0}, a);
        }
    };

    struct VToCmp
    {
        static constexpr auto name = "v_tocmp";
        HV_LIFECYCLE
        static void eval(In<"a", TS<Int>> a, Scalar<"uid", Int> uid, NodeView nv, DateTime now, Out<TS<stdlib::CmpResult>> out)
        {
            const Int sign = ((a.value() % 3) + 3) % 3 - 1;      // residue 0 / 1 / 2 selects LT / EQ / GT (every generated value selects)
            out.set(sign < 0 ? stdlib::CmpResult::LT : sign > 0 ? stdlib::CmpResult::GT : stdlib::CmpResult::EQ);
            log_eval(uid.value(), nv, now, sign, a);
        }
    };

    // reads and overwrites a per-definition key of the run's GlobalState: a leak between runs changes what it reads
    struct VGs
    {
        static constexpr auto name = "v_gs";
        HV_LIFECYCLE
        static void eval(In<"a", TS<Int>> a, Scalar<"uid", Int> uid, GlobalStateView gs, NodeView nv, DateTime now, Out<TS<Int>> out)
        {
            maybe_fault(uid.value(), "eval");
            busy();
            const std::string key = "verif.k" + std::to_string(uid.value() % 3);     // a few shared keys
            const bool had  = gs.contains(key);
            const Int  prev = had ? gs.get(key).checked_as<Int>() : Int{-1};
            gs.set(key, Value{Int{wrap(a.value() + uid.value())}});
            Line("u.gs").i(uid.value()).t(now).i(had ? 1 : 0).i(prev).i((long long)gs.size());
            out.set(prev);
            log_eval(uid.value(), nv, now, prev, a);
        }
    };

    // ---- sinks -------------------------------------------------------------------------
    struct VRec
    {
        static constexpr auto name = "v_rec";
        HV_LIFECYCLE
        static void eval(In<"a", TS<Int>> a, Scalar<"uid", Int> uid, NodeView nv, DateTime now)
        {
            maybe_fault(uid.value(), "eval");
            log_eval(uid.value(), nv, now, std::nullopt, a);
        }
    };

    // a validation node whose ORDINARY output is a TS<NodeError> too: it publishes a "soft finding" (an error VALUE) for every third
    // input value and throws on a fault-plan failure - its error output (exception_time_series) has the same schema
    struct VValidate
    {
        static constexpr auto name = "v_validate";
        HV_LIFECYCLE
        static void eval(In<"a", TS<Int>> a, Scalar<"uid", Int> uid, NodeView nv, DateTime now, Out<TS<NodeError>> out)
        {
            maybe_fault(uid.value(), "eval");
            const bool soft = ((a.value() % 3) + 3) % 3 == 0;
            if (soft)
            {
                NodeErrorFields fields;
                fields.signature_name = "v_validate";
                fields.error_msg      = "soft_finding_" + std::to_string((long long)a.value());
                Value value           = make_node_error_value(fields);
                out.apply(value.view());
            }
            log_eval(uid.value(), nv, now, soft ? Int{1} : Int{0}, a);
        }
    };
    // value-producing consumer of an error-shaped stream (the SAME definition and scalars wired on an ordinary TS<NodeError> output
    // and on an error output must stay two nodes); out = length of the message, the message itself is logged
    struct VErrLen
    {
        static constexpr auto name = "v_errlen";
        HV_LIFECYCLE
        static void eval(In<"e", TS<NodeError>> e, Scalar<"uid", Int> uid, NodeView nv, DateTime now, Out<TS<Int>> out)
        {
            std::string msg = e.base().value().as_bundle().at("error_msg").checked_as<Str>();
            Line("u.err").i(uid.value()).i(gid_of(nv.graph())).i((long long)nv.node_index()).t(now).i(e.modified() ? 1 : 0).s(msg)
                .s(std::string("-"));
            out.set(Int{(long long)msg.size()});
        }
    };

    struct VRecErr
    {
        static constexpr auto name = "v_recerr";
        HV_LIFECYCLE
        static void eval(In<"e", TS<NodeError>> e, Scalar<"uid", Int> uid, NodeView nv, DateTime now)
        {
            std::string msg = e.base().value().as_bundle().at("error_msg").checked_as<Str>();
            // the complete error value too: its level of detail is part of the observable output
            Line("u.err").i(uid.value()).i(gid_of(nv.graph())).i((long long)nv.node_index()).t(now).i(e.modified() ? 1 : 0).s(msg)
                .s(e.base().value().to_string());
        }
    };

    // ---- scheduler script node (C18) -----------------------------------------------------
    inline void sched_queries(const char *phase, Int uid, const NodeScheduler &s, DateTime now, long long evalno)
    {
        Line("u.sq").i(uid).t(now).i(evalno).s(phase).t(s.next_scheduled_time()).i(s.is_scheduled() ? 1 : 0)
            .i(s.is_scheduled_now() ? 1 : 0).i(s.has_tag("a") ? 1 : 0).t(s.tag_time("a")).i(s.has_tag("b") ? 1 : 0)
            .t(s.tag_time("b"));
    }
    inline void run_sched_ops(Int uid, const NodeScheduler &s, DateTime now, long long evalno)
    {
        auto &c  = ctx();
        auto  it = c.sched.find(uid);
        sched_queries("pre", uid, s, now, evalno);
        if (it != c.sched.end())
        {
            auto jt = it->second.find(evalno);
            if (jt != it->second.end())
            {
                for (const SchedOp &op : jt->second)
                {
                    std::optional<std::string> tag = op.tag.empty() ? std::nullopt : std::optional<std::string>{op.tag};
                    long long result = 0;
                    if (op.op == "s") s.schedule(MIN_TD * op.arg, tag);
                    else if (op.op == "S") s.schedule(tabs(op.arg), tag);
                    else if (op.op == "u") { if (op.tag.empty()) s.un_schedule(); else s.un_schedule(op.tag); }
                    else if (op.op == "p") result = toff(s.pop_tag(op.tag));
                    else if (op.op == "r") s.reset();
                    Line("u.sop").i(uid).t(now).i(evalno).s(op.op).i(op.arg).s(op.tag).i(result);
                    sched_queries("mid", uid, s, now, evalno);
                }
            }
        }
    }
    struct VSched
    {
        static constexpr auto name = "v_sched";
        static void start(NodeScheduler sched, State<Int> n, Scalar<"uid", Int> uid, NodeView nv, DateTime now)
        {
            user_start(uid.value(), nv, now);
            n.set(Int{0});
            run_sched_ops(uid.value(), sched, now, 0);
        }
        static void stop(Scalar<"uid", Int> uid, NodeView nv, DateTime now) { user_stop(uid.value(), nv, now); }
        static void eval(In<"a", TS<Int>, InputValidity::Unchecked> a, NodeScheduler sched, State<Int> n, Scalar<"uid", Int> uid,
                         NodeView nv, DateTime now, Out<TS<Int>> out)
        {
            maybe_fault(uid.value(), "eval");
            Int k = n.get() + 1;
            n.set(k);
            run_sched_ops(uid.value(), sched, now, k);
            out.set(k);
            log_eval(uid.value(), nv, now, k, a);
        }
    };
}  // namespace hv
