// hgunit: direct drivers for header-level state machines of the tree.
//   hgunit sched <in> <out>     NodeScheduler over a bare NodeSchedulerState (graph == nullptr)
#include <hgraph/lib/testing/runtime_support.h>
#include <hgraph/runtime/node_scheduler.h>
#include <hgraph/runtime/runtime.h>
#include <hgraph/types/value/value.h>
#include <hgraph/types/operator_dispatch.h>
#include <hgraph/types/type_pattern.h>
#include <hgraph/types/metadata/type_registry.h>

#include <algorithm>
#include <cctype>
#include <cstdio>
#include <cstring>
#include <fstream>
#include <sstream>
#include <string>
#include <vector>

using namespace hgraph;

static long long toff(DateTime t)
{
    if (t == MIN_DT) return -1;
    return (long long)(t - MIN_ST).count();
}

static int run_sched(const char *in_path, const char *out_path)
{
    std::ifstream in(in_path);
    FILE *out = std::fopen(out_path, "w");
    if (!in || !out) return 64;
    std::string line;
    std::string buf;
    while (std::getline(in, line))
    {
        NodeSchedulerState state;
        long long now = 10;
        std::istringstream is(line);
        std::string tok;
        buf.clear();
        while (is >> tok)
        {
            std::string tag;
            auto at = tok.find('@');
            if (at != std::string::npos) { tag = tok.substr(at + 1); tok = tok.substr(0, at); }
            std::optional<std::string> otag = tag.empty() ? std::nullopt : std::optional<std::string>{tag};
            const char op = tok[0];
            const long long arg = tok.size() > 1 ? std::atoll(tok.c_str() + 1) : 0;
            long long res = 0;
            const DateTime tnow = MIN_ST + TimeDelta{now};
            NodeScheduler s{state, nullptr, 0, tnow, true};
            NodeScheduler ns{state, nullptr, 0, tnow, false};
            switch (op)
            {
                case 's': s.schedule(tnow + TimeDelta{arg}, otag); break;
                case 'd': s.schedule(TimeDelta{arg}, otag); break;          // delta overload
                case 'n': ns.schedule(tnow + TimeDelta{arg}, otag); break;  // during start (not yet started)
                case 'u': if (tag.empty()) s.un_schedule(); else s.un_schedule(tag); break;
                case 'p': res = toff(s.pop_tag(tag)); break;
                case 'r': s.reset(); break;
                case 'a':   // time advances one smallest step; the runtime consumes due events when the node fired on them
                {
                    now += 1;
                    NodeScheduler s2{state, nullptr, 0, MIN_ST + TimeDelta{now}, true};
                    if (s2.is_scheduled_now()) s2.advance();
                    break;
                }
                default: return 65;
            }
            NodeScheduler q{state, nullptr, 0, MIN_ST + TimeDelta{now}, true};
            char tmp[256];
            std::snprintf(tmp, sizeof tmp, "%lld,%d,%d,%d,%lld,%d,%lld,%d,%d,%lld;", toff(q.next_scheduled_time()), q.is_scheduled() ? 1 : 0,
                          q.is_scheduled_now() ? 1 : 0, q.has_tag("a") ? 1 : 0, toff(q.tag_time("a")), q.has_tag("b") ? 1 : 0,
                          toff(q.tag_time("b")), q.tag_is_scheduled_now("a") ? 1 : 0, q.tag_is_scheduled_now("b") ? 1 : 0, res);
            buf += tmp;
        }
        buf += "\n";
        std::fwrite(buf.data(), 1, buf.size(), out);
    }
    std::fclose(out);
    return 0;
}

// ---------------------------------------------------------------------------------------------
// dispatch: data-driven overload families on a reset OperatorRegistry (C19)
//   input line:  <cand>;<cand>;... | <arg schema>,<arg schema>
//   cand:        <label>=<in pattern>,<in pattern>-><out pattern>
//   patterns:    TS(int) TS($T) TS($T:int/float) #S TSL(<p>,3) TSL(<p>,%N) TSD(int,<p>) TSD($K,<p>) TSS($T) REF(<p>) SIGNAL
// ---------------------------------------------------------------------------------------------
struct PParser
{
    const std::string &s;
    std::size_t        i{0};
    explicit PParser(const std::string &text) : s(text) {}
    bool eat(const char *lit)
    {
        std::size_t n = std::strlen(lit);
        if (s.compare(i, n, lit) == 0) { i += n; return true; }
        return false;
    }
    std::string ident()
    {
        std::size_t b = i;
        while (i < s.size() && (std::isalnum((unsigned char)s[i]) || s[i] == '_')) ++i;
        return s.substr(b, i - b);
    }
    ScalarPattern scalar()
    {
        auto &reg = TypeRegistry::instance();
        if (eat("$"))
        {
            std::string name = ident();
            std::vector<const ValueTypeMetaData *> cons;
            if (eat(":"))
            {
                do { cons.push_back(reg.value_type(ident())); } while (eat("/"));
            }
            return ScalarPattern::var(name, cons);
        }
        return ScalarPattern::concrete(reg.value_type(ident()));
    }
    TypePattern ts()
    {
        if (eat("#")) return TypePattern::var(ident());
        if (eat("SIGNAL")) return TypePattern::signal();
        if (eat("TSL("))
        {
            TypePattern e = ts();
            eat(",");
            TypePattern r;
            if (eat("%")) r = TypePattern::tsl_var(e, ident());
            else r = TypePattern::tsl(e, (std::size_t)std::atoll(ident().c_str()));
            eat(")");
            return r;
        }
        if (eat("TSD("))
        {
            ScalarPattern k = scalar();
            eat(",");
            TypePattern v = ts();
            eat(")");
            return TypePattern::tsd(k, v);
        }
        if (eat("TSS(")) { ScalarPattern e = scalar(); eat(")"); return TypePattern::tss(e); }
        if (eat("REF(")) { TypePattern t = ts(); eat(")"); return TypePattern::ref(t); }
        if (eat("TS(")) { ScalarPattern v = scalar(); eat(")"); return TypePattern::ts(v); }
        throw std::runtime_error("bad pattern at " + s.substr(i));
    }
    const TSValueTypeMetaData *concrete()
    {
        auto &reg = TypeRegistry::instance();
        if (eat("SIGNAL")) return reg.signal();
        if (eat("TSL("))
        {
            const auto *e = concrete();
            eat(",");
            std::size_t n = (std::size_t)std::atoll(ident().c_str());
            eat(")");
            return reg.tsl(e, n);
        }
        if (eat("TSD("))
        {
            const auto *k = reg.value_type(ident());
            eat(",");
            const auto *v = concrete();
            eat(")");
            return reg.tsd(k, v);
        }
        if (eat("TSS(")) { const auto *e = reg.value_type(ident()); eat(")"); return reg.tss(e); }
        if (eat("TSB("))
        {
            // nominal bundles: Quote and Spread have IDENTICAL field lists, U is the un-named bundle with that field list,
            // Trade has different fields
            const std::string name = ident();
            eat(")");
            const auto *ti = reg.ts(reg.value_type("int"));
            std::vector<std::pair<std::string, const TSValueTypeMetaData *>> f{{"bid", ti}, {"ask", ti}};
            if (name == "Trade") f = {{"px", reg.ts(reg.value_type("float"))}};
            if (name == "U") return reg.un_named_tsb(f);
            return reg.tsb(name, f);
        }
        if (eat("REF(")) { const auto *t = concrete(); eat(")"); return reg.ref(t); }
        if (eat("TS(")) { const auto *v = reg.value_type(ident()); eat(")"); return reg.ts(v); }
        throw std::runtime_error("bad schema at " + s.substr(i));
    }
};

static std::vector<std::string> split_top(const std::string &s, char sep)
{
    std::vector<std::string> out;
    std::string cur;
    int depth = 0;
    for (char c : s)
    {
        if (c == '(') ++depth;
        if (c == ')') --depth;
        if (c == sep && depth == 0) { out.push_back(cur); cur.clear(); }
        else cur += c;
    }
    if (!cur.empty() || !out.empty()) out.push_back(cur);
    return out;
}

static std::string clean(std::string v)
{
    for (char &c : v) { if (c == ' ' || c == '\n' || c == '\t') c = '_'; }
    return v;
}

static int run_dispatch(const char *in_path, const char *out_path)
{
    std::ifstream in(in_path);
    FILE *out = std::fopen(out_path, "w");
    if (!in || !out) return 64;
    auto &reg = TypeRegistry::instance();
    (void)reg.register_scalar<Int>("int");
    (void)reg.register_scalar<Str>("str");
    (void)reg.register_scalar<Float>("float");
    (void)reg.register_scalar<Bool>("bool");
    std::string line;
    long n = 0;
    while (std::getline(in, line))
    {
        ++n;
        std::string buf = "R " + std::to_string(n) + " ";
        try
        {
            const auto bar = line.find('|');
            std::string cands = line.substr(0, bar), args_s = line.substr(bar + 1);
            // optional third section: size hints (the C++ side of op[SIZE: Size[n]](...)), e.g. "| 2,3"
            std::vector<std::size_t> hints;
            if (const auto bar2 = args_s.find('|'); bar2 != std::string::npos)
            {
                for (const auto &h : split_top(args_s.substr(bar2 + 1), ','))
                {
                    std::string t = h;
                    t.erase(std::remove(t.begin(), t.end(), ' '), t.end());
                    if (!t.empty()) hints.push_back((std::size_t)std::atoll(t.c_str()));
                }
                args_s = args_s.substr(0, bar2);
                while (!args_s.empty() && args_s.back() == ' ') args_s.pop_back();
            }
            while (!cands.empty() && cands.back() == ' ') cands.pop_back();
            while (!args_s.empty() && args_s.front() == ' ') args_s.erase(0, 1);
            OperatorRegistry::instance().reset();
            for (const auto &c : split_top(cands, ';'))
            {
                if (c.empty()) continue;
                const auto eq = c.find('=');
                const auto arrow = c.find("->");
                OperatorImpl impl;
                impl.name  = "vop";
                impl.label = c.substr(0, eq);
                for (const auto &p : split_top(c.substr(eq + 1, arrow - eq - 1), ','))
                {
                    PParser pp(p);
                    impl.params.push_back(ParamPattern{.kind = ParamPattern::Kind::Input, .name = "p" + std::to_string(impl.params.size()),
                                                       .ts = pp.ts()});
                }
                std::string outp = c.substr(arrow + 2);
                PParser po(outp);
                impl.has_output = true;
                impl.output     = po.ts();
                impl.rank       = operator_dispatch_detail::operator_rank(impl.params);
                impl.wire = [](Wiring &, const ResolutionMap &, std::span<const WiringArg>,
                               std::span<const std::pair<std::string, WiringPortRef>>) -> OperatorWireResult { return {}; };
                OperatorRegistry::instance().register_overload(std::move(impl));
            }
            std::vector<WiringArg> args;
            for (const auto &a : split_top(args_s, ','))
            {
                if (a.empty()) continue;
                PParser pa(a);
                WiringArg arg;
                arg.kind        = WiringArg::Kind::TimeSeries;
                arg.port.schema = pa.concrete();
                args.push_back(std::move(arg));
            }
            ResolvedOperatorCall r = OperatorRegistry::instance().resolve("vop", std::span<const WiringArg>{args}, true, nullptr,
                                                                          std::span<const std::size_t>{hints});
            const TSValueTypeMetaData *o = ts_pattern_resolve(r.impl->output, r.map);
            buf += "ok " + r.impl->label + " rank=" + std::to_string(r.impl->rank) + " out=" + clean(o ? std::string(o->name()) : "<null>") + " map=";
            std::vector<std::string> binds;
            for (const auto &[k, v] : r.map.ts_vars) binds.push_back("#" + k + "=" + clean(v ? std::string(v->name()) : "<null>"));
            for (const auto &[k, v] : r.map.scalar_vars) binds.push_back("$" + k + "=" + clean(v ? std::string(v->name()) : "<null>"));
            for (const auto &[k, v] : r.map.size_vars) binds.push_back("%" + k + "=" + std::to_string(v));
            std::sort(binds.begin(), binds.end());
            for (const auto &b : binds) buf += b + ";";
        }
        catch (const OperatorResolutionError &e) { buf += std::string("err resolution ") + clean(e.what()); }
        catch (const std::exception &e) { buf += std::string("err other ") + clean(e.what()); }
        buf += "\n";
        std::fwrite(buf.data(), 1, buf.size(), out);
    }
    std::fclose(out);
    return 0;
}

// ---------------------------------------------------------------------------------------------
// hier: overloads on concrete TS[<named scalar bundle>] parameters over a generated INHERITANCE hierarchy (several parents per
// bundle): "most specific" is the candidate whose base is the fewest parent edges away from the argument's bundle.
//   input line:  <name>:<parent>,<parent>;<name>:...   |  <candidate base>,<candidate base>,...  |  <argument bundle>
//                (bundles listed parents first; one candidate per listed base, registered in that order)
//   output line: R <n> ok <base> | err resolution <text> | err other <text>
// ---------------------------------------------------------------------------------------------
static int run_hier(const char *in_path, const char *out_path)
{
    std::ifstream in(in_path);
    FILE *out = std::fopen(out_path, "w");
    if (!in || !out) return 64;
    auto &reg = TypeRegistry::instance();
    (void)reg.register_scalar<Int>("int");
    const std::vector<std::pair<std::string, const ValueTypeMetaData *>> fields{{"id", reg.value_type("int")}};
    std::string line;
    long n = 0;
    while (std::getline(in, line))
    {
        ++n;
        std::string buf = "R " + std::to_string(n) + " ";
        try
        {
            auto secs = split_top(line, '|');
            if (secs.size() != 3) throw std::runtime_error("bad hier line");
            for (auto &x : secs) x.erase(std::remove(x.begin(), x.end(), ' '), x.end());
            const std::string ns = "v19h." + std::to_string(n);
            std::map<std::string, const ValueTypeMetaData *> types;
            for (const auto &d : split_top(secs[0], ';'))
            {
                if (d.empty()) continue;
                const auto colon = d.find(':');
                const std::string name = d.substr(0, colon);
                std::vector<const ValueTypeMetaData *> parents;
                for (const auto &pn : split_top(d.substr(colon + 1), ','))
                    if (!pn.empty()) parents.push_back(types.at(pn));
                types[name] = reg.bundle(ns.c_str(), name.c_str(), fields, parents);
            }
            OperatorRegistry::instance().reset();
            for (const auto &c : split_top(secs[1], ','))
            {
                if (c.empty()) continue;
                OperatorImpl impl;
                impl.name  = "vop";
                impl.label = c;
                impl.params.push_back(ParamPattern{.kind = ParamPattern::Kind::Input, .name = "value", .ts = TypePattern::concrete(reg.ts(types.at(c)))});
                impl.rank = operator_dispatch_detail::operator_rank(impl.params);
                impl.wire = [](Wiring &, const ResolutionMap &, std::span<const WiringArg>,
                               std::span<const std::pair<std::string, WiringPortRef>>) -> OperatorWireResult { return {}; };
                OperatorRegistry::instance().register_overload(std::move(impl));
            }
            WiringArg arg;
            arg.kind        = WiringArg::Kind::TimeSeries;
            arg.port.schema = reg.ts(types.at(secs[2]));
            std::array<WiringArg, 1> args{arg};
            ResolvedOperatorCall r = OperatorRegistry::instance().resolve("vop", std::span<const WiringArg>{args}, false);
            buf += "ok " + (r.impl != nullptr ? r.impl->label : std::string("<null>"));
        }
        catch (const OperatorResolutionError &e) { buf += std::string("err resolution ") + clean(e.what()); }
        catch (const std::exception &e) { buf += std::string("err other ") + clean(e.what()); }
        buf += "\n";
        std::fwrite(buf.data(), 1, buf.size(), out);
    }
    std::fclose(out);
    return 0;
}

// ---------------------------------------------------------------------------------------------
// native: a scheduler-using node on the GENERIC evaluate path (NodeBuilder::native - the path Python-authored nodes take: the
// runtime, not the node, applies the validity gate), fed by two scripted native sources.
//   input line:  a=<t:v,...> b=<t:v,...> active=a|ab ops=<S|n>:<tok>,<tok>;... end=<T>
//                tok = s<delta>[@tag]   (requests made in start (S) or in the n-th run of the body)
//   output line: E<t>,<n>,<next>,<is_scheduled>,<is_scheduled_now>,<has a>,<has b>; ...  X<message>  (one line per case)
// ---------------------------------------------------------------------------------------------
#include <map>
#include <memory>
static std::vector<std::string> split_by(const std::string &s, char c)
{
    std::vector<std::string> out;
    std::string cur;
    for (char ch : s)
    {
        if (ch == c) { out.push_back(cur); cur.clear(); }
        else cur += ch;
    }
    out.push_back(cur);
    return out;
}

static NodeBuilder scripted_source(const TSValueTypeMetaData *ts_int, const char *label, std::vector<std::pair<long long, long long>> script)
{
    NodeTypeMetaData schema;
    schema.display_name   = label;
    schema.output_schema  = ts_int;
    schema.node_kind      = NodeKind::PullSource;
    schema.uses_scheduler = true;
    auto sc  = std::make_shared<std::vector<std::pair<long long, long long>>>(std::move(script));
    auto pos = std::make_shared<std::size_t>(0);
    NodeCallbacks cb;
    cb.start = [sc, pos](const NodeView &view, DateTime start_time) {
        *pos = 0;
        if (!sc->empty())
        {
            const NodeScheduler sched{view.scheduler_state(), view.graph_value(), view.node_index(), start_time, view.started()};
            sched.schedule(MIN_ST + TimeDelta{(*sc)[0].first});
        }
    };
    cb.evaluate = [sc, pos](const NodeView &view, DateTime now) {
        if (*pos < sc->size() && MIN_ST + TimeDelta{(*sc)[*pos].first} == now)
        {
            testing::set_output_value(view, now, Int{(*sc)[*pos].second});
            ++*pos;
            if (*pos < sc->size())
            {
                const NodeScheduler sched{view.scheduler_state(), view.graph_value(), view.node_index(), now, view.started()};
                sched.schedule(MIN_ST + TimeDelta{(*sc)[*pos].first});
            }
        }
    };
    return NodeBuilder::native(std::move(schema), std::move(cb));
}

static int run_native(const char *in_path, const char *out_path)
{
    std::ifstream in(in_path);
    FILE *out = std::fopen(out_path, "w");
    if (!in || !out) return 64;
    auto       &registry     = TypeRegistry::instance();
    const auto *int_meta     = registry.register_scalar<Int>("int");
    const auto *ts_int       = registry.ts(int_meta);
    const auto *input_schema = registry.un_named_tsb({{"a", ts_int}, {"b", ts_int}});
    std::string line;
    while (std::getline(in, line))
    {
        std::map<std::string, std::string> kv;
        std::istringstream is(line);
        std::string tok;
        while (is >> tok)
        {
            auto eq = tok.find('=');
            if (eq != std::string::npos) kv[tok.substr(0, eq)] = tok.substr(eq + 1);
        }
        auto script_of = [&](const std::string &k) {
            std::vector<std::pair<long long, long long>> sc;
            for (const auto &e : split_by(kv[k], ','))
            {
                if (e.empty()) continue;
                auto c = e.find(':');
                sc.emplace_back(std::atoll(e.substr(0, c).c_str()), std::atoll(e.substr(c + 1).c_str()));
            }
            return sc;
        };
        std::map<std::string, std::vector<std::string>> ops;
        for (const auto &grp : split_by(kv["ops"], ';'))
        {
            if (grp.empty()) continue;
            auto c = grp.find(':');
            ops[grp.substr(0, c)] = split_by(grp.substr(c + 1), ',');
        }
        auto apply_ops = [&ops](const std::string &key, const NodeScheduler &sched) {
            auto it = ops.find(key);
            if (it == ops.end()) return;
            for (const auto &t : it->second)
            {
                if (t.empty() || t[0] != 's') continue;
                auto at = t.find('@');
                const long long d = std::atoll(t.substr(1, at == std::string::npos ? std::string::npos : at - 1).c_str());
                if (at == std::string::npos) sched.schedule(TimeDelta{d});
                else sched.schedule(TimeDelta{d}, t.substr(at + 1));
            }
        };
        std::string buf;
        auto runs = std::make_shared<long long>(0);
        NodeTypeMetaData schema;
        schema.display_name   = "timer";
        schema.input_schema   = input_schema;
        schema.node_kind      = NodeKind::Sink;
        schema.uses_scheduler = true;
        schema.active_inputs  = kv["active"] == "ab" ? std::vector<std::size_t>{0, 1} : std::vector<std::size_t>{0};
        NodeCallbacks cb;
        cb.start = [&, runs](const NodeView &view, DateTime start_time) {
            *runs = 0;
            const NodeScheduler sched{view.scheduler_state(), view.graph_value(), view.node_index(), start_time, view.started()};
            apply_ops("S", sched);
        };
        cb.evaluate = [&, runs](const NodeView &view, DateTime now) {
            const NodeScheduler sched{view.scheduler_state(), view.graph_value(), view.node_index(), now, view.started()};
            ++*runs;
            char tmp[200];
            std::snprintf(tmp, sizeof tmp, "E%lld,%lld,%lld,%d,%d,%d,%d;", toff(now), *runs, sched.is_scheduled() ? toff(sched.next_scheduled_time()) : -1,
                          sched.is_scheduled() ? 1 : 0, sched.is_scheduled_now() ? 1 : 0, sched.has_tag("a") ? 1 : 0, sched.has_tag("b") ? 1 : 0);
            buf += tmp;
            apply_ops(std::to_string(*runs), sched);
        };
        auto endpoint = TSEndpointSchema::non_peered(input_schema, {TSEndpointSchema::peered(ts_int), TSEndpointSchema::peered(ts_int)});
        GraphBuilder gb;
        gb.add_node(scripted_source(ts_int, "src_a", script_of("a")))
            .add_node(scripted_source(ts_int, "src_b", script_of("b")))
            .add_node(NodeBuilder::native(std::move(schema), std::move(cb), std::move(endpoint)))
            .add_edge(GraphEdge{.source_node = 0, .source_path = {}, .target_node = 2, .target_path = {0}})
            .add_edge(GraphEdge{.source_node = 1, .source_path = {}, .target_node = 2, .target_path = {1}});
        GraphExecutorBuilder eb;
        eb.graph_builder(std::move(gb)).start_time(MIN_ST).end_time(MIN_ST + TimeDelta{std::atoll(kv["end"].c_str())});
        try
        {
            GraphExecutorValue ex = eb.make_executor();
            ex.view().run();
        }
        catch (const std::exception &e)
        {
            std::string w = e.what();
            for (char &ch : w) { if (ch == '\n' || ch == ' ') ch = '_'; }
            buf += "X" + w.substr(0, 160) + ";";
        }
        buf += "\n";
        std::fwrite(buf.data(), 1, buf.size(), out);
    }
    std::fclose(out);
    return 0;
}

int main(int argc, char **argv)
{
    if (argc >= 4 && std::string(argv[1]) == "native") return run_native(argv[2], argv[3]);
    if (argc >= 4 && std::string(argv[1]) == "dispatch") return run_dispatch(argv[2], argv[3]);
    if (argc >= 4 && std::string(argv[1]) == "hier") return run_hier(argv[2], argv[3]);
    if (argc >= 4 && std::string(argv[1]) == "sched") return run_sched(argv[2], argv[3]);
    std::fprintf(stderr, "usage: hgunit sched <in> <out>\n");
    return 64;
}
