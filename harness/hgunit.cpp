// hgunit: direct drivers for header-level state machines of the tree.
//   hgunit sched <in> <out>     NodeScheduler over a bare NodeSchedulerState (graph == nullptr)
#include <hgraph/runtime/node_scheduler.h>

#include <cstdio>
#include <fstream>
#include <sstream>
#include <string>
#include <vector>

using namespace hgraph;

static long long toff(DateTime t)
{
    if (t == MIN_DT) return -1;
    return (long long)(t - MIN_ST).count();
}

static int run_sched(const char *in_path, const char *out_path)
{
    std::ifstream in(in_path);
    FILE *out = std::fopen(out_path, "w");
    if (!in || !out) return 64;
    std::string line;
    std::string buf;
    while (std::getline(in, line))
    {
        NodeSchedulerState state;
        long long now = 10;
        std::istringstream is(line);
        std::string tok;
        buf.clear();
        while (is >> tok)
        {
            std::string tag;
            auto at = tok.find('@');
            if (at != std::string::npos) { tag = tok.substr(at + 1); tok = tok.substr(0, at); }
            std::optional<std::string> otag = tag.empty() ? std::nullopt : std::optional<std::string>{tag};
            const char op = tok[0];
            const long long arg = tok.size() > 1 ? std::atoll(tok.c_str() + 1) : 0;
            long long res = 0;
            const DateTime tnow = MIN_ST + TimeDelta{now};
            NodeScheduler s{state, nullptr, 0, tnow, true};
            NodeScheduler ns{state, nullptr, 0, tnow, false};
            switch (op)
            {
                case 's': s.schedule(tnow + TimeDelta{arg}, otag); break;
                case 'd': s.schedule(TimeDelta{arg}, otag); break;          // delta overload
                case 'n': ns.schedule(tnow + TimeDelta{arg}, otag); break;  // during start (not yet started)
                case 'u': if (tag.empty()) s.un_schedule(); else s.un_schedule(tag); break;
                case 'p': res = toff(s.pop_tag(tag)); break;
                case 'r': s.reset(); break;
                case 'a':   // time advances one smallest step; the runtime consumes due events when the node fired on them
                {
                    now += 1;
                    NodeScheduler s2{state, nullptr, 0, MIN_ST + TimeDelta{now}, true};
                    if (s2.is_scheduled_now()) s2.advance();
                    break;
                }
                default: return 65;
            }
            NodeScheduler q{state, nullptr, 0, MIN_ST + TimeDelta{now}, true};
            char tmp[256];
            std::snprintf(tmp, sizeof tmp, "%lld,%d,%d,%d,%lld,%d,%lld,%d,%d,%lld;", toff(q.next_scheduled_time()), q.is_scheduled() ? 1 : 0,
                          q.is_scheduled_now() ? 1 : 0, q.has_tag("a") ? 1 : 0, toff(q.tag_time("a")), q.has_tag("b") ? 1 : 0,
                          toff(q.tag_time("b")), q.tag_is_scheduled_now("a") ? 1 : 0, q.tag_is_scheduled_now("b") ? 1 : 0, res);
            buf += tmp;
        }
        buf += "\n";
        std::fwrite(buf.data(), 1, buf.size(), out);
    }
    std::fclose(out);
    return 0;
}

int main(int argc, char **argv)
{
    if (argc >= 4 && std::string(argv[1]) == "sched") return run_sched(argv[2], argv[3]);
    std::fprintf(stderr, "usage: hgunit sched <in> <out>\n");
    return 64;
}
