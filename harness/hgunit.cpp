// hgunit: direct drivers for header-level state machines of the tree.
//   hgunit sched <in> <out>     NodeScheduler over a bare NodeSchedulerState (graph == nullptr)
#include <hgraph/runtime/node_scheduler.h>
#include <hgraph/types/operator_dispatch.h>
#include <hgraph/types/type_pattern.h>
#include <hgraph/types/metadata/type_registry.h>

#include <algorithm>
#include <cctype>
#include <cstdio>
#include <cstring>
#include <fstream>
#include <sstream>
#include <string>
#include <vector>

using namespace hgraph;

static long long toff(DateTime t)
{
    if (t == MIN_DT) return -1;
    return (long long)(t - MIN_ST).count();
}

static int run_sched(const char *in_path, const char *out_path)
{
    std::ifstream in(in_path);
    FILE *out = std::fopen(out_path, "w");
    if (!in || !out) return 64;
    std::string line;
    std::string buf;
    while (std::getline(in, line))
    {
        NodeSchedulerState state;
        long long now = 10;
        std::istringstream is(line);
        std::string tok;
        buf.clear();
        while (is >> tok)
        {
            std::string tag;
            auto at = tok.find('@');
            if (at != std::string::npos) { tag = tok.substr(at + 1); tok = tok.substr(0, at); }
            std::optional<std::string> otag = tag.empty() ? std::nullopt : std::optional<std::string>{tag};
            const char op = tok[0];
            const long long arg = tok.size() > 1 ? std::atoll(tok.c_str() + 1) : 0;
            long long res = 0;
            const DateTime tnow = MIN_ST + TimeDelta{now};
            NodeScheduler s{state, nullptr, 0, tnow, true};
            NodeScheduler ns{state, nullptr, 0, tnow, false};
            switch (op)
            {
                case 's': s.schedule(tnow + TimeDelta{arg}, otag); break;
                case 'd': s.schedule(TimeDelta{arg}, otag); break;          // delta overload
                case 'n': ns.schedule(tnow + TimeDelta{arg}, otag); break;  // during start (not yet started)
                case 'u': if (tag.empty()) s.un_schedule(); else s.un_schedule(tag); break;
                case 'p': res = toff(s.pop_tag(tag)); break;
                case 'r': s.reset(); break;
                case 'a':   // time advances one smallest step; the runtime consumes due events when the node fired on them
                {
                    now += 1;
                    NodeScheduler s2{state, nullptr, 0, MIN_ST + TimeDelta{now}, true};
                    if (s2.is_scheduled_now()) s2.advance();
                    break;
                }
                default: return 65;
            }
            NodeScheduler q{state, nullptr, 0, MIN_ST + TimeDelta{now}, true};
            char tmp[256];
            std::snprintf(tmp, sizeof tmp, "%lld,%d,%d,%d,%lld,%d,%lld,%d,%d,%lld;", toff(q.next_scheduled_time()), q.is_scheduled() ? 1 : 0,
                          q.is_scheduled_now() ? 1 : 0, q.has_tag("a") ? 1 : 0, toff(q.tag_time("a")), q.has_tag("b") ? 1 : 0,
                          toff(q.tag_time("b")), q.tag_is_scheduled_now("a") ? 1 : 0, q.tag_is_scheduled_now("b") ? 1 : 0, res);
            buf += tmp;
        }
        buf += "\n";
        std::fwrite(buf.data(), 1, buf.size(), out);
    }
    std::fclose(out);
    return 0;
}

// ---------------------------------------------------------------------------------------------
// dispatch: data-driven overload families on a reset OperatorRegistry (C19)
//   input line:  <cand>;<cand>;... | <arg schema>,<arg schema>
//   cand:        <label>=<in pattern>,<in pattern>-><out pattern>
//   patterns:    TS(int) TS($T) TS($T:int/float) #S TSL(<p>,3) TSL(<p>,%N) TSD(int,<p>) TSD($K,<p>) TSS($T) REF(<p>) SIGNAL
// ---------------------------------------------------------------------------------------------
struct PParser
{
    const std::string &s;
    std::size_t        i{0};
    explicit PParser(const std::string &text) : s(text) {}
    bool eat(const char *lit)
    {
        std::size_t n = std::strlen(lit);
        if (s.compare(i, n, lit) == 0) { i += n; return true; }
        return false;
    }
    std::string ident()
    {
        std::size_t b = i;
        while (i < s.size() && (std::isalnum((unsigned char)s[i]) || s[i] == '_')) ++i;
        return s.substr(b, i - b);
    }
    ScalarPattern scalar()
    {
        auto &reg = TypeRegistry::instance();
        if (eat("$"))
        {
            std::string name = ident();
            std::vector<const ValueTypeMetaData *> cons;
            if (eat(":"))
            {
                do { cons.push_back(reg.value_type(ident())); } while (eat("/"));
            }
            return ScalarPattern::var(name, cons);
        }
        return ScalarPattern::concrete(reg.value_type(ident()));
    }
    TypePattern ts()
    {
        if (eat("#")) return TypePattern::var(ident());
        if (eat("SIGNAL")) return TypePattern::signal();
        if (eat("TSL("))
        {
            TypePattern e = ts();
            eat(",");
            TypePattern r;
            if (eat("%")) r = TypePattern::tsl_var(e, ident());
            else r = TypePattern::tsl(e, (std::size_t)std::atoll(ident().c_str()));
            eat(")");
            return r;
        }
        if (eat("TSD("))
        {
            ScalarPattern k = scalar();
            eat(",");
            TypePattern v = ts();
            eat(")");
            return TypePattern::tsd(k, v);
        }
        if (eat("TSS(")) { ScalarPattern e = scalar(); eat(")"); return TypePattern::tss(e); }
        if (eat("REF(")) { TypePattern t = ts(); eat(")"); return TypePattern::ref(t); }
        if (eat("TS(")) { ScalarPattern v = scalar(); eat(")"); return TypePattern::ts(v); }
        throw std::runtime_error("bad pattern at " + s.substr(i));
    }
    const TSValueTypeMetaData *concrete()
    {
        auto &reg = TypeRegistry::instance();
        if (eat("SIGNAL")) return reg.signal();
        if (eat("TSL("))
        {
            const auto *e = concrete();
            eat(",");
            std::size_t n = (std::size_t)std::atoll(ident().c_str());
            eat(")");
            return reg.tsl(e, n);
        }
        if (eat("TSD("))
        {
            const auto *k = reg.value_type(ident());
            eat(",");
            const auto *v = concrete();
            eat(")");
            return reg.tsd(k, v);
        }
        if (eat("TSS(")) { const auto *e = reg.value_type(ident()); eat(")"); return reg.tss(e); }
        if (eat("REF(")) { const auto *t = concrete(); eat(")"); return reg.ref(t); }
        if (eat("TS(")) { const auto *v = reg.value_type(ident()); eat(")"); return reg.ts(v); }
        throw std::runtime_error("bad schema at " + s.substr(i));
    }
};

static std::vector<std::string> split_top(const std::string &s, char sep)
{
    std::vector<std::string> out;
    std::string cur;
    int depth = 0;
    for (char c : s)
    {
        if (c == '(') ++depth;
        if (c == ')') --depth;
        if (c == sep && depth == 0) { out.push_back(cur); cur.clear(); }
        else cur += c;
    }
    if (!cur.empty() || !out.empty()) out.push_back(cur);
    return out;
}

static std::string clean(std::string v)
{
    for (char &c : v) { if (c == ' ' || c == '\n' || c == '\t') c = '_'; }
    return v;
}

static int run_dispatch(const char *in_path, const char *out_path)
{
    std::ifstream in(in_path);
    FILE *out = std::fopen(out_path, "w");
    if (!in || !out) return 64;
    auto &reg = TypeRegistry::instance();
    (void)reg.register_scalar<Int>("int");
    (void)reg.register_scalar<Str>("str");
    (void)reg.register_scalar<Float>("float");
    (void)reg.register_scalar<Bool>("bool");
    std::string line;
    long n = 0;
    while (std::getline(in, line))
    {
        ++n;
        std::string buf = "R " + std::to_string(n) + " ";
        try
        {
            const auto bar = line.find('|');
            std::string cands = line.substr(0, bar), args_s = line.substr(bar + 1);
            while (!cands.empty() && cands.back() == ' ') cands.pop_back();
            while (!args_s.empty() && args_s.front() == ' ') args_s.erase(0, 1);
            OperatorRegistry::instance().reset();
            for (const auto &c : split_top(cands, ';'))
            {
                if (c.empty()) continue;
                const auto eq = c.find('=');
                const auto arrow = c.find("->");
                OperatorImpl impl;
                impl.name  = "vop";
                impl.label = c.substr(0, eq);
                for (const auto &p : split_top(c.substr(eq + 1, arrow - eq - 1), ','))
                {
                    PParser pp(p);
                    impl.params.push_back(ParamPattern{.kind = ParamPattern::Kind::Input, .name = "p" + std::to_string(impl.params.size()),
                                                       .ts = pp.ts()});
                }
                std::string outp = c.substr(arrow + 2);
                PParser po(outp);
                impl.has_output = true;
                impl.output     = po.ts();
                impl.rank       = operator_dispatch_detail::operator_rank(impl.params);
                impl.wire = [](Wiring &, const ResolutionMap &, std::span<const WiringArg>,
                               std::span<const std::pair<std::string, WiringPortRef>>) -> OperatorWireResult { return {}; };
                OperatorRegistry::instance().register_overload(std::move(impl));
            }
            std::vector<WiringArg> args;
            for (const auto &a : split_top(args_s, ','))
            {
                if (a.empty()) continue;
                PParser pa(a);
                WiringArg arg;
                arg.kind        = WiringArg::Kind::TimeSeries;
                arg.port.schema = pa.concrete();
                args.push_back(std::move(arg));
            }
            ResolvedOperatorCall r = OperatorRegistry::instance().resolve("vop", std::span<const WiringArg>{args}, true);
            const TSValueTypeMetaData *o = ts_pattern_resolve(r.impl->output, r.map);
            buf += "ok " + r.impl->label + " rank=" + std::to_string(r.impl->rank) + " out=" + clean(o ? std::string(o->name()) : "<null>") + " map=";
            std::vector<std::string> binds;
            for (const auto &[k, v] : r.map.ts_vars) binds.push_back("#" + k + "=" + clean(v ? std::string(v->name()) : "<null>"));
            for (const auto &[k, v] : r.map.scalar_vars) binds.push_back("$" + k + "=" + clean(v ? std::string(v->name()) : "<null>"));
            for (const auto &[k, v] : r.map.size_vars) binds.push_back("%" + k + "=" + std::to_string(v));
            std::sort(binds.begin(), binds.end());
            for (const auto &b : binds) buf += b + ";";
        }
        catch (const OperatorResolutionError &e) { buf += std::string("err resolution ") + clean(e.what()); }
        catch (const std::exception &e) { buf += std::string("err other ") + clean(e.what()); }
        buf += "\n";
        std::fwrite(buf.data(), 1, buf.size(), out);
    }
    std::fclose(out);
    return 0;
}

int main(int argc, char **argv)
{
    if (argc >= 4 && std::string(argv[1]) == "dispatch") return run_dispatch(argv[2], argv[3]);
    if (argc >= 4 && std::string(argv[1]) == "sched") return run_sched(argv[2], argv[3]);
    std::fprintf(stderr, "usage: hgunit sched <in> <out>\n");
    return 64;
}
