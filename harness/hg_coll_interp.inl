// Interpreter ops over collections and higher-order operators (included inside namespace hv).
template <typename F>
void with_shape(const std::string &shape, F &&f)
{
    if (shape == "ts") f.template operator()<S_TS>();
    else if (shape == "tss") f.template operator()<S_TSS>();
    else if (shape == "tsd") f.template operator()<S_TSD>();
    else if (shape == "tsl") f.template operator()<S_TSL>();
    else if (shape == "tsb") f.template operator()<S_TSB>();
    else if (shape == "tsw") f.template operator()<S_TSW>();
    else if (shape == "dss") f.template operator()<S_DSS>();
    else if (shape == "dsb") f.template operator()<S_DSB>();
    else if (shape == "lb") f.template operator()<S_LB>();
    else if (shape == "dd") f.template operator()<S_DD>();
    else throw std::runtime_error("unknown shape " + shape);
}

bool Interp::exec_coll(Interp &I, const Stmt &s)
{
    Wiring &w = I.w;
    const Int uid = s.kwi("uid");
    const auto &a = s.args;
    if (s.op == "csrc")
    {
        const std::string shape = s.kws("shape", "tsd");
        with_shape(shape, [&]<typename S>() {
            auto p = wire<CSrc<S>>(w, uid);
            I.env[s.dst] = PortVal{p.erased(), PT::Other, shape};
        });
        return true;
    }
    if (s.op == "cmirror")
    {
        PortVal v = I.get(a.at(0));
        with_shape(v.shape, [&]<typename S>() { wire<CMirror<S>>(w, Port<S>{w, v.ref}, uid); });
        return true;
    }
    if (s.op == "cprobe")
    {
        PortVal v = I.get(a.at(0));
        with_shape(v.shape, [&]<typename S>() { wire<CProbe<S>>(w, Port<S>{w, v.ref}, I.pi(a.at(1)), uid); });
        return true;
    }
    if (s.op == "ccopy")
    {
        PortVal v = I.get(a.at(0));
        with_shape(v.shape, [&]<typename S>() {
            auto p = wire<CCopy<S>>(w, Port<S>{w, v.ref}, uid);
            I.env[s.dst] = PortVal{p.erased(), PT::Other, v.shape};
        });
        return true;
    }
    if (s.op == "crecord")
    {
        PortVal v = I.get(a.at(0));
        with_shape(v.shape, [&]<typename S>() { wire<stdlib::dense_record_impl>(w, Port<S>{w, v.ref}, Str{s.kws("key", "out")}); });
        return true;
    }
    if (s.op == "creplay")
    {
        const std::string shape = s.kws("shape", "tsd");
        with_shape(shape, [&]<typename S>() {
            auto p = wire<stdlib::replay_impl, S>(w, Str{s.kws("key", "in")});
            I.env[s.dst] = PortVal{p.erased(), PT::Other, shape};
        });
        return true;
    }
    return false;
}
