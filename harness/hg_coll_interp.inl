// Interpreter ops over collections and higher-order operators (included inside namespace hv).
bool Interp::exec_coll(Interp &I, const Stmt &s)
{
    (void)I; (void)s;
    return false;
}
