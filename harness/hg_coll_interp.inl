// Interpreter ops over collections and higher-order operators (included inside namespace hv).
template <typename F>
void with_shape(const std::string &shape, F &&f)
{
    if (shape == "ts") f.template operator()<S_TS>();
    else if (shape == "tss") f.template operator()<S_TSS>();
    else if (shape == "tsd") f.template operator()<S_TSD>();
    else if (shape == "tsl") f.template operator()<S_TSL>();
    else if (shape == "dl") f.template operator()<S_DL>();
    else if (shape == "pair") f.template operator()<S_PAIR>();
    else if (shape == "tsb") f.template operator()<S_TSB>();
    else if (shape == "tsw") f.template operator()<S_TSW>();
    else if (shape == "dss") f.template operator()<S_DSS>();
    else if (shape == "dsb") f.template operator()<S_DSB>();
    else if (shape == "lb") f.template operator()<S_LB>();
    else if (shape == "dd") f.template operator()<S_DD>();
    else if (shape == "bb") f.template operator()<S_BB>();
    else if (shape == "bl") f.template operator()<S_BL>();
    else if (shape == "qq") f.template operator()<S_QQ>();
    else if (shape == "tss32") f.template operator()<S_TSS32>();
    else if (shape == "tsd32") f.template operator()<S_TSD32>();
    else throw std::runtime_error("unknown shape " + shape);
}

bool Interp::exec_coll(Interp &I, const Stmt &s)
{
    Wiring &w = I.w;
    const Int uid = s.kwi("uid");
    const auto &a = s.args;
    if (s.op == "csrc")
    {
        const std::string shape = s.kws("shape", "tsd");
        with_shape(shape, [&]<typename S>() {
            auto p = wire<CSrc<S>>(w, uid);
            I.env[s.dst] = PortVal{p.erased(), PT::Other, shape};
        });
        return true;
    }
    if (s.op == "cfb")
    {
        const std::string shape = s.kws("shape", "tsl");
        with_shape(shape, [&]<typename S>() {
            auto fb = std::make_shared<stdlib::FeedbackWiringPort<S>>(stdlib::feedback<S>(w));
            Wiring *wp = &w;
            I.cfbs[s.dst] = Interp::FbAny{[fb] { return (*fb)().erased(); },
                                          [fb, wp](WiringPortRef r) { (*fb)(Port<S>{*wp, std::move(r)}); }, shape};
        });
        return true;
    }
    if (s.op == "cmirror")
    {
        PortVal v = I.get(a.at(0));
        with_shape(v.shape, [&]<typename S>() { wire<CMirror<S>>(w, Port<S>{w, v.ref}, uid); });
        return true;
    }
    if (s.op == "cprobe")
    {
        PortVal v = I.get(a.at(0));
        with_shape(v.shape, [&]<typename S>() { wire<CProbe<S>>(w, Port<S>{w, v.ref}, I.pi(a.at(1)), uid); });
        return true;
    }
    if (s.op == "ccopy")
    {
        PortVal v = I.get(a.at(0));
        with_shape(v.shape, [&]<typename S>() {
            auto p = wire<CCopy<S>>(w, Port<S>{w, v.ref}, uid);
            I.env[s.dst] = PortVal{p.erased(), PT::Other, v.shape};
        });
        return true;
    }
    if (s.op == "map")
    {
        // map fn=<spec> <tsd> [broadcast ts...]
        WiredFn f = wired_fn_for(s.kws("fn", "fn1:0"));
        PortVal d = I.get(a.at(0));
        Port<void> out;
        if (a.size() == 1 && d.shape == "dl")
        {
            // map_ over a DYNAMIC list: one child per element (a separate implementation from the keyed map)
            out = wire<stdlib::map_>(w, f, Port<S_DL>{w, d.ref});
            I.env[s.dst] = PortVal{out.template as<S_DL>().erased(), PT::Other, "dl"};
            return true;
        }
        if (a.size() == 1 && s.kw.count("keys"))
        {
            // keys=<tss port>: an EXPLICIT key set drives the children's lifetime, the dictionary only feeds elements
            PortVal ks = I.get(s.kws("keys"));
            out = wire<stdlib::map_>(w, f, Port<S_TSD>{w, d.ref}, arg<"__keys__">(Port<S_TSS>{w, ks.ref}));
        }
        else if (a.size() == 1) out = wire<stdlib::map_>(w, f, Port<S_TSD>{w, d.ref});
        else if (a.size() == 2 && I.get(a.at(1)).shape == "tsd" && s.kwi("passthrough", 0))
        {
            // the second dictionary is handed to every instance as a whole (pass_through); the instances return dictionaries
            out = wire<stdlib::map_>(w, f, Port<S_TSD>{w, d.ref}, stdlib::pass_through(Port<S_TSD>{w, I.get(a.at(1)).ref}));
            I.env[s.dst] = PortVal{out.template as<S_DD>().erased(), PT::Other, "dd"};
            return true;
        }
        else if (a.size() == 2 && I.get(a.at(1)).shape == "tsd")
            out = wire<stdlib::map_>(w, f, Port<S_TSD>{w, d.ref}, Port<S_TSD>{w, I.get(a.at(1)).ref});      // two multiplexed dictionaries
        else if (a.size() == 2) out = wire<stdlib::map_>(w, f, Port<S_TSD>{w, d.ref}, I.pi(a.at(1)));
        else throw std::runtime_error("map arity");
        I.env[s.dst] = PortVal{out.template as<S_TSD>().erased(), PT::Other, "tsd"};
        return true;
    }
    if (s.op == "pair")
    {
        // pair <a> <b>: a two-element list ASSEMBLED from two independent ports (structural, non-peered)
        auto q = stdlib::to_tsl<S_PAIR>(w, I.pi(a.at(0)), I.pi(a.at(1))).template as<S_PAIR>();
        I.env[s.dst] = PortVal{q.erased(), PT::Other, "pair"};
        return true;
    }
    if (s.op == "quad")
    {
        // quad <a> <b> <c> <d>: a 2x2 grid ASSEMBLED from four independent ports (a structural, non-peered source)
        auto q = stdlib::to_tsl<S_QQ>(w, stdlib::to_tsl<S_PAIR>(w, I.pi(a.at(0)), I.pi(a.at(1))).template as<S_PAIR>(),
                                      stdlib::to_tsl<S_PAIR>(w, I.pi(a.at(2)), I.pi(a.at(3))).template as<S_PAIR>()).template as<S_QQ>();
        I.env[s.dst] = PortVal{q.erased(), PT::Other, "qq"};
        return true;
    }
    if (s.op == "quadsub")
    {
        // quadsub <grid> perm=<k> nest=0|1|2: a sub-graph whose result is a re-arrangement of its one structured parameter, wired
        // inline or as a nested child graph (nest = depth)
        PortVal q = I.get(a.at(0));
        const Int perm = s.kwi("perm", 1);
        Port<S_QQ> in{w, q.ref};
        Port<S_QQ> out = s.kwi("nest", 0) == 0 ? wire<SubQ>(w, in, perm)
                         : s.kwi("nest", 0) == 1 ? nested_<SubQ>(w, in, perm).template as<S_QQ>()
                                                 : nested_<SubQ2>(w, in, perm).template as<S_QQ>();
        I.env[s.dst] = PortVal{out.erased(), PT::Other, "qq"};
        return true;
    }
    if (s.op == "elem")
    {
        // elem <tsl port> <i>: projection of one element of a fixed list output (siblings share the owning output)
        PortVal v = I.get(a.at(0));
        if (v.shape == "pair")
        {
            auto e2 = tsl_element(Port<S_PAIR>{w, v.ref}, (std::size_t)std::atoll(a.at(1).c_str()));
            I.env[s.dst] = PortVal{e2.erased(), PT::Int, "ts"};
            return true;
        }
        if (v.shape != "tsl") throw std::runtime_error("elem needs a tsl port");
        auto e = tsl_element(Port<S_TSL>{w, v.ref}, (std::size_t)std::atoll(a.at(1).c_str()));
        I.env[s.dst] = PortVal{e.erased(), PT::Int, "ts"};
        return true;
    }
    if (s.op == "towin")
    {
        // towin <ts> uid=<mirror uid> period=<n> min=<m> [ticks=1]: stdlib to_window over a duration (n, m in smallest steps)
        // or a tick count; the window is mirrored tick by tick
        Port<void> win;
        if (s.kwi("ticks", 0)) win = wire<stdlib::to_window>(w, I.pi(a.at(0)), Int{s.kwi("period", 3)}, Int{s.kwi("min", 1)});
        else win = wire<stdlib::to_window>(w, I.pi(a.at(0)), TimeDelta{MIN_TD.count() * s.kwi("period", 3)}, TimeDelta{MIN_TD.count() * s.kwi("min", 1)});
        wire<CMirrorAny>(w, win, uid);
        return true;
    }
    if (s.op == "maperr")
    {
        // maperr <map output> uid=<mirror uid>: per-key error capture on the map node, mirrored tick by tick
        PortVal m = I.get(a.at(0));
        using S_DERR = TSD<Int, TS<NodeError>>;
        auto e = exception_time_series(Port<S_TSD>{w, m.ref});
        wire<CMirror<S_DERR>>(w, e, uid);
        if (s.kw.count("keysuid"))
        {
            // the KEY SET of the error dictionary (keys that currently report an error), as a consumer would project it
            auto ks = wire<stdlib::keys_>(w, e).template as<S_TSS>();
            wire<CMirror<S_TSS>>(w, ks, Int{s.kwi("keysuid")});
        }
        return true;
    }
    if (s.op == "nkeys")
    {
        // nkeys <tsd port> uid=<u> nest=0|1|2: keys_ reader (mirror uid u) and a dictionary mirror (uid u+1) inline / nested
        PortVal d = I.get(a.at(0));
        Port<S_TSD> in{w, d.ref};
        const Int u = s.kwi("uid");
        Port<TS<Int>> out = s.kwi("nest", 0) == 0 ? wire<SubKeys>(w, in, u)
                            : s.kwi("nest", 0) == 1 ? nested_<SubKeys>(w, in, u).template as<TS<Int>>()
                                                    : nested_<SubKeys2>(w, in, u).template as<TS<Int>>();
        I.env[s.dst] = PortVal{out.erased(), PT::Int, "ts"};
        return true;
    }
    if (s.op == "mesh")
    {
        // mesh fn=<spec> <tsd values> <tsd links>: per-key instances that may read each other's results (meshref inside fn)
        WiredFn f = wired_fn_for(s.kws("fn", "fn2:0"));
        PortVal d = I.get(a.at(0)), l = I.get(a.at(1));
        Port<void> out = wire<stdlib::mesh_>(w, f, Port<S_TSD>{w, d.ref}, Port<S_TSD>{w, l.ref});
        I.env[s.dst] = PortVal{out.template as<S_TSD>().erased(), PT::Other, "tsd"};
        return true;
    }
    if (s.op == "meshref")
    {
        // meshref <key port>: the result of the instance for that key (inside a mesh function); pauses the instance until the
        // referenced instance has been evaluated in this cycle
        auto dep = stdlib::mesh_ref<TS<Int>>(w, I.pi(a.at(0)));
        I.env[s.dst] = PortVal{dep.erased(), PT::Int, "ts"};
        return true;
    }
    if (s.op == "reduce")
    {
        WiredFn f = wired_fn_for(s.kws("fn", "sum"));
        PortVal d = I.get(a.at(0));
        Port<void> out;
        if (d.shape == "tsd" && s.kw.count("assoc") && s.kwi("assoc") == 0)
        {
            // ordered left fold over a contiguous TSD<Int, TS<Int>> (keys 0..n-1), the zero is the initial accumulator
            auto zero = wire<stdlib::const_>(w, Int{s.kwi("zero", 0)}).template as<TS<Int>>();
            out = wire<stdlib::reduce_>(w, f, Port<S_TSD>{w, d.ref}, zero, Bool{false});
        }
        else if (d.shape == "tsd" && s.kw.count("zts"))
        {
            // the zero is a LIVE time-series (it ticks and may be a re-pointed reference)
            out = wire<stdlib::reduce_>(w, f, Port<S_TSD>{w, d.ref}, I.pi(s.kws("zts")));
        }
        else if (d.shape == "tsd")
        {
            if (s.kw.count("zero")) out = wire<stdlib::reduce_>(w, f, Port<S_TSD>{w, d.ref}, Int{s.kwi("zero")});
            else out = wire<stdlib::reduce_>(w, f, Port<S_TSD>{w, d.ref});
        }
        else if (d.shape == "tsl")
        {
            if (s.kw.count("zero")) out = wire<stdlib::reduce_>(w, f, Port<S_TSL>{w, d.ref}, Int{s.kwi("zero")});
            else out = wire<stdlib::reduce_>(w, f, Port<S_TSL>{w, d.ref});
        }
        else if (d.shape == "dd")
        {
            // a reduction whose VALUE is itself a dictionary (elements are dictionaries, merged key-wise)
            out = wire<stdlib::reduce_>(w, fn<VMergeDD>(), Port<S_DD>{w, d.ref});
            I.env[s.dst] = PortVal{out.template as<S_TSD>().erased(), PT::Other, "tsd"};
            return true;
        }
        else throw std::runtime_error("reduce shape");
        I.env[s.dst] = PortVal{out.template as<TS<Int>>().erased(), PT::Int, "ts"};
        return true;
    }
    if (s.op == "switch")
    {
        // switch <key> [ts...] cases=1:fn1:0,2:fn1:1 [default=fn1:2] [reload=1]
        std::vector<stdlib::SwitchCase> cases;
        for (const auto &ent : split(s.kws("cases", ""), ','))
        {
            if (ent.empty()) continue;
            auto c = ent.find(':');
            cases.push_back(stdlib::SwitchCase{Value{Int{std::atoll(ent.substr(0, c).c_str())}}, wired_fn_for(ent.substr(c + 1))});
        }
        stdlib::SwitchCases sc{.cases = cases};
        if (s.kw.count("default")) sc.default_branch = wired_fn_for(s.kws("default"));
        if (s.kwi("reload", 0)) sc.reload_on_ticked = true;
        Port<void> out;
        if (a.size() == 2 && I.get(a.at(1)).shape == "pair")
        {
            // one structured argument (a pair assembled from two ports) handed to the branches whole; the branches return pairs
            out = wire<stdlib::switch_>(w, I.pi(a.at(0)), sc, Port<S_PAIR>{w, I.get(a.at(1)).ref});
            I.env[s.dst] = PortVal{out.template as<S_PAIR>().erased(), PT::Other, "pair"};
            return true;
        }
        if (a.size() == 2 && s.kws("out") == "tss")
        {
            // branches returning a SET: the switch owns a collection-valued output
            out = wire<stdlib::switch_>(w, I.pi(a.at(0)), sc, I.pi(a.at(1)));
            I.env[s.dst] = PortVal{out.template as<S_TSS>().erased(), PT::Other, "tss"};
            return true;
        }
        if (a.size() == 1) out = wire<stdlib::switch_>(w, I.pi(a.at(0)), sc);
        else if (a.size() == 2) out = wire<stdlib::switch_>(w, I.pi(a.at(0)), sc, I.pi(a.at(1)));
        else if (a.size() == 3) out = wire<stdlib::switch_>(w, I.pi(a.at(0)), sc, I.pi(a.at(1)), I.pi(a.at(2)));
        else throw std::runtime_error("switch arity");
        I.env[s.dst] = PortVal{out.template as<TS<Int>>().erased(), PT::Int, "ts"};
        return true;
    }
    if (s.op == "ite")
    {
        // ite <cond int ts> <a> <b>    (cond != 0 selects a)
        auto cond = wire<VToBool>(w, I.pi(a.at(0)), uid);
        PortVal x = I.get(a.at(1)), y = I.get(a.at(2));
        with_shape(x.shape, [&]<typename S>() {
            auto out = wire<stdlib::if_then_else>(w, cond, Port<S>{w, x.ref}, Port<S>{w, y.ref});
            I.env[s.dst] = PortVal{out.template as<S>().erased(), x.type, x.shape};
        });
        return true;
    }
    if (s.op == "getitem")
    {
        // getitem <tsd port> <key int ts>: stdlib tsd[key] - a reference to the element under the CURRENT key (re-pointed when the
        // key ticks to another key, emptied when the key is absent / removed, re-bound when the key comes back)
        PortVal d = I.get(a.at(0));
        if (d.shape != "tsd") throw std::runtime_error("getitem needs a tsd port");
        auto out = wire<stdlib::getitem_>(w, Port<S_TSD>{w, d.ref}, I.pi(a.at(1)));
        I.env[s.dst] = PortVal{out.template as<TS<Int>>().erased(), PT::Int, "ts"};
        return true;
    }
    if (s.op == "icmp")
    {
        // icmp <cmp int ts> <lt> <eq> <gt>    (the first input's residue mod 3 selects lt / eq / gt; stdlib if_cmp, reference-shaped like if_then_else)
        auto cmp = wire<VToCmp>(w, I.pi(a.at(0)), uid);
        PortVal x = I.get(a.at(1)), y = I.get(a.at(2)), z = I.get(a.at(3));
        with_shape(x.shape, [&]<typename S>() {
            auto out = wire<stdlib::if_cmp>(w, cmp, Port<S>{w, x.ref}, Port<S>{w, y.ref}, Port<S>{w, z.ref});
            I.env[s.dst] = PortVal{out.template as<S>().erased(), x.type, x.shape};
        });
        return true;
    }
    if (s.op == "toset")
    {
        // toset <int ts> uid=<u> mod=<m> acc=0|1: TS<Int> -> TSS<Int> (see VToSet)
        auto out = wire<VToSet>(w, I.pi(a.at(0)), uid, Int{s.kwi("mod", 8)}, Int{s.kwi("acc", 1)});
        I.env[s.dst] = PortVal{out.erased(), PT::Other, "tss"};
        return true;
    }
    if (s.op == "republish")
    {
        // republish <port> <trigger int ts> uid=<u>: the port's reference, published again on every trigger tick
        PortVal v = I.get(a.at(0));
        with_shape(v.shape, [&]<typename S>() {
            auto out = wire<VRepublish<S>>(w, Port<S>{w, v.ref}, I.pi(a.at(1)), uid);
            I.env[s.dst] = PortVal{out.template as<S>().erased(), v.type, v.shape};
        });
        return true;
    }
    if (s.op == "clive")
    {
        PortVal v = I.get(a.at(0));
        with_shape(v.shape, [&]<typename S>() { wire<CLive<S>>(w, Port<S>{w, v.ref}, uid); });
        return true;
    }
    if (s.op == "gate4")
    {
        // gate4 <a> <b> <c> <d> uid=<u> drop=0|1|2 at=<n> back=<m>: xs = {a, b}, ys = {c, d} (see VGate4)
        auto xs = stdlib::to_tsl<S_PAIR>(w, I.pi(a.at(0)), I.pi(a.at(1))).template as<S_PAIR>();
        auto ys = stdlib::to_tsl<S_PAIR>(w, I.pi(a.at(2)), I.pi(a.at(3))).template as<S_PAIR>();
        auto out = wire<VGate4>(w, xs, ys, uid, Int{s.kwi("drop", 2)}, Int{s.kwi("at", 1)}, Int{s.kwi("back", 0)});
        I.env[s.dst] = PortVal{out.erased(), PT::Int, "ts"};
        return true;
    }
    if (s.op == "ifroute")
    {
        // ifroute <cond int ts> <ts> uid=<u> branch=true|false: stdlib if_(condition, ts) routes the stream to one of two
        // reference-shaped outputs; the selected branch is read through getitem_ (a reference that is EMPTY while not selected)
        using IfTs = UnNamedTSB<Field<"true", REF<TS<Int>>>, Field<"false", REF<TS<Int>>>>;
        auto cond   = wire<VToBool>(w, I.pi(a.at(0)), uid);
        auto routed = wire<stdlib::if_, IfTs>(w, cond, I.pi(a.at(1))).template as<IfTs>();
        auto br     = wire<stdlib::getitem_>(w, routed, Str{s.kws("branch", "true")}).template as<TS<Int>>();
        I.env[s.dst] = PortVal{br.erased(), PT::Int, "ts"};
        return true;
    }
    if (s.op == "crecord" && !s.kwi("sparse", 0))
    {
        PortVal v = I.get(a.at(0));
        with_shape(v.shape, [&]<typename S>() { wire<stdlib::dense_record_impl>(w, Port<S>{w, v.ref}, Str{s.kws("key", "out")}); });
        return true;
    }
    if (s.op == "srecord")
    {
        // the persistent "memory" backend recorder: (absolute time, delta) entries under :memory:<rid>.<key>, appended
        PortVal v = I.get(a.at(0));
        with_shape(v.shape, [&]<typename S>() {
            wire<stdlib::sparse_record_impl>(w, Port<S>{w, v.ref}, Str{s.kws("key", "out")}, Str{s.kws("rid", "verif.rec")});
        });
        return true;
    }
    if (s.op == "sreplay")
    {
        const std::string shape = s.kws("shape", "tsd");
        with_shape(shape, [&]<typename S>() {
            auto p = wire<stdlib::replay_impl, S>(w, Str{s.kws("key", "in")}, Str{s.kws("rid", "verif.rec")});
            I.env[s.dst] = PortVal{p.erased(), shape == "ts" ? PT::Int : PT::Other, shape};
        });
        return true;
    }
    if (s.op == "crecord" && s.kwi("sparse", 0))
    {
        PortVal v = I.get(a.at(0));
        with_shape(v.shape, [&]<typename S>() { wire<stdlib::dense_record_impl>(w, Port<S>{w, v.ref}, Str{s.kws("key", "out")}, Bool{true}); });
        return true;
    }
    if (s.op == "creplay")
    {
        const std::string shape = s.kws("shape", "tsd");
        with_shape(shape, [&]<typename S>() {
            auto p = wire<stdlib::replay_impl, S>(w, Str{s.kws("key", "in")});
            I.env[s.dst] = PortVal{p.erased(), PT::Other, shape};
        });
        return true;
    }
    return false;
}
