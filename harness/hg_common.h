// Shared harness plumbing: per-run context, trace buffer, lifecycle observer.
// Everything here is harness-side; it observes the tree through its public C++ API only.
#pragma once

#include <hgraph/lib/std/std_operators.h>
#include <hgraph/lib/std/std_nodes.h>
#include <hgraph/lib/std/value_util.h>
#include <hgraph/runtime/runtime.h>
#include <hgraph/runtime/lifecycle_observer.h>
#include <hgraph/runtime/node_error.h>
#include <hgraph/types/graph_wiring.h>
#include <hgraph/types/static_node.h>
#include <hgraph/types/subgraph_wiring.h>
#include <hgraph/types/wired_fn.h>

#include <cstdio>
#include <cstdlib>
#include <cstring>
#include <fstream>
#include <iostream>
#include <map>
#include <set>
#include <sstream>
#include <string>
#include <unordered_map>
#include <vector>

namespace hv
{
    using namespace hgraph;

    inline long long toff(DateTime t)
    {
        if (t == MIN_DT) return -1;            // "never"
        if (t >= MAX_DT) return -2;            // "infinite"
        return (long long)(t - MIN_ST).count();
    }
    inline DateTime tabs(long long off) { return MIN_ST + TimeDelta{off}; }

    struct SchedOp
    {
        std::string op;      // sched | schedabs | un | untag | pop | reset | q
        long long   arg{0};  // delta / absolute offset
        std::string tag;     // "" = untagged
    };

    struct Fault
    {
        long long uid;
        std::string phase;   // start | eval | stop
        long long occ;       // 1-based occurrence (per uid, per phase, per run)
    };

    struct GraphProg
    {
        std::string              name;
        std::vector<std::string> lines;
    };

    // Per-run context. Nodes reach it through a thread_local pointer so concurrent
    // executors on different threads stay independent (C07).
    struct Ctx
    {
        std::string out;                       // trace buffer
        long long   seq{0};
        std::map<long long, std::vector<std::pair<long long, long long>>> scripts;   // uid -> (t, v)
        std::map<long long, std::vector<std::string>>                      cscripts;  // uid -> collection mutation scripts "t|ops"
        std::map<long long, std::map<long long, std::vector<SchedOp>>>     sched;     // uid -> evalno -> ops
        std::vector<Fault>                      faults;
        std::map<std::string, long long>        fault_counts;                         // "uid/phase" -> count so far
        std::map<std::string, GraphProg>        graphs;
        std::map<std::string, std::string>      opts;
        long long win_start{0}, win_end{100};
        long long busy_ns{0};                                                        // busy wait injected per user eval (C07)
        // graph identity
        std::unordered_map<const void *, long long> gid_by_addr;
        long long next_gid{0};
        bool light{false};                                                           // light observer (no E</E> events)

        long long opt_int(const std::string &k, long long d) const
        {
            auto it = opts.find(k);
            return it == opts.end() ? d : std::atoll(it->second.c_str());
        }
        std::string opt_str(const std::string &k, const std::string &d) const
        {
            auto it = opts.find(k);
            return it == opts.end() ? d : it->second;
        }
    };

    inline thread_local Ctx *tl_ctx = nullptr;
    inline Ctx &ctx()
    {
        if (tl_ctx == nullptr) { std::fprintf(stderr, "hv: no ctx\n"); std::abort(); }
        return *tl_ctx;
    }

    // ---- trace writing -------------------------------------------------------------------
    struct Line
    {
        std::string &o;
        explicit Line(const char *kind) : o(ctx().out)
        {
            o += kind;
        }
        Line &i(long long v) { o += ' '; o += std::to_string(v); return *this; }
        Line &s(std::string_view v)
        {
            o += ' ';
            if (v.empty()) { o += "~"; return *this; }
            for (char c : v) { o += (c == ' ' || c == '\n' || c == '\t') ? '_' : c; }
            return *this;
        }
        Line &t(DateTime v) { return i(toff(v)); }
        ~Line() { o += '\n'; }
    };

    inline long long gid_of(const GraphView &g)
    {
        auto &c = ctx();
        auto  it = c.gid_by_addr.find(g.data());
        if (it == c.gid_by_addr.end())
        {
            // Graph seen before its start event (should not happen) – assign lazily.
            long long id = c.next_gid++;
            c.gid_by_addr[g.data()] = id;
            return id;
        }
        return it->second;
    }

    inline void maybe_fault(long long uid, const char *phase)
    {
        auto &c = ctx();
        if (c.faults.empty()) return;
        std::string key = std::to_string(uid) + "/" + phase;
        long long   n   = ++c.fault_counts[key];
        for (auto &f : c.faults)
        {
            if (f.uid == uid && f.phase == phase && f.occ == n)
            {
                Line("u.throw").i(uid).s(phase).i(n);
                throw std::runtime_error("verif-fault uid=" + std::to_string(uid) + " phase=" + phase + " occ=" + std::to_string(n));
            }
        }
    }

    inline void busy()
    {
        long long ns = ctx().busy_ns;
        if (ns <= 0) return;
        auto until = std::chrono::steady_clock::now() + std::chrono::nanoseconds(ns);
        while (std::chrono::steady_clock::now() < until) {}
    }

    // ---- lifecycle observer -------------------------------------------------------------
    struct Obs : LifecycleObserver
    {
        static void graph_ident(const GraphView &g, long long &parent_gid, long long &parent_idx)
        {
            parent_gid = -1; parent_idx = -1;
            if (g.is_nested())
            {
                auto pn = g.as_nested().parent_node();
                if (pn.valid()) { parent_gid = gid_of(pn.graph()); parent_idx = (long long)pn.node_index(); }
            }
        }
        void on_before_start_graph(const GraphView &g) override
        {
            auto &c = ctx();
            long long id = c.next_gid++;
            c.gid_by_addr[g.data()] = id;
            long long pg, pi; graph_ident(g, pg, pi);
            Line("G+").i(id).i(pg).i(pi).s(g.schema() ? g.schema()->name() : std::string_view{"?"}).i((long long)g.node_count()).t(g.evaluation_time());
        }
        void on_after_start_graph(const GraphView &g) override { Line("Gs").i(gid_of(g)).t(g.evaluation_time()); }
        void on_start_graph_failed(const GraphView &g) override { Line("Gf").i(gid_of(g)); }
        void on_before_start_node(const NodeView &n) override
        {
            Line("N+").i(gid_of(n.graph())).i((long long)n.node_index()).s(n.label()).i((long long)n.node_kind());
        }
        void on_after_start_node(const NodeView &n) override { Line("Ns").i(gid_of(n.graph())).i((long long)n.node_index()); }
        void on_start_node_failed(const NodeView &n) override { Line("Nf").i(gid_of(n.graph())).i((long long)n.node_index()); }
        void on_before_graph_evaluation(const GraphView &g) override { Line("C<").i(gid_of(g)).t(g.evaluation_time()); }
        void on_after_graph_evaluation(const GraphView &g) override
        {
            Line l("C>");
            l.i(gid_of(g)).t(g.evaluation_time()).t(g.next_scheduled_time());
            if (g.is_root() && !ctx().light)
            {
                const std::size_t n = g.node_count();
                l.i((long long)n);
                for (std::size_t k = 0; k < n; ++k) l.t(g.node_scheduled_time(k));
            }
        }
        void on_before_node_evaluation(const NodeView &n) override
        {
            if (ctx().light) return;
            Line("E<").i(gid_of(n.graph())).i((long long)n.node_index());
        }
        void on_after_node_evaluation(const NodeView &n) override
        {
            if (ctx().light) return;
            Line("E>").i(gid_of(n.graph())).i((long long)n.node_index());
        }
        void on_after_graph_push_nodes_evaluation(const GraphView &g) override { Line("P>").i(gid_of(g)); }
        void on_before_stop_node(const NodeView &n) override { Line("S<").i(gid_of(n.graph())).i((long long)n.node_index()).i(n.started() ? 1 : 0); }
        void on_after_stop_node(const NodeView &n) override { Line("S>").i(gid_of(n.graph())).i((long long)n.node_index()); }
        void on_stop_node_failed(const NodeView &n) override { Line("Sf").i(gid_of(n.graph())).i((long long)n.node_index()); }
        void on_before_stop_graph(const GraphView &g) override { Line("G-<").i(gid_of(g)); }
        void on_after_stop_graph(const GraphView &g) override { Line("G->").i(gid_of(g)); }
        void on_stop_graph_failed(const GraphView &g) override { Line("G-f").i(gid_of(g)); }
    };

    // ---- small parsing helpers ---------------------------------------------------------
    inline std::vector<std::string> split(const std::string &s, char sep)
    {
        std::vector<std::string> out;
        std::string cur;
        for (char c : s)
        {
            if (c == sep) { out.push_back(cur); cur.clear(); }
            else cur += c;
        }
        out.push_back(cur);
        return out;
    }
    inline std::vector<std::string> words(const std::string &s)
    {
        std::vector<std::string> out;
        std::istringstream is(s);
        std::string w;
        while (is >> w) out.push_back(w);
        return out;
    }
}  // namespace hv
