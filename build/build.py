#!/venv/bin/python
"""Incremental, content-hash driven builder for the hgraph C++ tree in /repo.

  build.py lib      [--flavour plain|asan|tsan]          compile every tree TU -> libhgraph_tree.a
  build.py harness  NAME [--flavour ...]                 compile /verif/harness/NAME.cpp and link it
  build.py all      [--flavour ...]                      lib + every harness listed in HARNESSES

Every TU's object is keyed by sha1(flags + content of the TU + content of every header in its
depfile). The check therefore always runs the code that is in /repo *now*; file mtimes are not
trusted (the sandbox clock does not advance between commands). Serialised by an flock.
"""
import argparse, concurrent.futures as cf, fcntl, hashlib, json, os, re, shlex, subprocess, sys, time

VERIF = os.path.dirname(os.path.dirname(os.path.abspath(__file__)))
REPO = os.environ.get("VERIF_REPO", "/repo")
SP = "/venv/lib/python3.12/site-packages"
COMPAT = os.path.join(VERIF, "build", "compat")
BUILD_ROOT = os.environ.get("VERIF_BUILD_ROOT", os.path.join(VERIF, ".build"))
JOBS = int(os.environ.get("VERIF_JOBS", "16"))
CXX = os.environ.get("VERIF_CXX", "g++")

EXCLUDE_TUS = {"src/hgraph/types/time_zone_provider.cpp", "src/hgraph/lib/std/operators/json_impl.cpp"}
NEEDS_CHRONO = {"src/hgraph/types/temporal.cpp", "src/hgraph/types/value/json_codec.cpp"}
NEEDS_SIMDJSON = {"src/hgraph/lib/std/operators/conversion_impl.cpp"}

FLAVOUR_FLAGS = {
    "plain": ["-O1"],
    "asan": ["-O1", "-g1", "-fsanitize=address,undefined", "-fno-sanitize-recover=undefined", "-fno-omit-frame-pointer"],
    "tsan": ["-O1", "-g1", "-fsanitize=thread", "-fno-omit-frame-pointer"],
}

HARNESSES = ["hgdrive", "hgunit", "hgrt"]


def bdir(flavour):
    return os.path.join(BUILD_ROOT, flavour)


def ensure_deps_include():
    inc = os.path.join(BUILD_ROOT, "deps", "include")
    os.makedirs(inc, exist_ok=True)
    for name in ("fmt", "spdlog"):
        link = os.path.join(inc, name)
        if not os.path.islink(link):
            try:
                os.symlink(os.path.join(SP, "include", name), link)
            except FileExistsError:
                pass
    return inc


def gen_version_header():
    gen = os.path.join(BUILD_ROOT, "gen", "hgraph")
    os.makedirs(gen, exist_ok=True)
    src = open(os.path.join(REPO, "include/hgraph/version.h.in")).read()
    subst = {"PROJECT_VERSION_MAJOR": "0", "PROJECT_VERSION_MINOR": "8", "PROJECT_VERSION_PATCH": "0",
             "PROJECT_VERSION": "0.8.0", "HGRAPH_GIT_BRANCH": "verif", "HGRAPH_GIT_COMMIT_HASH": "worktree",
             "HGRAPH_GIT_COMMIT_DATE": "n/a"}
    out = re.sub(r"@(\w+)@", lambda m: subst.get(m.group(1), ""), src)
    p = os.path.join(gen, "version.h")
    if not os.path.exists(p) or open(p).read() != out:
        open(p, "w").write(out)
    return os.path.dirname(gen)


def base_flags(flavour):
    deps_inc = ensure_deps_include()
    gen = gen_version_header()
    fl = [CXX, "-std=c++23", "-c", "-pipe", "-w", "-fPIC",
          "-DHGRAPH_STATIC_DEFINE", "-DFMT_HEADER_ONLY", "-DSPDLOG_FMT_EXTERNAL", "-DHGRAPH_TIME_ZONE_BACKEND_STD=1",
          "-I" + gen, "-I" + REPO + "/include", "-I" + REPO + "/include/third_party", "-I" + REPO + "/src",
          "-isystem", deps_inc, "-isystem", SP + "/pyarrow/include"]
    if os.environ.get("HGRAPH_VERIF", "1") != "0":
        fl.append("-DHGRAPH_VERIF_HOOKS")
    return fl + FLAVOUR_FLAGS[flavour]


_hash_cache = {}


def fhash(path):
    h = _hash_cache.get(path)
    if h is None:
        try:
            with open(path, "rb") as f:
                h = hashlib.sha1(f.read()).hexdigest()
        except OSError:
            h = "missing"
        _hash_cache[path] = h
    return h


_ROOTS = None


def known_roots():
    """(old prefix, current prefix) pairs: repository, build and harness roots this build directory has been used with, so
    that a copied build directory keeps working for another checkout / location."""
    global _ROOTS
    if _ROOTS is None:
        p = os.path.join(BUILD_ROOT, "repo_roots.txt")
        cur = {"repo": REPO, "build": BUILD_ROOT, "verif": VERIF}
        seen = []
        if os.path.exists(p):
            for l in open(p):
                parts = l.split()
                if len(parts) == 2:
                    seen.append((parts[0], parts[1]))
                elif len(parts) == 1:
                    seen.append(("repo", parts[0]))
        changed = False
        for k, v in cur.items():
            if (k, v) not in seen:
                seen.append((k, v))
                changed = True
        if changed:
            os.makedirs(BUILD_ROOT, exist_ok=True)
            with open(p, "w") as f:
                f.write("".join(f"{k} {v}\n" for k, v in seen))
        _ROOTS = sorted(((v, cur[k]) for k, v in seen if v != cur[k]), key=lambda x: -len(x[0]))
    return _ROOTS


def parse_dep(depfile):
    try:
        txt = open(depfile).read()
    except OSError:
        return None
    txt = txt.replace("\\\n", " ")
    _, _, rest = txt.partition(":")
    out = []
    for d in shlex.split(rest):
        if not d:
            continue
        for old, new in known_roots():
            if d.startswith(old + "/"):
                d = new + d[len(old):]
                break
        out.append(d)
    return out


def _norm(path):
    """Paths are recorded relative to the repository / build roots so that a copied build directory stays valid for
    another checkout of the same content (scratch worktrees)."""
    for root, tag in sorted(((BUILD_ROOT, "$BUILD"), (REPO, "$REPO"), (VERIF, "$VERIF")), key=lambda x: -len(x[0])):
        if path.startswith(root):
            return tag + path[len(root):]
    return path


def signature(flags, src, deps):
    h = hashlib.sha1()
    h.update(" ".join(_norm(f[2:]) if f.startswith("-I") else _norm(f) for f in flags).encode())
    h.update(fhash(src).encode())
    for d in sorted(set(os.path.normpath(x) for x in deps)):
        if d.startswith("/usr/") or d.startswith(SP):
            continue  # toolchain and installed third-party headers are fixed in the sandbox
        h.update(_norm(d).encode())
        h.update(fhash(d).encode())
    return h.hexdigest()


def compile_one(src, obj, flags):
    """Returns (src, ok, seconds, stderr, rebuilt)."""
    dep = obj[:-2] + ".d"
    sig = obj[:-2] + ".sig"
    deps = parse_dep(dep)
    if deps is not None and os.path.exists(obj) and os.path.exists(sig):
        if open(sig).read() == signature(flags, src, deps):
            return (src, True, 0.0, "", False)
    t0 = time.time()
    os.makedirs(os.path.dirname(obj), exist_ok=True)
    for p in (sig,):
        if os.path.exists(p):
            os.unlink(p)
    r = subprocess.run(flags + ["-MMD", "-MF", dep, "-o", obj, src], capture_output=True, text=True)
    if r.returncode != 0:
        return (src, False, time.time() - t0, r.stderr[-6000:], True)
    deps = parse_dep(dep) or []
    open(sig, "w").write(signature(flags, src, deps))
    return (src, True, time.time() - t0, "", True)


def tree_tus():
    out = []
    for root, _, files in os.walk(os.path.join(REPO, "src")):
        rel = os.path.relpath(root, REPO)
        if rel.startswith("src/hgraph/python"):
            continue
        for f in files:
            if f.endswith(".cpp"):
                r = os.path.join(rel, f)
                if r not in EXCLUDE_TUS:
                    out.append(r)
    return sorted(out)


def build_lib(flavour, quiet=False):
    bd = bdir(flavour)
    os.makedirs(bd, exist_ok=True)
    bf = base_flags(flavour)
    jobs = []
    for rel in tree_tus():
        fl = list(bf)
        if rel in NEEDS_CHRONO:
            fl += ["-include", os.path.join(COMPAT, "chrono_compat.h")]
        if rel in NEEDS_SIMDJSON:
            fl += ["-I" + os.path.join(COMPAT, "simdjson_shim")]
        obj = os.path.join(bd, "obj", rel[:-4].replace("/", "__") + ".o")
        jobs.append((os.path.join(REPO, rel), obj, fl))
    jobs.append((os.path.join(COMPAT, "stubs.cpp"), os.path.join(bd, "obj", "verif_stubs.o"), list(bf)))
    # biggest first
    jobs.sort(key=lambda j: -os.path.getsize(j[0]))
    t0 = time.time()
    rebuilt = 0
    failed = []
    with cf.ThreadPoolExecutor(JOBS) as ex:
        for src, ok, secs, err, did in ex.map(lambda j: compile_one(*j), jobs):
            if did:
                rebuilt += 1
                if not quiet:
                    print(f"[build:{flavour}] {'ok ' if ok else 'FAIL'} {secs:6.1f}s {os.path.relpath(src, REPO)}", flush=True)
            if not ok:
                failed.append((src, err))
    if failed:
        for src, err in failed:
            sys.stderr.write(f"--- compile failed: {src}\n{err}\n")
        return False, rebuilt
    objs = sorted(j[1] for j in jobs)
    lib = os.path.join(bd, "libhgraph_tree.a")
    listing = hashlib.sha1("\n".join(objs).encode()).hexdigest()
    stamp = lib + ".stamp"
    # the stamp carries a fresh archive id whenever the archive is re-created, so that every harness executable linked against an
    # OLDER archive is re-linked by its next build_harness call (not only the one built in the call that recompiled the tree)
    if rebuilt or not os.path.exists(lib) or not os.path.exists(stamp) or open(stamp).read().split("#")[0] != listing:
        if os.path.exists(lib):
            os.unlink(lib)
        r = subprocess.run(["ar", "rcs", lib] + objs, capture_output=True, text=True)
        if r.returncode != 0:
            sys.stderr.write(r.stderr)
            return False, rebuilt
        open(stamp, "w").write(listing + "#" + str(time.time_ns()))
    if not quiet:
        print(f"[build:{flavour}] lib up to date ({rebuilt} rebuilt, {time.time()-t0:.1f}s)", flush=True)
    return True, rebuilt


def link_flags(flavour):
    fl = [f for f in FLAVOUR_FLAGS[flavour] if f.startswith("-fsanitize")]
    return fl


def build_harness(name, flavour, quiet=False, lib_rebuilt=True):
    bd = bdir(flavour)
    src = os.path.join(VERIF, "harness", name + ".cpp")
    obj = os.path.join(bd, "hobj", name + ".o")
    fl = base_flags(flavour) + ["-I" + os.path.join(VERIF, "harness")]
    _, ok, secs, err, did = compile_one(src, obj, fl)
    if not ok:
        sys.stderr.write(f"--- harness compile failed: {src}\n{err}\n")
        return False
    exe = os.path.join(bd, name)
    lib = os.path.join(bd, "libhgraph_tree.a")
    stamp = exe + ".stamp"
    want = fhash(obj) + ":" + open(lib + ".stamp").read() + ":" + str(os.path.getsize(lib))
    _hash_cache.pop(obj, None)
    need = did or lib_rebuilt or not os.path.exists(exe) or not os.path.exists(stamp) or open(stamp).read() != want
    if need:
        cmd = [CXX, "-o", exe, obj, "-Wl,--start-group", lib, "-Wl,--end-group",
               "-L" + SP + "/pyarrow", "-Wl,-rpath," + SP + "/pyarrow",
               "-l:libarrow.so.2500", "-l:libarrow_compute.so.2500", "-l:libarrow_acero.so.2500", "-lpthread"] + link_flags(flavour)
        t0 = time.time()
        r = subprocess.run(cmd, capture_output=True, text=True)
        if r.returncode != 0:
            sys.stderr.write(f"--- link failed: {name}\n{r.stderr[-6000:]}\n")
            return False
        open(stamp, "w").write(want)
        if not quiet:
            print(f"[build:{flavour}] linked {name} (compile {secs:.1f}s, link {time.time()-t0:.1f}s)", flush=True)
    return True


def main():
    ap = argparse.ArgumentParser()
    ap.add_argument("what", choices=["lib", "harness", "all"])
    ap.add_argument("names", nargs="*")
    ap.add_argument("--flavour", default="plain", choices=list(FLAVOUR_FLAGS))
    ap.add_argument("--quiet", action="store_true")
    a = ap.parse_args()
    os.makedirs(BUILD_ROOT, exist_ok=True)
    lock = open(os.path.join(BUILD_ROOT, f".lock.{a.flavour}"), "w")
    fcntl.flock(lock, fcntl.LOCK_EX)
    known_roots()          # resolve (and record) the roots once, before any worker thread reads them
    ok, rebuilt = build_lib(a.flavour, a.quiet)
    if not ok:
        print("BUILD-FAILED lib", flush=True)
        return 2
    names = a.names if a.what == "harness" else (HARNESSES if a.what == "all" else [])
    if a.what == "all":
        names = [n for n in names if os.path.exists(os.path.join(VERIF, "harness", n + ".cpp"))]
    with cf.ThreadPoolExecutor(4) as ex:
        res = list(ex.map(lambda n: build_harness(n, a.flavour, a.quiet, rebuilt > 0), names))
    if not all(res):
        print("BUILD-FAILED harness", flush=True)
        return 2
    return 0


if __name__ == "__main__":
    sys.exit(main())
