#include <hgraph/types/temporal.h>
#include <hgraph/lib/std/operators/impl/json_impl.h>
#include <stdexcept>
namespace hgraph {
std::shared_ptr<const TimeZoneProvider> make_time_zone_provider() { return {}; }
TimeZoneBackend configured_time_zone_backend() noexcept { return TimeZoneBackend::Standard; }
void clear_time_zone_provider_cache() noexcept {}
void set_time_zone_provider(GlobalStateView, std::shared_ptr<const TimeZoneProvider>) { throw std::logic_error("verif sandbox: time zones unavailable"); }
const TimeZoneProvider &time_zone_provider(GlobalStateView) { throw std::logic_error("verif sandbox: time zones unavailable"); }
}
namespace hgraph::stdlib {
void register_json_operators() {}
namespace json_tree {
bool is_json_ts(const TSValueTypeMetaData *) noexcept { return false; }
bool equals(const ValueView &, const ValueView &) { throw std::logic_error("verif sandbox: json unavailable"); }
std::partial_ordering compare(const ValueView &, const ValueView &) { throw std::logic_error("verif sandbox: json unavailable"); }
}}
