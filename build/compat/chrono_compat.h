// Sandbox shim: libstdc++ 12 lacks C++20 <chrono> stream I/O. Minimal polyfills so the
// tree's temporal.cpp / json_codec.cpp compile unmodified. Harness-side only.
#pragma once
#include <chrono>
#include <ostream>
#include <istream>
#include <iomanip>
#include <string>
#include <cstdio>
#if !defined(__cpp_lib_chrono) || __cpp_lib_chrono < 201907L
namespace std::chrono {
inline ostream &operator<<(ostream &os, const year_month_day &ymd) {
    char buf[32];
    std::snprintf(buf, sizeof buf, "%04d-%02u-%02u", int(ymd.year()), unsigned(ymd.month()), unsigned(ymd.day()));
    return os << buf;
}
template <class Rep, class Period>
inline ostream &operator<<(ostream &os, const duration<Rep, Period> &d) { return os << d.count(); }
template <class Duration>
inline ostream &operator<<(ostream &os, const time_point<system_clock, Duration> &tp) {
    const auto dp = floor<days>(tp);
    const year_month_day ymd{dp};
    const hh_mm_ss<Duration> tod{tp - dp};
    char buf[64];
    std::snprintf(buf, sizeof buf, "%04d-%02u-%02u %02d:%02d:%02d", int(ymd.year()), unsigned(ymd.month()),
                  unsigned(ymd.day()), int(tod.hours().count()), int(tod.minutes().count()), int(tod.seconds().count()));
    os << buf;
    if constexpr (hh_mm_ss<Duration>::fractional_width > 0) {
        char f[32];
        std::snprintf(f, sizeof f, ".%0*lld", int(hh_mm_ss<Duration>::fractional_width), (long long)tod.subseconds().count());
        os << f;
    }
    return os;
}
template <class Duration>
inline ostream &operator<<(ostream &os, const time_point<local_t, Duration> &tp) {
    return os << time_point<system_clock, Duration>{tp.time_since_epoch()};
}
template <class CharT, class Traits, class Duration>
inline basic_istream<CharT, Traits> &from_stream(basic_istream<CharT, Traits> &is, const CharT *, time_point<system_clock, Duration> &tp) {
    int Y = 0; unsigned M = 0, D = 0; int h = 0, m = 0; double s = 0; char c1, c2, c3, c4, c5;
    if (is >> Y >> c1 >> M >> c2 >> D >> c3 >> h >> c4 >> m >> c5 >> s) {
        const sys_days dp{year{Y} / month{M} / day{D}};
        tp = time_point_cast<Duration>(dp + hours{h} + minutes{m} + duration_cast<Duration>(duration<double>{s}));
    }
    return is;
}
template <class CharT, class Traits, class Rep, class Period>
inline basic_istream<CharT, Traits> &from_stream(basic_istream<CharT, Traits> &is, const CharT *, duration<Rep, Period> &d) {
    int h = 0, m = 0; double s = 0; char c1, c2;
    if (is >> h >> c1 >> m >> c2 >> s) {
        d = duration_cast<duration<Rep, Period>>(hours{h} + minutes{m}) + duration_cast<duration<Rep, Period>>(duration<double>{s});
    }
    return is;
}
template <class CharT, class Traits, class Duration>
inline basic_istream<CharT, Traits> &from_stream(basic_istream<CharT, Traits> &is, const CharT *fmt, time_point<local_t, Duration> &tp) {
    time_point<system_clock, Duration> sys{};
    from_stream(is, fmt, sys);
    tp = time_point<local_t, Duration>{sys.time_since_epoch()};
    return is;
}
}  // namespace std::chrono
#endif
