// Sandbox shim: simdjson is not installed. conversion_impl.cpp only needs validate_utf8.
#pragma once
#include <string_view>
#include <cstddef>
namespace simdjson {
inline bool validate_utf8(std::string_view s) noexcept {
    const auto *p = reinterpret_cast<const unsigned char *>(s.data());
    std::size_t i = 0, n = s.size();
    while (i < n) {
        unsigned char c = p[i];
        std::size_t len = c < 0x80 ? 1 : (c >> 5) == 0x6 ? 2 : (c >> 4) == 0xE ? 3 : (c >> 3) == 0x1E ? 4 : 0;
        if (len == 0 || i + len > n) return false;
        unsigned cp = len == 1 ? c : c & (0xFF >> (len + 1));
        for (std::size_t k = 1; k < len; ++k) { if ((p[i + k] & 0xC0) != 0x80) return false; cp = (cp << 6) | (p[i + k] & 0x3F); }
        if ((len == 2 && cp < 0x80) || (len == 3 && cp < 0x800) || (len == 4 && cp < 0x10000) || cp > 0x10FFFF || (cp >= 0xD800 && cp <= 0xDFFF)) return false;
        i += len;
    }
    return true;
}
}
