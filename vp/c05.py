"""C05 - collection deltas cohere with collection values at every tick (mirror log vs shadow model + self-coherence)."""
from __future__ import annotations
from .runner import Result, Violation, scaled
from .gen_coll import gen_coll_case, parse_dumps, write_log
from .collmodel import Node, SHAPES, dump_value, _key

PROPERTY = "C05"
LEVEL = "exploration"
HARNESS = "hgdrive"
SANITIZE = "asan"      # thorough tier: same batch under -fsanitize=address,undefined
RULE = ("scripted mutation histories (add/remove/update/clear, several mutations of one element in a cycle, cancelling pairs, "
        "erase then re-insert within and across cycles, growth to 200 keys) over TSS<Int>, TSD<Int,TS>, TSD<Int,TSS>, "
        "TSD<Str,TSB>, TSD<Int,TSD>, TSL<TS,3>, TSL<TSB,2>, TSB{TS,TSS}, TSW<Int,3,2>; a mirror node reads value, added, "
        "removed, modified items and delta every tick. Oracle: value == shadow model value; value_t == value_{t-1} with the "
        "tick's delta applied; added/removed disjoint, added subset of value, removed absent now and present before; delta == "
        "net effect of the cycle's script; window == last N pushes, valid iff count >= min. Non-trivial: >= 3 ticks with a "
        "non-empty delta; distinct by case text")
ASSUMPTIONS = ["vp/collmodel.py is the documented value/delta semantics of the scripted shapes",
               "the mirror node reads through the public erased input views inside user code",
               "g++-12 -O1 build of the working tree with harness-side shims"]
FLOORS = {"ticks_checked": {"quick": 4000, "thorough": 60000}, "cancelling_cycles": {"quick": 100, "thorough": 1500},
          "nested_child_deltas": {"quick": 500, "thorough": 8000}, "window_ticks": {"quick": 200, "thorough": 3000},
          "removed_values_read": {"quick": 200, "thorough": 3000}, "duration_window_ticks": {"quick": 2000, "thorough": 30000},
          "window_growth_after_wrap": {"quick": 100, "thorough": 1500},
          "whole_set_assignments": {"quick": 400, "thorough": 6000}, "whole_set_assignments_of_the_empty_set": {"quick": 150, "thorough": 2000}}
BATCH = 20


def gen_window_case(rng, name):
    """stdlib to_window over duration and tick-count windows of several sizes, fed by streams that mix sparse stretches,
    bursts on consecutive steps and long gaps (ring growth on a wrapped buffer, partial and total expiry)."""
    from .prog import Case, S
    end = rng.choice([40, 80, 160])
    c = Case(name, 0, end)
    t, sc, v = rng.choice([0, 0, 3]), [], 100
    while t < end:
        sc.append((t, v))
        v += 1
        mode = rng.random()
        t += 1 if mode < 0.45 else rng.choice([2, 3, 4, 5]) if mode < 0.85 else rng.choice([7, 11, 16, 30])
    c.scripts[1] = sc
    main = [S("a", "src", uid=1, mode=0)]
    wins = []
    for j in range(rng.choice([2, 3, 4])):
        ticks = rng.random() < 0.35
        period = rng.choice([2, 3, 5, 8, 13]) if ticks else rng.choice([3, 5, 10, 17, 30])
        mn = rng.choice([1, 2, period]) if ticks else rng.choice([1, 2, 5])
        main.append(S("", "towin", "a", uid=10 + j, period=period, min=min(mn, period), ticks=1 if ticks else 0))
        wins.append({"uid": 10 + j, "period": period, "min": min(mn, period), "ticks": ticks})
    c.graphs["main"] = main
    c.meta.update(kind="win", wins=wins)
    return c


def check_windows(case, tr):
    res = Result(signature=case.text().split("\n", 1)[1])
    run = tr.runs[0]
    if tr.build_error or run.error:
        res.violations.append(Violation(f"build/run failed: {tr.build_error or run.error}"))
        return res
    dumps = parse_dumps(run)
    pushes = [(t, v) for t, v in case.scripts[1] if case.start <= t < case.end]
    V, C = [], {"window_ticks": 0, "duration_window_ticks": 0, "window_expiries": 0, "window_growth_after_wrap": 0}
    for w in case.meta["wins"]:
        stream = {t: d for t, d, _ in dumps.get(w["uid"], [])}
        if sorted(stream) != [t for t, _ in pushes]:
            V.append(f"window uid {w['uid']} ticked at {sorted(stream)[:10]} but values were pushed at {[t for t, _ in pushes][:10]}")
            continue
        model, evicted_since_growth, cap = [], False, 0
        for n, (t, v) in enumerate(pushes, 1):
            before = len(model)
            if w["ticks"]:
                model = (model + [(t, v)])[-w["period"]:]
            else:
                model = [(tt, vv) for tt, vv in model if tt >= t - w["period"]] + [(t, v)]      # trailing range, oldest first
            if len(model) <= before:
                C["window_expiries"] += 1
                evicted_since_growth = True
            if len(model) > cap:
                if evicted_since_growth and cap:
                    C["window_growth_after_wrap"] += 1
                cap, evicted_since_growth = len(model), False
            d = stream[t]
            C["window_ticks"] += 1
            C["duration_window_ticks"] += 0 if w["ticks"] else 1
            if "error" in d:
                V.append(f"window uid {w['uid']} t={t}: reading the input threw: {d['error']}")
                continue
            got = list(zip(d.get("times", []), [int(x) for x in d["vals"]]))
            if got != model:
                V.append(f"window uid {w['uid']} ({'last %d ticks' % w['period'] if w['ticks'] else 'range %d' % w['period']}) t={t}: holds "
                         f"{got[:8]} but the values pushed within the window are {model[:8]} (oldest first)")
            if d["size"] != len(model):
                V.append(f"window uid {w['uid']} t={t}: size {d['size']} != {len(model)}")
            if w["ticks"] and bool(d["av"]) != (n >= w["min"]):
                V.append(f"window uid {w['uid']} t={t}: all_valid={d['av']} after {n} pushes with minimum count {w['min']}")
            if str(d["d"]) != str(v):
                V.append(f"window uid {w['uid']} t={t}: tick delta {d['d']!r} is not the pushed value {v}")
    for m in V[:6]:
        res.violations.append(Violation(m))
    res.counters = C
    res.nontrivial = C["window_expiries"] >= 3
    return res


def generate(rng, tier, seed):
    from . import gen_coll
    gen_coll.WINDOW_CLEARS = True
    gen_coll.WHOLE_SET_ASSIGN = True
    try:
        return _generate(rng, tier, seed)
    finally:
        gen_coll.WINDOW_CLEARS = False
        gen_coll.WHOLE_SET_ASSIGN = False


def _generate(rng, tier, seed):
    n = scaled(300 if tier == "quick" else 5000)
    cases = []
    for k in range(n):
        cases.append(gen_coll_case(rng, f"c05_{seed}_{k}", big=(k % 25 == 24)))
    for k in range(n // 3):
        cases.append(gen_window_case(rng, f"c05_{seed}_w{k}"))
    cases.append(f32_witness(f"c05_{seed}_witnessF32"))
    return cases


MECH_F32 = "dynamic-list-delta-drops-sibling-after-child-renotifies"


def f32_witness(name):
    """Constructed witness of the known finding F32 (reported by the round-6 C05 agent as a side remark): on a dynamic list an element
    that already ticked in the cycle, is invalidated and written again in the SAME cycle notifies the list a second time; re-appending
    its entry corrupts the list's ring of modified elements and the per-tick delta drops the other elements written in that cycle."""
    from .prog import Case, S
    c = Case(name, 0, 6)
    c.cscripts[1] = ["0|[0]=1,[1]=2,[2]=3", "1|[1]=10,[0]=10,[1]i,[1]=11", "3|[2]=5"]
    c.graphs["main"] = [S("d", "csrc", shape="dl", uid=1), S("", "cmirror", "d", uid=10)]
    c.meta.update(sources=[{"uid": 1, "shape": "dl", "mirrors": [10]}], witness="f32")
    return c


def check_node(node, d, t, V, path, prev_value, C):
    """Compare one endpoint dump with the shadow node after the cycle's script has been applied."""
    k = node.kind
    val = dump_value(d)
    exp = node.value()
    if val != exp:
        V.append(f"{path} t={t}: value {short(val)} != expected {short(exp)}")
        return
    if k == "tss":
        add, rem = set(int(x) for x in d["add"]), set(int(x) for x in d["rem"])
        ticked = node.dt == t
        eadd, erem = (node.added, node.removed) if ticked else (set(), set())
        if add & rem:
            V.append(f"{path} t={t}: added and removed overlap {sorted(add & rem)}")
        if not add <= set(val):
            V.append(f"{path} t={t}: added {sorted(add - set(val))} not present afterwards")
        if rem & set(val):
            V.append(f"{path} t={t}: removed {sorted(rem & set(val))} still present")
        if add != eadd or rem != erem:
            V.append(f"{path} t={t}: delta added={sorted(add)} removed={sorted(rem)} but the net effect of the cycle is "
                     f"added={sorted(eadd)} removed={sorted(erem)}")
        if prev_value is not None and ticked:
            if (set(prev_value) | add) - rem != set(val):
                V.append(f"{path} t={t}: previous value + delta != value")
            if not rem <= set(prev_value):
                V.append(f"{path} t={t}: removed {sorted(rem - set(prev_value))} were not present before")
    elif k == "tsd":
        add, rem, modk = set(_key(x) for x in d["add"]), set(_key(x) for x in d["rem"]), set(_key(x) for x in d["modk"])
        ticked = node.dt == t
        eadd, erem, emod = node.delta_sets(t)
        keys = set(val)
        if add & rem:
            V.append(f"{path} t={t}: added and removed keys overlap {sorted(add & rem, key=str)}")
        if not add <= keys:
            V.append(f"{path} t={t}: added keys {sorted(add - keys, key=str)} absent afterwards")
        if rem & keys:
            V.append(f"{path} t={t}: removed keys {sorted(rem & keys, key=str)} still present")
        if add != eadd or rem != erem:
            V.append(f"{path} t={t}: key delta added={sorted(add, key=str)} removed={sorted(rem, key=str)} but net effect is "
                     f"added={sorted(eadd, key=str)} removed={sorted(erem, key=str)}")
        if modk != emod:
            V.append(f"{path} t={t}: modified keys {sorted(modk, key=str)} != keys written this cycle that survive {sorted(emod, key=str)}")
        if prev_value is not None and ticked:
            if (set(prev_value) | add) - rem != keys:
                V.append(f"{path} t={t}: previous key set + delta != key set")
            if not rem <= set(prev_value):
                V.append(f"{path} t={t}: removed keys {sorted(rem - set(prev_value), key=str)} were not present before")
        # removed values stay readable for the cycle
        for kk, rv in d.get("remv", {}).items():
            C["removed_values_read"] = C.get("removed_values_read", 0) + 1
            ch = node.removed_vals.get(_key(kk)) if ticked else None
            if ch is not None and ch.kind == "ts":
                ev = ch.value()
                if (rv != "<none>" and ev is not None and int(rv) != ev):
                    V.append(f"{path} t={t}: removed value of key {kk} reads {rv}, was {ev}")
        for kk, cd in d["items"].items():
            key = _key(kk)
            if key in node.children:
                if node.children[key].kind in ("tss", "tsd", "tsb") and cd["m"]:
                    C["nested_child_deltas"] = C.get("nested_child_deltas", 0) + 1
                pv = None
                if prev_value is not None and key in prev_value and key not in getattr(node, "readded", ()):
                    pv = prev_value[key]
                check_node(node.children[key], cd, t, V, f"{path}[{kk}]", pv, C)
    elif k in ("tsl", "tsb"):
        modi = set(d["modi"])
        emod = {i for i, c in enumerate(node.children) if t in c.wrote_at}
        if modi != emod:
            V.append(f"{path} t={t}: modified children {sorted(modi)} != children ticked this cycle {sorted(emod)}")
        if k == "tsl" and d.get("dk") is not None:
            C["list_delta_index_checks"] = C.get("list_delta_index_checks", 0) + 1
            if node.shape[1] == 0:
                C["dynamic_list_delta_checks"] = C.get("dynamic_list_delta_checks", 0) + 1
            if set(d["dk"]) != emod:
                V.append(f"{path} t={t}: the list's per-tick delta lists indices {sorted(d['dk'])} but the children ticked this cycle are "
                         f"{sorted(emod)}")
        for i, (c, cd) in enumerate(zip(node.children, d["ch"])):
            if c.kind in ("tss", "tsd", "tsb") and cd["m"]:
                C["nested_child_deltas"] = C.get("nested_child_deltas", 0) + 1
            check_node(c, cd, t, V, f"{path}.{i}", prev_value[i] if prev_value is not None and i < len(prev_value) else None, C)
    elif k == "tsw":
        C["window_ticks"] = C.get("window_ticks", 0) + 1
        if bool(d["av"]) != node.all_valid() or bool(d["v"]) != node.valid():
            V.append(f"{path} t={t}: window valid={d['v']} all_valid={d['av']} with {node.count} pushes (min {node.shape[2]})")
        if d["size"] != len(node.val):
            V.append(f"{path} t={t}: window size {d['size']} != {len(node.val)}")
        if "hasrem" in d:
            ev = node.evicted.get(t)
            if bool(d["hasrem"]) != (ev is not None) or (ev is not None and str(d["remv"]) != str(ev)):
                V.append(f"{path} t={t}: the window's removed value reads has={d['hasrem']} value={d['remv']} but this cycle's push evicted "
                         f"{ev if ev is not None else 'nothing'} (previous value + pushed - removed must be the value)")


def short(v):
    s = repr(v)
    return s if len(s) < 160 else s[:157] + "..."


def check(case, tr):
    res = Result(signature=case.text().split("\n", 1)[1])
    if tr.build_error:
        res.violations.append(Violation(f"valid program rejected at build: {tr.build_error}"))
        return res
    if case.meta.get("kind") == "win":
        return check_windows(case, tr)
    run = tr.runs[0]
    if run.error:
        res.violations.append(Violation(f"run failed: {run.error}"))
        return res
    dumps = parse_dumps(run)
    writes = write_log(run)
    C = {}
    V = []
    ticks = nonempty = cancelling = 0
    for src in case.meta["sources"]:
        node = Node(SHAPES[src["shape"]])
        wl = dict((t, ops) for t, ops in writes.get(src["uid"], []))
        planned = [int(e.split("|")[0]) for e in case.cscripts[src["uid"]] if case.start <= int(e.split("|")[0]) < case.end]
        if sorted(wl) != planned:
            V.append(f"source uid {src['uid']} wrote at {sorted(wl)[:10]} but its script says {planned[:10]}")
        for m in src["mirrors"]:
            stream = {t: d for t, d, _ in dumps.get(m, [])}
            if len(stream) != len(dumps.get(m, [])):
                V.append(f"mirror uid {m} ran twice in one cycle")
            node = Node(SHAPES[src["shape"]])
            prev = None
            for t in sorted(set(wl) | set(stream)):
                if t in wl:
                    for op in wl[t]:
                        node.apply(op, t)
                if t not in stream:
                    if t in wl:
                        V.append(f"mirror uid {m} did not tick at t={t} although the source wrote {wl[t][:4]}")
                    continue
                if t not in wl:
                    V.append(f"mirror uid {m} ticked at t={t} without a write")
                    continue
                ticks += 1
                d = stream[t]
                if "error" in d:
                    V.append(f"mirror uid {m} t={t}: reading the input threw: {d['error']}")
                    continue
                check_node(node, d, t, V, f"uid{m}", prev, C)
                if node.kind in ("tss", "tsd"):
                    if node.added or node.removed:
                        nonempty += 1
                    elif len(wl[t]) >= 2:
                        cancelling += 1
                prev = node.value()
    if case.meta.get("witness") == "f32":
        # only the known shape is classified: the list's own delta misses an element that ticked (its children's flags are right)
        hits = [m for m in V if "per-tick delta lists indices" in m]
        V = [m for m in V if m not in hits]
        for m in hits[:1]:
            res.violations.append(Violation("an element of a dynamic list that ticked, was invalidated and written again in one cycle makes the "
                                            "list's per-tick delta drop the other elements written in that cycle: " + m, MECH_F32))
    for msg in V[:6]:
        res.violations.append(Violation(msg))
    whole = [op for sc in writes.values() for _, ops in sc for op in ops if ":" in op]
    C.update({"ticks_checked": ticks, "nonempty_delta_ticks": nonempty, "cancelling_cycles": cancelling,
              "whole_set_assignments": len(whole), "whole_set_assignments_of_the_empty_set": sum(1 for op in whole if op.endswith(":"))})
    res.counters = C
    res.nontrivial = nonempty >= 3
    return res
