"""Delta-debugging shrinker for failing cases:  python -m vp.shrink <PROP> <replay.json> [out.json]

Greedily removes statements (with their dependants), scheduler ops, script entries and fault entries
while the property's own check still reports an unclassified violation on the real engine.
"""
from __future__ import annotations
import copy, importlib, json, os, subprocess, sys
from .runner import case_from_json, case_to_json, ensure_build, SCRATCH, load_known
from .trace import parse_trace


def fails(mod, exe, case, known):
    os.makedirs(SCRATCH, exist_ok=True)
    cp, tp = os.path.join(SCRATCH, f"shrink{os.getpid()}.case"), os.path.join(SCRATCH, f"shrink{os.getpid()}.trace")
    open(cp, "w").write(case.text())
    try:
        r = subprocess.run([exe, cp, tp], capture_output=True, timeout=60)
    except subprocess.TimeoutExpired:
        return False
    if r.returncode != 0:
        return False
    tr = parse_trace(tp).get(case.name)
    if tr is None or not tr.complete:
        return False
    try:
        res = mod.check(case, tr)
    except Exception:
        return False
    return any(v.mechanism not in known for v in res.violations)


def uses(st, name):
    return any(a == name or a == "~" + name for a in st.args)


def remove_stmt(case, gname, idx):
    c = copy.deepcopy(case)
    stmts = c.graphs[gname]
    dead = {idx}
    names = {stmts[idx].dst} if stmts[idx].dst else set()
    changed = True
    while changed:
        changed = False
        for k, st in enumerate(stmts):
            if k in dead:
                continue
            if any(uses(st, n) for n in names):
                if st.op == "RET":
                    return None
                dead.add(k)
                if st.dst:
                    names.add(st.dst)
                changed = True
    c.graphs[gname] = [st for k, st in enumerate(stmts) if k not in dead]
    return c


def candidates(case):
    for g in list(case.graphs):
        for k in range(len(case.graphs[g]) - 1, -1, -1):
            if case.graphs[g][k].op == "RET":
                continue
            c = remove_stmt(case, g, k)
            if c is not None:
                yield c
    for uid, by_eval in case.sched.items():
        for e, ops in by_eval.items():
            for k in range(len(ops)):
                c = copy.deepcopy(case)
                del c.sched[uid][e][k]
                yield c
    for uid, sc in case.scripts.items():
        for k in range(len(sc)):
            c = copy.deepcopy(case)
            del c.scripts[uid][k]
            yield c
    for uid, sc in case.cscripts.items():
        for k in range(len(sc)):
            c = copy.deepcopy(case)
            del c.cscripts[uid][k]
            yield c
    for k in range(len(case.faults)):
        c = copy.deepcopy(case)
        del c.faults[k]
        yield c
    if case.end - case.start > 4:
        c = copy.deepcopy(case)
        c.end = case.start + (case.end - case.start) * 2 // 3
        yield c


def shrink(mod, case):
    exe = ensure_build(mod.HARNESS)
    known = load_known()
    if not fails(mod, exe, case, known):
        print("case does not fail (unclassified) - nothing to shrink")
        return case
    progress = True
    while progress:
        progress = False
        skip = 0
        while True:
            advanced = False
            for k, c in enumerate(candidates(case)):
                if k < skip:
                    continue
                if fails(mod, exe, c, known):
                    case = c
                    progress = advanced = True
                    skip = k          # candidates after a removal shift down by one: retry the same position
                    break
            if not advanced:
                break
    # drop unused sub graphs / scripts
    return case


def main():
    prop, path = sys.argv[1], sys.argv[2]
    mod = importlib.import_module("vp." + prop.lower())
    case = case_from_json(json.load(open(path))["case"])
    small = shrink(mod, case)
    print(small.text())
    out = sys.argv[3] if len(sys.argv) > 3 else path.replace(".json", ".min.json")
    json.dump({"property": prop, "case": case_to_json(small), "case_text": small.text()}, open(out, "w"), indent=1)
    print("written", out)


if __name__ == "__main__":
    main()
