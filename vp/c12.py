"""C12 - switch_ output follows only the selected, fresh branch (per selection-epoch standalone model)."""
from __future__ import annotations
import copy
from .runner import Result, Violation, scaled
from .gen_core import ProgGen, UID, gen_script
from .prog import Case, S
from . import model as M

PROPERTY = "C12"
LEVEL = "exploration"
HARNESS = "hgdrive"
SANITIZE = "asan"      # thorough tier: same batch under -fsanitize=address,undefined
RULE = ("random branch sets (3 generated branch programs + optional default: stateless, stateful, self-scheduling with a timer "
        "pending across a switch, key-consuming, one or two held inputs, reload-on-tick) x random key histories (flips every "
        "cycle, flip in the cycle of an input tick, A-B-A-B-A, repeated equal keys, unmatched key with/without default) x input "
        "histories. Each selection epoch is simulated alone with fresh state, held inputs sampled at selection; oracle: per "
        "instance user-code runs == standalone model, switch output ticks == concatenation of the standalone outputs, one "
        "child start per epoch, previous instance stopped at the switch, unmatched key without default ends the run with an "
        "error. Non-trivial: >= 3 epochs incl. a return to an earlier key; distinct by case text")
ASSUMPTIONS = ["instances are matched to epochs by their start cycle (at most one running child)",
               "vp/model.py standalone simulation with held inputs sampled at selection is 'that branch alone'",
               "g++-12 -O1 build of the working tree with harness-side shims"]
FLOORS = {"epochs_checked": {"quick": 1200, "thorough": 20000}, "returns_to_earlier_key": {"quick": 250, "thorough": 4000},
          "instance_runs_compared": {"quick": 5000, "thorough": 80000}, "output_ticks_compared": {"quick": 1200, "thorough": 20000},
          "unmatched_key_errors": {"quick": 3, "thorough": 50}, "default_to_default_key_changes": {"quick": 30, "thorough": 500}, "twin_switches": {"quick": 25, "thorough": 400},
          "passthrough_branch_epochs": {"quick": 40, "thorough": 600},
          "set_switch_same_spec_reinstantiations": {"quick": 40, "thorough": 600}, "set_switch_epochs_dropping_earlier_elements": {"quick": 80, "thorough": 1200}}
BATCH = 20
SOLO = (1001, 1002, 1003, 1004)


def gen_case12(rng, name, idx):
    start, end = 0, rng.choice([20, 30, 45])
    c = Case(name, start, end)
    uid = UID(100)
    arity = rng.choice([1, 1, 2])
    keyed = rng.random() < 0.25
    reload = rng.random() < 0.15
    has_default = rng.random() < 0.5
    unmatched_ok = has_default
    # key history
    times = sorted(rng.sample(range(start, end), min(end - start, rng.choice([3, 6, 10, 15]))))
    if rng.random() < 0.4 and times:
        t0 = rng.choice(times)
        times = sorted(set(times) | {t for t in (t0 + 1, t0 + 2, t0 + 3) if t < end})
    keys = []
    pattern = rng.choice(["rand", "aba", "rand"])
    for i, t in enumerate(times):
        if pattern == "aba":
            k = 1 if i % 2 == 0 else 2
        else:
            # with a default branch several DIFFERENT unmatched keys occur (consecutive ones select the default branch anew)
            k = rng.choice([1, 2, 3, 3] if not unmatched_ok else [1, 2, 3, 9, 10, 11])
        keys.append((t, k))
    unmatched = idx % 15 == 14 and not has_default
    if unmatched and keys:
        j = rng.randrange(len(keys))
        keys[j] = (keys[j][0], 9)
    c.scripts[1] = keys
    c.scripts[2] = gen_script(rng, start, end, density=rng.choice([2, 5, 9]))
    c.scripts[3] = gen_script(rng, start, end, density=rng.choice([0, 3, 6]))
    main = [S("k", "src", uid=1, mode=rng.choice([0, 1])), S("a", "src", uid=2, mode=0)]
    if arity == 2:
        main.append(S("b", "src", uid=3, mode=0))
    spec = "fnk1" if keyed else ("fn1" if arity == 1 else "fn2")
    if keyed:
        arity = 1
        main = main[:2]
    c.meta.update(arity=arity, keyed=keyed, reload=reload, default=has_default, spec=spec)
    nb = 4 if has_default else 3
    next_sid = 0
    for b in range(nb):
        # a third of the branches place part of their body in a nested (or inlined) sub-graph: a nested graph that is started
        # mid-run inside a dynamic child must sample the values its boundary inputs already hold
        subs = rng.random() < 0.35
        g = ProgGen(rng, c, uid, allow_sub=subs, allow_fb=rng.random() < 0.15, allow_sched=False, max_depth=2)
        g.next_sid = next_sid
        params = ["p0", "p1"] if (keyed or arity == 2) else ["p0"]
        body = g.body(f"b{b}", params, rng.choice([1, 2, 4]) + (2 if subs else 0), 1 if subs else 5, True)
        next_sid = g.next_sid
        for st in body:
            if st.op == "src":
                st.kw["rel"] = 1
        if not keyed and rng.random() < 0.12:
            # a branch that RETURNS ITS PARAMETER: the switch output forwards the held input itself while this branch is selected
            body = [S("", "RET", rng.choice(params))]
            c.meta["passthrough_branch"] = 1
        c.graphs[f"fn{b}"] = body
    cases = ",".join(f"{k}:{spec}:{k - 1}" for k in (1, 2, 3))
    kw = dict(cases=cases)
    if has_default:
        kw["default"] = f"{spec}:3"
    if reload:
        kw["reload"] = 1
    args = ["k", "a"] + (["b"] if arity == 2 and not keyed else [])
    main.append(S("s", "switch", *args, **kw))
    main.append(S("", "rec", "s", uid=50))
    if not reload and idx % 5 == 2 and not (idx % 15 == 14 and not has_default):
        # the same switch once more with reload-on-tick: a different node, restarting its branch on every key tick
        main.append(S("s2", "switch", *args, **dict(kw, reload=1)))
        main.append(S("", "rec", "s2", uid=51))
        c.meta["twin"] = 1
    c.graphs["main"] = main
    return c


def generate(rng, tier, seed):
    n = scaled(250 if tier == "quick" else 4000)
    return [gen_case12(rng, f"c12_{seed}_{k}", k) for k in range(n)] + [gen_pair_switch(rng, f"c12_{seed}_ps{k}") for k in range(n // 5)] + \
        [gen_set_switch(rng, f"c12_{seed}_ss{k}") for k in range(n // 4)]


def sampled(ticks, t0):
    sc = [(t, v) for t, v in ticks if t >= t0]
    before = [(t, v) for t, v in ticks if t < t0]
    if before and not (sc and sc[0][0] == t0):
        sc = [(t0, before[-1][1])] + sc
    return sc


def sample_origin(ticks, t0):
    """Original time of a value that is only SAMPLED at t0 (None when the source really ticks at t0 or holds nothing)."""
    before = [t for t, v in ticks if t < t0]
    if before and not any(t == t0 for t, v in ticks):
        return before[-1]
    return None


def standalone(case, branch, t0, t1, key, kticks, aticks, bticks, emulate=False, stale_out=None, nested_unmodified=False):
    c = Case("solo", t0, t1)
    c.scripts = {u: list(sc) for u, sc in case.scripts.items()}
    main = []
    args = []
    if case.meta["keyed"]:
        c.scripts[1003] = sampled(kticks, t0)
        main.append(S("ky", "src", uid=1003, mode=1))
        args.append("ky")
    c.scripts[1001] = sampled(aticks, t0)
    main.append(S("el", "src", uid=1001, mode=1))
    args.append("el")
    if case.meta["arity"] == 2 and not case.meta["keyed"]:
        c.scripts[1002] = sampled(bticks, t0)
        main.append(S("bc", "src", uid=1002, mode=1))
        args.append("bc")
    for gname, sts in case.graphs.items():
        if gname.startswith("sub"):
            c.graphs[gname] = copy.deepcopy(sts)
    c.graphs["sub900"] = copy.deepcopy(case.graphs[f"fn{branch}"])
    main.append(S("o", "nested", *args, sid=900))
    main.append(S("", "rec", "o", uid=1004))
    c.graphs["main"] = main
    flat = M.flatten(c)
    preset = None
    if stale_out is not None:
        # known finding F11 emulation: the branch's terminal output storage is the switch node's output, which still
        # holds the previous branch's last value when the new branch starts
        rec = next(i for i in flat.insts if i.uid == 1004)
        term = rec.ins[0].target
        if term.uid not in SOLO:
            preset = {term.id: stale_out}
    si = None
    if nested_unmodified:
        # every boundary source: the original time of a value that is only sampled, None for one that really ticks at t0 (its
        # tick precedes the start of the branch in that cycle, so readers behind a nested pass-through are not woken either)
        si = {1001: sample_origin(aticks, t0), 1002: sample_origin(bticks, t0), 1003: sample_origin(kticks, t0)}
    mr = M.simulate(flat, emulate_sampled_start=emulate, preset=preset, sampled_inputs=si)
    mr.used_preset = preset is not None
    mr.used_nested_unmodified = mr.stats.get("nested_sampled_unmodified", 0) > 0
    return mr


def gen_set_switch(rng, name):
    """Branches whose result is a SET (the switch owns a collection-valued output): every instantiation - another key, the same
    key again under reload-on-tick, one unmatched key after another landing on the default branch - starts from the empty set."""
    from .prog import Case, S
    end = rng.choice([24, 36, 48])
    c = Case(name, 0, end)
    reload = rng.random() < 0.5
    has_default = rng.random() < 0.6
    pool = [1, 2, 3] + ([9, 10, 11] if has_default else [])
    val = rng.choice(pool)
    ks = [(rng.choice([1, 2]), val)]
    for t in sorted(rng.sample(range(3, end), rng.choice([4, 7, 11]))):
        r = rng.random()
        if r < 0.3 and (reload or val not in (1, 2, 3)):
            # the SAME branch spec is instantiated again: the same key re-ticks under reload, or another unmatched key arrives
            val = val if val in (1, 2, 3) else rng.choice([v for v in (9, 10, 11) if v != val])
        elif r < 0.85:
            val = rng.choice([v for v in pool if v != val])
        ks.append((t, val))
    c.scripts[1] = ks
    v, sc = 0, []
    for t in [0] + sorted(rng.sample(range(1, end), rng.choice([6, 12, 20]))):
        v += rng.choice([1, 2, 3, 5])
        sc.append((t, v))
    c.scripts[2] = sc
    mods = {}
    for b in range(4 if has_default else 3):
        mods[b] = (rng.choice([3, 5, 8]), rng.choice([0, 1, 1]))
        c.graphs[f"fn{b}"] = [S("q", "toset", "p0", uid=100 + b, mod=mods[b][0], acc=mods[b][1]), S("", "RET", "q")]
    kw = dict(cases="1:fns:0,2:fns:1,3:fns:2", out="tss")
    if has_default:
        kw["default"] = "fns:3"
    if reload:
        kw["reload"] = 1
    c.graphs["main"] = [S("k", "src", uid=1, mode=1), S("a", "src", uid=2, mode=1), S("s", "switch", "k", "a", **kw),
                        S("", "cmirror", "s", uid=50)]
    c.meta.update(kind="set_switch", reload=reload, default=has_default, mods=mods)
    return c


def check_set_switch(case, tr):
    """Oracle: at every tick of the switch output its value is the set the CURRENT instance alone has produced since it was
    created (held input sampled at the selection, then its ticks); elements written by earlier instances are gone from the
    selection cycle on, and every tick's added / removed are coherent with the previous value read."""
    from .gen_coll import parse_dumps
    from .collmodel import dump_value, _key
    res = Result(signature=case.text().split("\n", 1)[1])
    if tr.build_error or not tr.runs or tr.runs[0].error:
        res.violations.append(Violation(f"build/run failed: {tr.build_error or (tr.runs[0].error if tr.runs else 'no run')}"))
        return res
    mirror = {t: d for t, d, _ in parse_dumps(tr.runs[0]).get(50, [])}
    kt = dict((t, v) for t, v in case.scripts[1] if t < case.end)
    at = dict((t, v) for t, v in case.scripts[2] if t < case.end)
    V = []
    cur_key, branch, inst, held, last = None, None, None, None, None
    epochs = same_spec = stale_dropped = checked = 0
    prev_read = set()
    for t in range(case.start, case.end):
        if t in at:
            held = at[t]
        fresh = False
        if t in kt:
            k = kt[t]
            if cur_key is None or k != cur_key or case.meta["reload"]:
                nb = k - 1 if k in (1, 2, 3) else 3
                if branch == nb:
                    same_spec += 1
                cur_key, branch, inst, last, fresh = k, nb, set(), None, True
                epochs += 1
        if branch is None:
            if t in mirror:
                V.append(f"t={t}: the switch output ticked before any key")
            continue
        ran = fresh or t in at
        if ran and held is not None:
            m, acc = case.meta["mods"][branch]
            e = held % m
            if not acc:
                inst.clear()
            inst.add(e)
        if t in mirror:
            d = mirror[t]
            got = set(_key(x) for x in dump_value(d))
            add, rem = set(_key(x) for x in d["add"]), set(_key(x) for x in d["rem"])
            checked += 1
            if got != inst:
                V.append(f"t={t}: switch output reads {sorted(got)}; the instance selected at this point (key {cur_key}, branch {branch}"
                         f"{', created in this cycle' if fresh else ''}) has produced {sorted(inst)} on its own")
            elif (prev_read | add) - rem != got or add & rem or not add <= got or rem & got or not rem <= prev_read:
                V.append(f"t={t}: delta of the switch output (+{sorted(add)} -{sorted(rem)}) does not lead from the previous reading "
                         f"{sorted(prev_read)} to {sorted(got)}")
            if fresh and prev_read - inst:
                stale_dropped += 1
            prev_read = got
        elif ran and held is not None and fresh:
            V.append(f"t={t}: a new instance was created (key {cur_key}) and wrote {sorted(inst)} but the switch output did not tick")
    for m in V[:5]:
        res.violations.append(Violation(m))
    res.counters = {"set_switch_epochs": epochs, "set_switch_same_spec_reinstantiations": same_spec,
                    "set_switch_epochs_dropping_earlier_elements": stale_dropped, "set_switch_ticks_checked": checked}
    res.nontrivial = epochs >= 3
    return res


def gen_pair_switch(rng, name):
    """switch_ whose argument is ONE structured value assembled from two independent ports (non-peered), handed to the branches
    whole: a branch that returns the parameter itself, one that re-assembles it swapped, one that runs nodes on its elements.
    The key flips in cycles where the elements tick and in cycles where they are only held. Oracle: element j of the output
    ticks at the selection with the held value of its source element (when it holds one) and from then on exactly when that
    element ticks, with its value."""
    from .prog import Case, S
    end = rng.choice([24, 36])
    c = Case(name, 0, end)
    val = rng.choice([1, 2, 3])
    ks = [(rng.choice([0, 1, 2]), val)]
    for t in sorted(rng.sample(range(3, end), rng.choice([3, 5, 8]))):
        if rng.random() < 0.8:
            val = rng.choice([v for v in (1, 2, 3) if v != val])
        ks.append((t, val))
    c.scripts[1] = ks
    for u in (2, 3):
        c.scripts[u] = [(t, u * 1000 + t) for t in sorted(rng.sample(range(0, end), rng.choice([4, 8, 14])))]
    c.graphs["fn0"] = [S("", "RET", "p0")]
    c.graphs["fn1"] = [S("x", "elem", "p0", "1"), S("y", "elem", "p0", "0"), S("r", "pair", "x", "y"), S("", "RET", "r")]
    c.graphs["fn2"] = [S("x", "elem", "p0", "0"), S("y", "elem", "p0", "1"), S("u", "pass", "x", uid=100), S("v", "pass", "y", uid=101),
                       S("r", "pair", "u", "v"), S("", "RET", "r")]
    c.graphs["main"] = [S("k", "src", uid=1, mode=1), S("a", "src", uid=2, mode=1), S("b", "src", uid=3, mode=1), S("q", "pair", "a", "b"),
                        S("s", "switch", "k", "q", cases="1:fnp:0,2:fnp:1,3:fnp:2"), S("", "cmirror", "s", uid=50)]
    c.meta["kind"] = "pair_switch"
    return c


def check_pair_switch(case, tr):
    from .gen_coll import parse_dumps
    res = Result(signature=case.text().split("\n", 1)[1])
    if tr.build_error or not tr.runs or tr.runs[0].error:
        res.violations.append(Violation(f"build/run failed: {tr.build_error or (tr.runs[0].error if tr.runs else 'no run')}"))
        return res
    mirror = {t: d for t, d, _ in parse_dumps(tr.runs[0]).get(50, [])}
    kt = [(t, v) for t, v in case.scripts[1] if t < case.end]
    el = {0: dict((t, v) for t, v in case.scripts[2] if t < case.end), 1: dict((t, v) for t, v in case.scripts[3] if t < case.end)}
    src_of = {1: (0, 1), 2: (1, 0), 3: (0, 1)}          # branch -> source element of output element 0, 1
    expected = {}                                        # t -> {j: value}
    cur, held_sel, sel_ticks = None, 0, 0
    held = {0: None, 1: None}
    for t in range(case.start, case.end):
        for j in (0, 1):
            if t in el[j]:
                held[j] = el[j][t]
        newsel = False
        for tk, v in kt:
            if tk == t and v != cur:
                cur, newsel = v, True
        if cur is None:
            continue
        exp = {}
        for j in (0, 1):
            sj = src_of[cur][j]
            if t in el[sj] or (newsel and held[sj] is not None):
                exp[j] = held[sj]
        if newsel:
            sel_ticks += 1
            if any(t not in el[src_of[cur][j]] and held[src_of[cur][j]] is not None for j in (0, 1)):
                held_sel += 1
        if exp:
            expected[t] = exp
    V = []
    for t in sorted(set(expected) | set(mirror)):
        exp = expected.get(t, {})
        d = mirror.get(t)
        got = {j: int(ch["val"]) for j, ch in enumerate(d["ch"]) if ch["m"] and ch["v"]} if d else {}
        if got != exp and len(V) < 5:
            V.append(f"t={t}: switch output elements that ticked {got} != expected {exp} (elements tick at the selection with the held value of "
                     f"their source element and then whenever it ticks)")
    for m in V:
        res.violations.append(Violation(m))
    res.counters = {"structured_argument_switch_ticks": len(expected), "structured_argument_selections": sel_ticks,
                    "structured_argument_selections_on_held_values": held_sel}
    res.nontrivial = held_sel >= 1
    return res


def check(case, tr):
    if case.meta.get("kind") == "pair_switch":
        return check_pair_switch(case, tr)
    if case.meta.get("kind") == "set_switch":
        return check_set_switch(case, tr)
    if not case.meta.get("twin") or tr.build_error or not tr.runs:
        return check_one(case, tr, bool(case.meta["reload"]), 50, None)
    # two switch_ calls over the same key, arguments and case table that differ ONLY in reload-on-tick are two nodes
    owners = sorted({int(tk[2]) for _, k, tk in tr.runs[0].events if k == "G+" and int(tk[1]) == 0})
    if len(owners) == 1 and not tr.runs[0].error:
        res = Result(signature=case.text().split("\n", 1)[1])
        res.violations.append(Violation("two switch_ calls that differ only in their reload-on-tick policy were merged into one node "
                                        "(all branch instances belong to node %d): one of the two outputs follows the wrong policy" % owners[0]))
        res.counters = {"twin_switches": 1}
        return res
    r1 = check_one(case, tr, False, 50, owners[0] if owners else None)
    r2 = check_one(case, tr, True, 51, owners[1] if len(owners) > 1 else -1)
    r1.violations += r2.violations
    for k, v in r2.counters.items():
        r1.counters[k] = r1.counters.get(k, 0) + v
    r1.counters["twin_switches"] = 1
    return r1


def check_one(case, tr, reload, rec_uid, owner):
    res = Result(signature=case.text().split("\n", 1)[1])
    if tr.build_error:
        res.violations.append(Violation(f"valid program rejected at build: {tr.build_error}"))
        return res
    run = tr.runs[0]
    V, known, known2, known3 = [], [], [], []
    kt = [(t, v) for t, v in case.scripts[1] if case.start <= t < case.end]
    at = [(t, v) for t, v in case.scripts[2] if case.start <= t < case.end]
    bt = [(t, v) for t, v in case.scripts[3] if case.start <= t < case.end]
    # selection epochs
    epochs = []
    cur = None
    err_at = None
    for t, k in kt:
        if cur is not None and k == cur["key"] and not reload:
            continue
        branch = k - 1 if k in (1, 2, 3) else (3 if case.meta["default"] else None)
        if cur is not None:
            cur["stop"] = t
        if branch is None:
            err_at = t
            cur = None
            break
        cur = {"key": k, "branch": branch, "start": t, "stop": None}
        epochs.append(cur)
    if err_at is not None:
        # an unmatched key with no default branch is an error
        if run.error is None:
            V.append(f"key at t={err_at} matches no branch and there is no default, but the run completed normally")
        res.counters = {"unmatched_key_errors": 1 if run.error else 0}
        last = max([int(tk[1]) for _, k, tk in run.events if k == "C<" and tk[0] == "0"] + [-1])
        if last > err_at:
            V.append(f"cycles continued (last t={last}) after the unmatched key at t={err_at}")
        for m in V:
            res.violations.append(Violation(m))
        res.nontrivial = True
        return res
    if run.error:
        res.violations.append(Violation(f"run failed: {run.error[:300]}"))
        return res
    inst_runs, gstart, gstop, gparent = {}, {}, {}, {}
    foreign = set()
    tnow = None
    for seq, kind, tk in run.events:
        if kind == "C<" and tk[0] == "0":
            tnow = int(tk[1])
        elif kind == "G+":
            if owner is not None and int(tk[1]) == 0 and int(tk[2]) != owner:
                foreign.add(int(tk[0]))         # a branch instance of the other switch
                continue
            if int(tk[1]) in foreign:
                foreign.add(int(tk[0]))
                continue
            gparent[int(tk[0])] = int(tk[1])
            gstart[int(tk[0])] = tnow if tnow is not None else case.start
        elif kind == "G->":
            gstop[int(tk[0])] = tnow
    out_ticks = []
    for ue in run.uevals():
        if ue.uid == rec_uid:
            out_ticks.append((ue.t, ue.ins[0][3]))
        if gparent.get(ue.gid, -1) >= 0:
            top = ue.gid
            while gparent.get(top, 0) > 0:          # nested graphs inside a branch belong to the branch instance
                top = gparent[top]
            d = inst_runs.setdefault(top, {})
            if (ue.uid, ue.t) in d:
                V.append(f"branch instance {ue.gid}: uid {ue.uid} ran twice at t={ue.t}")
            d[(ue.uid, ue.t)] = (ue.out, [(x[0], x[3]) for x in ue.ins])
    children = sorted((gstart[g], g) for g, p in gparent.items() if p == 0)
    if len(children) != len(epochs):
        V.append(f"{len(children)} branch instances were created for {len(epochs)} selections (epochs start at {[e['start'] for e in epochs][:8]}, "
                 f"instances at {[t for t, _ in children][:8]})")
    by_start = {t: g for t, g in children}
    runs_cmp = 0
    exp_out = []
    returns = 0
    seen_keys = set()
    for e in epochs:
        if e["key"] in seen_keys:
            returns += 1
        seen_keys.add(e["key"])
        t1 = e["stop"] if e["stop"] is not None else case.end
        mr = standalone(case, e["branch"], e["start"], t1, e["key"], kt, at, bt)
        gid = by_start.get(e["start"])
        exp = {(u, t): (o, [(x[0], x[3]) for x in ins]) for (u, t), (o, ins) in mr.runs.items() if u not in SOLO}
        got = inst_runs.get(gid, {}) if gid is not None else {}
        if got != exp:
            prev_out = [v for t, v in out_ticks if t < e["start"]]
            po = prev_out[-1] if prev_out else None
            for emu, stale, nun in ((True, None, False), (False, po, False), (True, po, False), (False, None, True), (True, None, True),
                                    (False, po, True), (True, po, True)):
                if not emu and stale is None and not nun:
                    continue
                mr2 = standalone(case, e["branch"], e["start"], t1, e["key"], kt, at, bt, emulate=emu, stale_out=stale, nested_unmodified=nun)
                exp2 = {(u, t): (o, [(x[0], x[3]) for x in ins]) for (u, t), (o, ins) in mr2.runs.items() if u not in SOLO}
                if got == exp2 and (mr2.sampled or mr2.used_preset or mr2.used_nested_unmodified):
                    if mr2.used_nested_unmodified:
                        known3.append(f"epoch at t={e['start']}: nodes behind a nested boundary inside the newly selected branch do not see "
                                      f"the held inputs' values present at the selection as ticks (not modified / not woken through a nested "
                                      f"pass-through), the same nodes inlined in the branch do")
                    if mr2.sampled:
                        known.append(f"epoch at t={e['start']}: all-Unchecked node(s) {mr2.sampled[:3]} ran at branch start on an unset held input")
                    if mr2.used_preset:
                        known2.append(f"epoch at t={e['start']}: nodes of the new branch read the branch's own (not yet ticked) output as valid "
                                      f"with the previous branch's last value {stale}")
                    mr, exp = mr2, exp2
                    break
        runs_cmp += len(exp)
        if got != exp:
            missing = sorted(set(exp) - set(got))[:4]
            extra = sorted(set(got) - set(exp))[:4]
            diff = [(k, got[k], exp[k]) for k in sorted(set(got) & set(exp)) if got[k] != exp[k]][:2]
            V.append(f"selection of key {e['key']} at t={e['start']} (until {e['stop']}): branch instance differs from the branch run alone "
                     f"with fresh state: missing runs {missing}, extra runs {extra}, value differences {diff}")
        if gid is not None and e["stop"] is not None and gstop.get(gid) != e["stop"]:
            V.append(f"branch selected at t={e['start']} was stopped at t={gstop.get(gid)} instead of the switch at t={e['stop']}")
        exp_out += [(t, ins[0][3]) for (u, t), (o, ins) in sorted(mr.runs.items(), key=lambda kv: kv[0][1]) if u == 1004]
    if sorted(out_ticks) != sorted(exp_out):
        missing = [x for x in exp_out if x not in out_ticks][:5]
        extra = [x for x in out_ticks if x not in exp_out][:5]
        V.append(f"switch output ticks differ from the selected branches' outputs: missing {missing}, unexpected {extra}")
    for m in V[:6]:
        res.violations.append(Violation(m))
    if known3:
        res.violations.append(Violation(known3[0], "nested-in-dynamic-child-sampled-input-not-modified"))
    if known:
        res.violations.append(Violation(known[0], "nested-start-samples-unset-source"))
    if known2:
        res.violations.append(Violation(known2[0], "switch-branch-terminal-retains-previous-output"))
    res.counters = {"epochs_checked": len(epochs), "returns_to_earlier_key": returns, "instance_runs_compared": runs_cmp,
                    "output_ticks_compared": len(exp_out),
                    "default_to_default_key_changes": sum(1 for a, b in zip(epochs, epochs[1:])
                                                          if a["key"] not in (1, 2, 3) and b["key"] not in (1, 2, 3))}
    res.counters["passthrough_branch_epochs"] = sum(1 for e in epochs if e["branch"] is not None and
                                                    [st.op for st in case.graphs.get(f"fn{e['branch']}", [])] == ["RET"])
    res.nontrivial = len(epochs) >= 3 and returns >= 1
    return res
