"""Debug helper: python -m vp.dbg <replay.json>  -> prints case, model cycles/runs vs trace."""
import json, sys, os, subprocess
from .runner import case_from_json, ensure_build, SCRATCH
from .trace import parse_trace
from . import model as M

d = json.load(open(sys.argv[1]))
c = case_from_json(d["case"])
exe = ensure_build("hgdrive")
os.makedirs(SCRATCH, exist_ok=True)
cp, tp = os.path.join(SCRATCH, "dbg.case"), os.path.join(SCRATCH, "dbg.trace")
open(cp, "w").write(c.text())
subprocess.run([exe, cp, tp])
tr = parse_trace(tp)[c.name]
flat = M.flatten(c)
mr = M.simulate(flat)
print(c.text())
print("violation:", d.get("violation", {}).get("what"))
run = tr.runs[0]
got = [int(tk[1]) for _, k, tk in run.events if k == "C<" and int(tk[0]) == 0]
print("trace cycles:", got)
print("model cycles:", mr.cycles)
filt = set(sys.argv[2:])
for seq, k, tk in run.events:
    if k.startswith("u.") and (not filt or tk[0] in filt):
        print(k, " ".join(tk))
