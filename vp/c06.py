"""C06 - behaviour depends on the dataflow only: wiring order metamorphic relation + node sharing (interning) counts."""
from __future__ import annotations
import copy, re
from .runner import Result, Violation, scaled
from .gen_core import gen_case
from .prog import S, Stmt
from . import model as M
from .c03 import classify_with_emulations, compare_runs

PROPERTY = "C06"
LEVEL = "exploration"
HARNESS = "hgdrive"
RULE = ("each generated program (with deliberately duplicated sub-expressions: same definition, same inputs, same scalars; "
        "near-duplicates differing in exactly one input or one scalar; duplicated sinks) is wired under k random admissible "
        "statement orders, some uses re-routed consumer-before-producer through delayed bindings. All orders must give the same "
        "node count, the same per-definition instance counts, identical user-code runs and streams (also vs the model); exact "
        "duplicates share one instance, near-duplicates and sinks stay distinct. Non-trivial: >= 1 duplicate and >= 2 orders "
        "that actually differ; distinct by text")
ASSUMPTIONS = ["an instance is counted by its own start log (one u.start per constructed node instance)",
               "vp/model.py for behaviour", "g++-12 -O1 build of the working tree with harness-side shims"]
FLOORS = {"order_pairs_compared": {"quick": 400, "thorough": 6000}, "shared_duplicates": {"quick": 150, "thorough": 2500},
          "distinct_near_duplicates": {"quick": 150, "thorough": 2500}, "duplicated_sinks": {"quick": 100, "thorough": 1500},
          "delayed_reroutes": {"quick": 100, "thorough": 1500}, "chained_delayed_reroutes": {"quick": 25, "thorough": 400}, "packed_parameter_near_duplicates": {"quick": 100, "thorough": 1500},
          "shared_nodes_with_two_error_captures": {"quick": 60, "thorough": 1000}, "captured_error_values_compared": {"quick": 60, "thorough": 1000}}
BATCH = 24


def add_duplicates(rng, case):
    """Returns expectations: uid -> expected instance count."""
    expect = {}
    next_uid = 1 + max([s.uid() or 0 for g in case.graphs.values() for s in g] + [0])
    for gname in list(case.graphs):
        sts = case.graphs[gname]
        out = []
        alias = {}           # original dst -> list of equivalent names
        for st in sts:
            # downstream statements may use any equivalent name
            st = Stmt(st.dst, st.op, [pick_alias(rng, alias, a) for a in st.args], dict(st.kw))
            out.append(st)
            if st.op in ("pass", "add2", "add3", "acc", "count", "sample", "gate", "halfgate", "delay") and st.dst and rng.random() < 0.25:
                kind = rng.choice(["exact", "exact", "scalar", "input", "passive"])
                dup = Stmt(st.dst + "_d", st.op, list(st.args), dict(st.kw))
                if kind == "exact":
                    alias.setdefault(st.dst, [st.dst]).append(dup.dst)
                    expect[st.uid()] = ("shared", gname)
                    out.append(dup)
                elif kind == "scalar" and st.op == "delay":
                    # same definition, same input, same uid; differs ONLY in the scalar k
                    dup.kw["k"] = int(st.kw.get("k", 1)) + rng.choice([1, 2])
                    expect[st.uid()] = ("distinct2", gname)
                    out.append(dup)
                    out.append(S("", "rec", dup.dst, uid=next_uid))
                    out.append(S("", "rec", st.dst, uid=next_uid + 1))
                    next_uid += 2
                elif kind == "passive" and st.op in ("add2", "add3") and not any(a.startswith("~") for a in st.args):
                    # same definition, same uid, same inputs; differs ONLY in a passive() marker on the last input
                    dup.args[-1] = "~" + dup.args[-1]
                    expect[st.uid()] = ("distinct2", gname)
                    out.append(dup)
                    out.append(S("", "rec", dup.dst, uid=next_uid))
                    out.append(S("", "rec", st.dst, uid=next_uid + 1))
                    next_uid += 2
                elif kind == "input":
                    cands = [s.dst for s in out if s.dst and s.dst != st.dst and s.op not in ("fb", "delayed", "inline", "nested")]
                    # parameters of the sub-graph too (for a packed call these are projections of ONE structured parameter)
                    params = sorted({a.lstrip("~") for s in sts for a in s.args if re.fullmatch(r"~?p\d+", a)})
                    if params and rng.random() < 0.5:
                        cands = params
                    if cands and st.args:
                        k = rng.randrange(len(st.args))
                        new = rng.choice(cands)
                        canon = {d: o for o, ds in alias.items() for d in ds}
                        if canon.get(new, new) != canon.get(st.args[k].lstrip("~"), st.args[k].lstrip("~")):
                            # same definition, same uid and scalars; differs ONLY in one input
                            dup.args[k] = new
                            expect[st.uid()] = ("distinct2", gname)
                            out.append(dup)
                            out.append(S("", "rec", dup.dst, uid=next_uid))
                            out.append(S("", "rec", st.dst, uid=next_uid + 1))
                            next_uid += 2
            elif st.op == "rec" and rng.random() < 0.3:
                out.append(Stmt("", "rec", list(st.args), dict(st.kw)))
                expect[st.uid()] = ("sink2", gname)
        case.graphs[gname] = out
    if rng.random() < 0.5:
        # side-effecting nodes with neither a time-series input nor an output (heartbeats), wired twice with EQUAL scalars and
        # once with different ones: every wiring stays its own node
        u = 1 + max([s.uid() or 0 for g in case.graphs.values() for s in g] + [0])
        g = rng.choice([gn for gn in case.graphs if gn == "main" or gn.startswith("sub")])
        per, cnt = rng.choice([1, 2, 3]), rng.choice([2, 3])
        beacons = [S("", "beacon", uid=u, period=per, count=cnt), S("", "beacon", uid=u, period=per, count=cnt),
                   S("", "beacon", uid=u + 1, period=per + 1, count=cnt)]
        sts = case.graphs[g]
        ret = [st for st in sts if st.op == "RET"]
        body = [st for st in sts if st.op != "RET"]
        for b in beacons:
            body.insert(rng.randrange(len(body) + 1), b)
        case.graphs[g] = body + ret
        expect[u] = ("sink2", g)
        case.meta["beacons"] = 1
    return expect


def add_packed_family(rng, case, expect):
    """A nested (or, as control, inlined) call whose two arguments travel as ONE structured parameter; inside, the same
    definition with equal scalars is applied to both projections - the two wirings differ in exactly one input."""
    main = case.graphs["main"]
    ports = [st.dst for st in main if st.dst and st.op not in ("fb", "delayed")]
    if len(ports) < 2:
        return 0
    a, b = rng.sample(ports, 2)
    sid = 1 + max([int(g[3:]) for g in case.graphs if g.startswith("sub")] + [-1])
    u = 1 + max([s.uid() or 0 for g in case.graphs.values() for s in g] + [0])
    op = rng.choice(["pass", "acc", "count", "delay"])
    kw = {"k": rng.choice([1, 2, 3])} if op == "delay" else {}
    body = [S("x", op, "p0", uid=u, **kw), S("y", op, "p1", uid=u, **kw), S("", "rec", "x", uid=u + 1), S("", "rec", "y", uid=u + 2),
            S("z", "add2", "x", "y", uid=u + 3), S("", "RET", "z")]
    case.graphs[f"sub{sid}"] = body
    how = "nested" if rng.random() < 0.8 else "inline"
    main.append(S("pk_", how, a, b, sid=sid, pack=1))
    main.append(S("", "rec", "pk_", uid=u + 4))
    expect[u] = ("distinct2", f"sub{sid}")
    return 1


def canon_key(inst, memo):
    """Structural identity of a node as the wiring intern table sees it: same definition, scalars and (recursively) same
    inputs in the same graph instance are one node - exact duplicates collapse, everything else stays distinct."""
    if inst.id in memo:
        return memo[inst.id]
    memo[inst.id] = ("cyc", inst.id)
    if inst.op in ("fb", "const") or inst.uid is None:
        k = ("id", inst.id)
    else:
        k = (inst.op, inst.uid, tuple(sorted((a, str(b)) for a, b in inst.kw.items())), inst.path,
             tuple((canon_key(r.target, memo), r.passive) for r in inst.ins))
    memo[inst.id] = k
    return k


def add_error_capture_twice(rng, case):
    """Error capture requested twice on ONE node instance (two requests on the same port, in either statement order) with
    different levels of detail; whichever request is wired first, both error outputs must report the merged detail."""
    main = case.graphs["main"]
    uses = {}
    for g in case.graphs.values():
        for st in g:
            if st.uid() is not None:
                uses[st.uid()] = uses.get(st.uid(), 0) + 1
    # the fault plan addresses a definition by its uid: only a node that is wired exactly once (no duplicates of any kind)
    cands = [st for st in main if st.op in ("pass", "add2", "add3", "acc", "count") and st.dst and uses.get(st.uid()) == 1]
    if not cands:
        return 0
    x = rng.choice(cands)
    u = 1 + max([s.uid() or 0 for g in case.graphs.values() for s in g] + [0])
    weak, strong = dict(depth=rng.choice([0, 1]), values=0), dict(depth=rng.choice([2, 3]), values=1)
    main.append(S("ec1_", "err", x.dst, **weak))
    main.append(S("ec2_", "err", x.dst, **strong))
    main.append(S("", "recerr", "ec1_", uid=u))
    main.append(S("", "recerr", "ec2_", uid=u + 1))
    case.faults = [(x.uid(), "eval", o) for o in sorted(rng.sample(range(1, 8), 2))]
    case.meta["errtwice"] = x.uid()
    return 1


def add_error_capture_pair(rng, case):
    """Error capture with DIFFERENT levels of detail on two different nodes of one definition (same schemas, different inputs and
    scalars): each error output reports the detail of its own request, whichever request is wired first (and whatever an
    earlier graph of the process asked for)."""
    main = case.graphs["main"]
    ports = [st.dst for st in main if st.dst and st.op in ("src", "ticker", "pass", "add2", "acc", "count")]
    if len(ports) < 2:
        return 0
    a, b = rng.sample(ports, 2)
    u = 1 + max([s.uid() or 0 for g in case.graphs.values() for s in g] + [0])
    op = rng.choice(["pass", "acc", "count"])
    weak, strong = dict(depth=rng.choice([0, 1]), values=0), dict(depth=rng.choice([2, 3]), values=1)
    if rng.random() < 0.5:
        weak, strong = strong, weak
    main += [S("ep1_", op, a, uid=u), S("ep2_", op, b, uid=u + 1), S("eq1_", "err", "ep1_", **weak), S("eq2_", "err", "ep2_", **strong),
             S("", "recerr", "eq1_", uid=u + 2), S("", "recerr", "eq2_", uid=u + 3)]
    case.faults = [(u, "eval", o) for o in sorted(rng.sample(range(1, 6), 2))] + [(u + 1, "eval", o) for o in sorted(rng.sample(range(1, 6), 2))]
    case.meta["errpair"] = [u, u + 1]
    case.meta["errpair_values"] = {str(u + 2): weak["values"], str(u + 3): strong["values"]}
    return 1


def pick_alias(rng, alias, a):
    pas = a.startswith("~")
    n = a[1:] if pas else a
    if n in alias:
        n = rng.choice(alias[n])
    return ("~" + n) if pas else n


def shuffle_order(rng, case, reroute=True):
    c = copy.deepcopy(case)
    rer = 0
    for gname, sts in c.graphs.items():
        # optional consumer-before-producer re-routing through delayed bindings (main graph only)
        if reroute and gname == "main":
            new, tail = [], []
            for st in sts:
                if st.op in ("pass", "add2", "acc", "count") and st.args and rng.random() < 0.1 and not st.args[0].startswith("~"):
                    d = f"dl{len(new)}"
                    new.append(S(d, "delayed"))
                    if rng.random() < 0.4:
                        # a forwarded forward declaration: the placeholder is bound to a SECOND placeholder, which is bound to the
                        # port (either binding may be wired first)
                        d2 = f"dm{len(new)}"
                        new.append(S(d2, "delayed"))
                        tail.append(S("", "bindd", d, d2))
                        tail.append(S("", "bindd", d2, st.args[0]))
                        c.meta["chained_reroutes"] = c.meta.get("chained_reroutes", 0) + 1
                    else:
                        tail.append(S("", "bindd", d, st.args[0]))
                    st = Stmt(st.dst, st.op, [d] + st.args[1:], dict(st.kw))
                    rer += 1
                new.append(st)
            sts = new + tail
        defs = {}
        for k, st in enumerate(sts):
            if st.dst:
                defs[st.dst] = k
        deps = {k: set() for k in range(len(sts))}
        last_ret = [k for k, st in enumerate(sts) if st.op == "RET"]
        for k, st in enumerate(sts):
            for a in st.args:
                n = a.lstrip("~")
                if n in defs and defs[n] != k:
                    # a delayed-bound name only needs its `delayed` statement, which defs[] points at
                    deps[k].add(defs[n])
            if st.op == "RET":
                deps[k] |= set(range(len(sts))) - {k}
        order, done = [], set()
        ready = [k for k in deps if not deps[k]]
        while ready:
            k = ready.pop(rng.randrange(len(ready)))
            order.append(k)
            done.add(k)
            for j in deps:
                if j not in done and j not in ready and deps[j] <= done:
                    ready.append(j)
        assert len(order) == len(sts), (gname, len(order), len(sts))
        c.graphs[gname] = [sts[k] for k in order]
    c.meta["reroutes"] = rer
    return c


def generate(rng, tier, seed):
    n = scaled(120 if tier == "quick" else 2000)
    cases = []
    for k in range(n):
        base = gen_case(rng, f"c06_{seed}_{k}", n_nodes=rng.choice([4, 7, 12, 20]), max_depth=1)
        expect = add_duplicates(rng, base)
        base.meta["packed"] = add_packed_family(rng, base, expect) if k % 3 == 0 else 0
        base.meta["errtwice_n"] = add_error_capture_twice(rng, base) if k % 4 == 1 else 0
        base.meta["errpair_n"] = add_error_capture_pair(rng, base) if k % 4 == 3 else 0
        # a near-duplicate that differs in one input NAME may still read the same port (pass-through sub-graphs, a call that
        # passes one port twice): then the two wirings are exact duplicates and sharing is permitted
        try:
            flat0 = M.flatten(base)
            memo = {}
            for u, (kind, gname) in list(expect.items()):
                if kind != "distinct2":
                    continue
                groups = {}
                for i in flat0.insts:
                    if i.uid == u:
                        groups.setdefault(i.path, []).append((tuple((canon_key(r.target, memo), r.passive) for r in i.ins),
                                                              tuple(sorted(i.kw.items()))))
                if any(len(set(g)) < len(g) for g in groups.values()):
                    expect[u] = ("shared", gname)
        except M.FlattenError:
            pass
        base.meta["expect"] = {str(u): list(v) for u, v in expect.items()}
        base.meta["group"] = base.name
        base.meta["dup_uids"] = [int(u) for u, v in expect.items() if v[0] in ("shared", "sink2")]
        base.meta["skip_uids"] = [int(u) for u, v in expect.items() if v[0] == "distinct2"]
        orders = [base] + [shuffle_order(rng, base) for _ in range(3 if tier == "quick" else 5)]
        gname = base.name
        for j, c in enumerate(orders):
            c.name = f"{gname}_o{j}"
            c.meta["group"] = gname
            c.meta["dup_uids"] = base.meta["dup_uids"]
            c.meta["skip_uids"] = base.meta["skip_uids"]
            c.meta["expect"] = base.meta["expect"]
            c.meta["packed"] = base.meta["packed"]
            c.meta["errtwice_n"] = base.meta["errtwice_n"]
            c.meta["errpair_n"] = base.meta["errpair_n"]
            if base.meta.get("errpair"):
                c.meta["errpair"] = base.meta["errpair"]
                c.meta["errpair_values"] = base.meta["errpair_values"]
            c.meta["order"] = j
            cases.append(c)
    return cases


_groups = {}


def check(case, tr):
    res = Result(signature=case.text().split("\n", 1)[1])
    if tr.build_error:
        res.violations.append(Violation(f"admissible wiring order rejected at build: {tr.build_error}"))
        return res
    run = tr.runs[0]
    if run.error:
        res.violations.append(Violation(f"run failed: {run.error}"))
        return res
    flat = M.flatten(case)
    cap = {case.meta["errtwice"]} if case.meta.get("errtwice") is not None else ()
    if case.meta.get("errpair"):
        cap = set(case.meta["errpair"])
    mr = M.simulate(flat, captured=cap)
    mism = compare_runs(case, run, mr)
    known_dev = False
    if mism and cap:
        for flags in ({"emulate_sampled_start": True}, {"emulate_stale": True}, {"emulate_sampled_start": True, "emulate_stale": True}):
            mr2 = M.simulate(flat, captured=cap, **flags)
            if (mr2.stale or mr2.sampled or mr2.stale_armed) and not compare_runs(case, run, mr2):
                mr, mism, known_dev = mr2, [], True
                break
    if mism:
        mr, vs = classify_with_emulations(case, flat, run, mism)
        res.violations += vs
        known_dev = all(v.mechanism for v in vs)
    starts = {}
    for seq, kind, tk in run.events:
        if kind == "u.start":
            starts[int(tk[0])] = starts.get(int(tk[0]), 0) + 1
    # how many call sites instantiate the graph a statement lives in (inline sub-graphs are instantiated once per call site)
    shared = distinct = sinks = 0
    site_count = {"main": 1}
    for g, sts in case.graphs.items():
        for st in sts:
            if st.op in ("inline", "nested"):
                site_count[f"sub{st.kw['sid']}"] = site_count.get(f"sub{st.kw['sid']}", 0) + 1
    for u, (kind, gname) in case.meta["expect"].items():
        u = int(u)
        n = starts.get(u, 0)
        mult = site_count.get(gname, 1)
        if kind == "shared":
            # sharing is permitted, not required: one instance (shared) or two (not shared) per call site
            if n == mult:
                shared += 1
            elif n != 2 * mult:
                res.violations.append(Violation(f"definition uid {u} wired twice with equal inputs and scalars has {n} instances, expected {mult} or {2 * mult}"))
        elif kind == "distinct2":
            distinct += 1
            if n != 2 * mult:
                res.violations.append(Violation(f"two wirings of definition uid {u} that differ in exactly one input or scalar have {n} instance(s), expected {2 * mult} (must stay distinct)"))
        elif kind == "sink2":
            sinks += 1
            if n != 2 * mult:
                res.violations.append(Violation(f"sink uid {u} wired twice has {n} instances, expected {2 * mult} (sinks are never shared)"))
    nodes = len(tr.bgraph.get("root", {}).get("nodes", []))
    streams = {}
    skip = set(case.meta.get("skip_uids", []))
    for ue in run.uevals():
        # set semantics per uid: a legitimately unshared duplicate logs the same (t, out, ins) twice
        if ue.uid in skip:
            continue
        streams.setdefault(ue.uid, set()).add((ue.t, ue.out, tuple(ue.ins)))
    # captured error values (time, message, complete error value) are output streams too
    err_events = 0
    own_detail = 0
    for seq, kind, tk in run.events:
        if kind == "u.err" and tk[0] in case.meta.get("errpair_values", {}):
            # each node's error output carries the detail of ITS OWN request (input values in the back trace iff asked for)
            want = bool(case.meta["errpair_values"][tk[0]])
            has = "value=" in " ".join(tk[5:])
            own_detail += 1
            if has != want and len(res.violations) < 6:
                res.violations.append(Violation(f"error output uid {tk[0]} at t={tk[3]}: captured with values={int(want)} but the error value "
                                                f"{'carries' if has else 'does not carry'} input values - it follows another node's capture request: "
                                                f"{' '.join(tk[5:])[:160]}"))
    for seq, kind, tk in run.events:
        if kind == "u.err":
            # (node indices inside a back trace are ranks, which legitimately depend on the statement order)
            streams.setdefault(("err", int(tk[0])), set()).add((int(tk[3]), tuple(re.sub(r"\[\d+\]", "[]", x) for x in tk[5:])))
            err_events += 1
    grp = _groups.setdefault(case.meta["group"], [])
    pairs = 0
    for other_order, other_nodes, other_streams, other_dev, other_starts, other_text in grp:
        if other_text == res.signature:
            continue
        pairs += 1
        if not (known_dev or other_dev) and other_streams != streams:
            bad = [u for u in set(other_streams) | set(streams) if other_streams.get(u) != streams.get(u)]
            res.violations.append(Violation(f"wiring orders {case.meta['order']} and {other_order} of the same dataflow differ on uids {sorted(bad)[:6]}"))
    grp.append((case.meta["order"], nodes, streams, known_dev, starts, res.signature))
    res.counters = {"order_pairs_compared": pairs, "shared_duplicates": shared, "distinct_near_duplicates": distinct,
                    "duplicated_sinks": sinks, "delayed_reroutes": case.meta.get("reroutes", 0), "chained_delayed_reroutes": case.meta.get("chained_reroutes", 0), "runs_compared": len(mr.runs),
                    "packed_parameter_near_duplicates": case.meta.get("packed", 0),
                    "shared_nodes_with_two_error_captures": case.meta.get("errtwice_n", 0), "captured_error_values_compared": err_events,
                    "node_pairs_with_different_capture_options": case.meta.get("errpair_n", 0), "own_capture_detail_checks": own_detail}
    res.nontrivial = (shared + distinct + sinks) >= 1 and pairs >= 1
    return res
