"""C03 - user code runs exactly when it should, on the latest values (model equality)."""
from __future__ import annotations
from .runner import Result, Violation, scaled
from .gen_core import gen_case
from .prog import S
from . import model as M

PROPERTY = "C03"
LEVEL = "exploration"
HARNESS = "hgdrive"
RULE = ("random dataflow programs over the instrumented TS<Int> vocabulary (sources, stateful/stateless compute, passive, "
        "unchecked/all-valid selectors, delay timers, feedback, inlined and nested sub-graphs) with random tick histories; "
        "a case is non-trivial when the model saw at least one closed readiness gate, passive-only tick or timer+input "
        "coincidence; distinct = distinct (program, history) text")
ASSUMPTIONS = ["vp/model.py is a faithful reading of the documented semantics for the harness vocabulary",
               "g++-12 -O1 build of the working tree with harness-side shims for <chrono> I/O, simdjson and named time zones",
               "instrumented harness nodes log truthfully from inside user code"]
FLOORS = {"runtime_passive_quiet_cycles": {"quick": 100, "thorough": 1500}, "runtime_passive_woken_by_the_other_list": {"quick": 100, "thorough": 1500}, "runs_compared": {"quick": 2000, "thorough": 20000}, "gate_closed": {"quick": 20, "thorough": 200},
          "passive_only_ticks": {"quick": 10, "thorough": 100}, "partially_wired_all_valid_consumers": {"quick": 40, "thorough": 600}}
BATCH = 25


def add_pair_gates(rng, case):
    """Consumers with a trigger and a PASSIVE structural bundle {a, b} behind the all-valid selector (and, as control, the
    default selector), wired fully and with the partial named initializer (field b is then a null source that never holds a
    value: the all-valid consumer must never run, the default one runs once a is valid)."""
    main = case.graphs["main"]
    ports = [st.dst for st in main if st.dst and st.op in ("src", "ticker", "pass", "add2", "add3", "acc", "count", "sample", "delay")]
    if len(ports) < 2:
        return 0
    u = 1 + max([s.uid() or 0 for g in case.graphs.values() for s in g] + [0])
    n = 0
    for _ in range(rng.choice([1, 2, 3])):
        op = rng.choice(["pairall", "pairall", "pairany"])
        args = [rng.choice(ports) for _ in range(rng.choice([2, 2, 3]))]
        main.append(S(f"pg{u}", op, *args, uid=u))
        main.append(S("", "rec", f"pg{u}", uid=u + 1))
        u += 2
        n += 1
    return n


def generate(rng, tier, seed):
    n = scaled(500 if tier == "quick" else 8000)
    cases = [gen_case(rng, f"c03_{seed}_{k}", allow_sched=(k % 4 == 3)) for k in range(n)]     # (every 4th: scheduler-script nodes)
    extra = []
    for k in range(n // 4):
        c = gen_case(rng, f"c03_{seed}_pg{k}", n_nodes=rng.choice([3, 5, 8]), max_depth=1)
        c.meta["pair_gates"] = add_pair_gates(rng, c)
        extra.append(c)
    return cases + extra + [gen_gate4(rng, f"c03_{seed}_g4{k}") for k in range(n // 5)]


def gen_gate4(rng, name):
    """A node with two structural inputs, each assembled from two independent ports, that switches one of them passive AT RUN TIME
    (make_passive() at its n-th evaluation) and sometimes active again: ticks of the passive list alone do not run it, ticks of
    the other list - whichever argument position it has - still do."""
    from .prog import Case, S
    end = rng.choice([30, 45, 60])
    c = Case(name, 0, end)
    v = 0
    for u in (1, 2, 3, 4):
        sc = []
        for t in sorted(rng.sample(range(0, end), rng.choice([3, 6, 10, 16]))):
            v += 1
            sc.append((t, v))
        c.scripts[u] = sc
    drop = rng.choice([0, 1, 1, 2])
    at = rng.choice([1, 2, 3, 5])
    back = rng.choice([0, 0, at + rng.choice([2, 4, 7])])
    c.graphs["main"] = [S("a", "src", uid=1, mode=1), S("b", "src", uid=2, mode=1), S("c", "src", uid=3, mode=1), S("d", "src", uid=4, mode=1),
                        S("g", "gate4", "a", "b", "c", "d", uid=10, drop=drop, at=at, back=back), S("", "rec", "g", uid=11)]
    c.meta.update(kind="gate4", drop=drop, at=at, back=back)
    return c


def check_gate4(case, tr):
    res = Result(signature=case.text().split("\n", 1)[1])
    if tr.build_error or not tr.runs or tr.runs[0].error:
        res.violations.append(Violation(f"build/run failed: {tr.build_error or (tr.runs[0].error if tr.runs else 'no run')}"))
        return res
    run = tr.runs[0]
    ticks = {u: dict((t, v) for t, v in case.scripts[u] if t < case.end) for u in (1, 2, 3, 4)}
    got = {ue.t: ue.out for ue in run.uevals() if ue.uid == 10}
    drop, at, back = case.meta["drop"], case.meta["at"], case.meta["back"]
    passive, n = None, 0
    held = {u: None for u in (1, 2, 3, 4)}
    V = []
    runs = quiet = woken_by_other = 0
    for t in range(case.start, case.end):
        for u in (1, 2, 3, 4):
            if t in ticks[u]:
                held[u] = ticks[u][t]
        x_t = any(t in ticks[u] for u in (1, 2))
        y_t = any(t in ticks[u] for u in (3, 4))
        expect = (x_t and passive != 0) or (y_t and passive != 1)
        if not expect and (x_t or y_t):
            quiet += 1
        if expect and passive is not None and ((passive == 1 and x_t and not y_t) or (passive == 0 and y_t and not x_t)):
            woken_by_other += 1
        if expect != (t in got):
            V.append(f"t={t}: the node {'did not run' if expect else 'ran'}; list xs {'ticked' if x_t else 'did not tick'}, ys "
                     f"{'ticked' if y_t else 'did not tick'}, passive at run time: {['xs', 'ys'][passive] if passive is not None else 'none'} "
                     f"(make_passive at evaluation {at}, make_active at evaluation {back or 'never'}; {n} evaluations so far)")
            if len(V) >= 3:
                break
            if t not in got:
                continue
        if t in got:
            runs += 1
            n += 1
            exp = sum(x for x in held.values() if x is not None)
            if got[t] != exp:
                V.append(f"t={t}: the node wrote {got[t]}, the latest values of its four leaves sum to {exp}")
            if n == at and drop in (0, 1):
                passive = drop
            if back and n == back:
                passive = None
    for m in V[:4]:
        res.violations.append(Violation(m))
    res.counters = {"runtime_passive_runs_compared": runs, "runtime_passive_quiet_cycles": quiet, "runtime_passive_woken_by_the_other_list": woken_by_other}
    res.nontrivial = quiet >= 1 and woken_by_other >= 1
    return res


def compare_runs(case, run, mr, label="model"):
    """Returns list of mismatch strings between trace user-code runs and the model's."""
    out = []
    seen = {}
    dups_ok = set(int(u) for u in case.meta.get("dup_uids", []))
    skip = set(int(u) for u in case.meta.get("skip_uids", []))
    for ue in run.uevals():
        if ue.uid in skip:
            continue
        key = (ue.uid, ue.t)
        if key in seen and (ue.uid not in dups_ok or (seen[key].gid, seen[key].idx) == (ue.gid, ue.idx)):
            out.append(f"uid {ue.uid} user code ran twice at t={ue.t}")
            continue
        seen[key] = ue
        exp = mr.runs.get(key)
        if exp is None:
            out.append(f"extra run: uid {ue.uid} ran at t={ue.t} (out={ue.out}, ins={ue.ins}); {label} has no run there")
            continue
        eout, eins = exp
        if eout == "THROW":
            continue
        if eout != ue.out:
            out.append(f"uid {ue.uid} t={ue.t}: wrote {ue.out}, {label} expects {eout}")
        if [tuple(x) for x in eins] != [tuple(x) for x in ue.ins]:
            out.append(f"uid {ue.uid} t={ue.t}: read inputs (valid,modified,lmt,value) {ue.ins}, {label} expects {eins}")
    for key, (eout, _) in mr.runs.items():
        if key[0] in skip:
            continue
        if key not in seen and eout != "THROW":
            out.append(f"missing run: {label} expects uid {key[0]} to run at t={key[1]}")
    return out


_BASE = ({}, {"emulate_sampled_start": True}, {"emulate_stale": True}, {"emulate_sampled_start": True, "emulate_stale": True})
EMULATIONS = tuple(f for f in _BASE if f) + tuple(dict(f, emulate_boundary_ref=True) for f in _BASE)
BOUNDARY_REF_MSG = ("a reference selection inside a nested graph switched to an argument that is an unset reference produced outside "
                    "the graph: inside the child it reads as a valid empty reference and is published, the readers lose their target "
                    "(inline the selection keeps its previous target): (selector uid,t)=%s")


def classify_with_emulations(case, flat, run, mism, compare=None):
    """The spec model disagrees with the trace. Re-run the model with the emulations of the recorded known
    findings switched on; if (and only if) the trace then matches exactly and the emulation actually produced
    the extra runs, the disagreement is that known finding. Anything else is an unclassified violation."""
    compare = compare or compare_runs
    for flags in EMULATIONS:
        mr2 = M.simulate(flat, **flags)
        if not (mr2.stale or mr2.sampled or mr2.stale_armed or mr2.boundary_refs):
            continue
        if compare(case, run, mr2):
            continue
        vs = []
        if mr2.boundary_refs:
            vs.append(Violation(BOUNDARY_REF_MSG % (mr2.boundary_refs[:3],), "nested-boundary-unset-reference-reads-valid-empty",
                                {"selections": mr2.boundary_refs[:10]}))
        if mr2.sampled:
            vs.append(Violation(f"node with an all-Unchecked validity gate inside a nested graph ran at child start "
                                f"although its boundary source never ticked: (uid,t)={mr2.sampled[:3]}",
                                "nested-start-samples-unset-source", {"runs": mr2.sampled[:10]}))
        if mr2.stale or mr2.stale_armed:
            vs.append(Violation(f"node stays armed / user code ran at a cancelled wake-up time: runs (uid,t)={mr2.stale[:3]} "
                                f"armed (uid,t,slot)={mr2.stale_armed[:3]}",
                                "cancelled-wakeup-still-evaluates", {"runs": mr2.stale[:10], "armed": mr2.stale_armed[:10]}))
        return mr2, vs
    return M.simulate(flat), [Violation("; ".join(mism[:4]), None, {"mismatches": mism[:20]})]


def check(case, tr):
    res = Result(signature=case.text().split("\n", 1)[1])
    if tr.build_error:
        res.violations.append(Violation(f"valid program rejected at build: {tr.build_error}"))
        return res
    if case.meta.get("kind") == "gate4":
        return check_gate4(case, tr)
    flat = M.flatten(case)
    mr = M.simulate(flat)
    run = tr.runs[0]
    if run.error:
        res.violations.append(Violation(f"run failed: {run.error}"))
        return res
    mism = compare_runs(case, run, mr)
    if mism:
        mr, vs = classify_with_emulations(case, flat, run, mism)
        res.violations += vs
    res.counters = {"runs_compared": len(mr.runs), "cycles": len(mr.cycles),
                    "gate_closed": mr.stats.get("gate_closed", 0),
                    "passive_only_ticks": mr.stats.get("passive_only_ticks", 0),
                    "timer_and_input": mr.stats.get("timer_and_input", 0),
                    "structural_bundle_gate_consumers": case.meta.get("pair_gates", 0),
                    "partially_wired_all_valid_consumers": sum(1 for st in case.graphs["main"] if st.op == "pairall" and len(st.args) == 2)}
    res.nontrivial = any(mr.stats.get(k, 0) for k in ("gate_closed", "passive_only_ticks", "timer_and_input")) and len(mr.runs) > 3
    return res
