"""Parser of hgdrive traces into per-case / per-run event lists."""
from __future__ import annotations
from dataclasses import dataclass, field


def _num(tok):
    if tok == "-" or tok == "~":
        return None
    try:
        return int(tok)
    except ValueError:
        return tok


@dataclass
class UEval:
    seq: int
    uid: int
    gid: int
    idx: int
    t: int
    out: object                    # int | None
    ins: list                      # [(valid, modified, lmt, value|None)]


@dataclass
class Run:
    index: int
    events: list = field(default_factory=list)       # (seq, kind, [tokens]) in order
    status: str = "?"
    returned_seq: int = -1
    released_seq: int = -1
    error: str | None = None

    def of(self, *kinds):
        ks = set(kinds)
        return [e for e in self.events if e[1] in ks]

    def uevals(self):
        out = []
        for seq, kind, tk in self.events:
            if kind != "u.eval":
                continue
            uid, gid, idx, t = int(tk[0]), int(tk[1]), int(tk[2]), int(tk[3])
            o = _num(tk[4])
            n = int(tk[5])
            ins = []
            p = 6
            for _ in range(n):
                v, m, lmt, val = int(tk[p]), int(tk[p + 1]), int(tk[p + 2]), _num(tk[p + 3])
                ins.append((v, m, lmt, val))
                p += 4
            out.append(UEval(seq, uid, gid, idx, t, o, ins))
        return out


@dataclass
class CaseTrace:
    name: str
    start: int = 0
    end: int = 0
    build_error: tuple | None = None
    bgraph: dict = field(default_factory=dict)       # tag -> {"nodes":[(idx,label,schema,kind)], "edges":[(src,kind,tgt,plen,p0)]}
    runs: list = field(default_factory=list)
    complete: bool = False


def parse_trace(path) -> dict:
    cases = {}
    cur = None
    run = None
    seq = 0
    with open(path, "r", errors="replace") as f:
        for line in f:
            tk = line.split()
            if not tk:
                continue
            kind = tk[0]
            seq += 1
            if kind == "CASE":
                cur = CaseTrace(tk[1], int(tk[2]), int(tk[3]))
                cases[cur.name] = cur
                run = None
                seq = 0
                continue
            if cur is None:
                continue
            if kind == "ENDCASE":
                cur.complete = True
                cur = None
                run = None
                continue
            if kind == "X.build":
                cur.build_error = (tk[1], " ".join(tk[2:]))
                continue
            if kind == "B.graph":
                cur.bgraph.setdefault(tk[1], {"nodes": [], "edges": [], "depth": int(tk[4])})
                continue
            if kind == "B.node":
                cur.bgraph[tk[1]]["nodes"].append((int(tk[2]), tk[3], tk[4], int(tk[5])))
                continue
            if kind == "B.edge":
                cur.bgraph[tk[1]]["edges"].append((int(tk[2]), int(tk[3]), int(tk[4]), int(tk[5]), int(tk[6])))
                continue
            if kind == "RUN":
                run = Run(int(tk[1]))
                cur.runs.append(run)
                continue
            if run is None:
                continue
            if kind == "RUN.returned":
                run.returned_seq = seq
                run.events.append((seq, kind, tk[1:]))
                continue
            if kind == "RUN.released":
                run.released_seq = seq
                run.status = tk[2]
                run.events.append((seq, kind, tk[1:]))
                continue
            if kind == "X.run":
                run.error = " ".join(tk[2:])
            run.events.append((seq, kind, tk[1:]))
    return cases
