"""Common driver: build, fan-out of case batches over worker processes, verdict and evidence.

Every property module exposes
    PROPERTY, LEVEL, HARNESS, RULE, ASSUMPTIONS
    generate(rng, tier, seed) -> list[Case]
    check(case, ctrace) -> Result
and is run through `run_property`.
"""
from __future__ import annotations
import concurrent.futures as cf
import hashlib, json, os, random, shutil, subprocess, sys, time
from dataclasses import dataclass, field, asdict

from .prog import Case, Stmt
from .trace import parse_trace

VERIF = os.path.dirname(os.path.dirname(os.path.abspath(__file__)))
BUILD_ROOT = os.environ.get("VERIF_BUILD_ROOT", os.path.join(VERIF, ".build"))
SCRATCH = os.environ.get("VERIF_SCRATCH", os.path.join(VERIF, "scratch"))
# VERIF_OUT redirects replays and evidence (used when the checks are pointed at a scratch tree with a seeded change)
OUT = os.environ.get("VERIF_OUT", VERIF)
REPLAYS = os.path.join(OUT, "replays")
EVIDENCE = os.path.join(OUT, "evidence")
PY = "/venv/bin/python"


@dataclass
class Violation:
    what: str                    # human readable one-liner
    mechanism: str | None = None  # classification key for known_findings.json
    detail: dict = field(default_factory=dict)


@dataclass
class Result:
    violations: list = field(default_factory=list)
    counters: dict = field(default_factory=dict)        # monitor evaluation counters (summed over cases)
    signature: object = None                            # hashable: distinctness key of the case
    nontrivial: bool = False
    inconclusive: str | None = None


class Inconclusive(Exception):
    pass


def ensure_build(harness: str, flavour: str = "plain") -> str:
    env = dict(os.environ)
    env["HGRAPH_VERIF"] = "1"
    r = subprocess.run([PY, os.path.join(VERIF, "build", "build.py"), "harness", harness, "--flavour", flavour, "--quiet"],
                       env=env, capture_output=True, text=True)
    if r.returncode != 0:
        sys.stderr.write(r.stdout[-4000:] + r.stderr[-8000:])
        raise Inconclusive(f"build failed ({harness}/{flavour})")
    return os.path.join(BUILD_ROOT, flavour, harness)


def case_to_json(c: Case) -> dict:
    d = asdict(c)
    d["scripts"] = {str(k): v for k, v in c.scripts.items()}
    d["cscripts"] = {str(k): v for k, v in c.cscripts.items()}
    d["sched"] = {str(k): {str(e): ops for e, ops in v.items()} for k, v in c.sched.items()}
    d.pop("meta", None)
    d["meta"] = {k: v for k, v in c.meta.items() if isinstance(v, (str, int, float, list, dict, bool, type(None)))}
    return d


def case_from_json(d: dict) -> Case:
    c = Case(d["name"], d["start"], d["end"], dict(d.get("opts", {})))
    c.scripts = {int(k): [tuple(x) for x in v] for k, v in d.get("scripts", {}).items()}
    c.cscripts = {int(k): list(v) for k, v in d.get("cscripts", {}).items()}
    c.sched = {int(k): {int(e): list(ops) for e, ops in v.items()} for k, v in d.get("sched", {}).items()}
    c.faults = [tuple(x) for x in d.get("faults", [])]
    c.graphs = {g: [Stmt(s["dst"], s["op"], list(s["args"]), dict(s["kw"])) for s in stmts] for g, stmts in d.get("graphs", {}).items()}
    c.meta = dict(d.get("meta", {}))
    return c


def _run_batch(exe, batch_dir, idx, cases, timeout, env_extra=None, extra_args=()):
    cf_path = os.path.join(batch_dir, f"b{idx}.case")
    tr_path = os.path.join(batch_dir, f"b{idx}.trace")
    with open(cf_path, "w") as f:
        for c in cases:
            f.write(c.text())
    env = dict(os.environ)
    if env_extra:
        env.update(env_extra)
    t0 = time.time()
    try:
        r = subprocess.run([exe, cf_path, tr_path, *extra_args], capture_output=True, text=True, timeout=timeout, env=env)
        rc, err = r.returncode, r.stderr[-4000:]
    except subprocess.TimeoutExpired as e:
        rc, err = "timeout", (e.stderr or b"")[-2000:] if isinstance(e.stderr, bytes) else ""
    return idx, rc, err, tr_path, time.time() - t0


def run_cases(exe, cases, tag, batch_size=25, workers=8, timeout=300, env_extra=None, extra_args=()):
    """Returns (traces: name->CaseTrace, crashes: [(case_name, rc, stderr)])."""
    batch_dir = os.path.join(SCRATCH, tag)
    shutil.rmtree(batch_dir, ignore_errors=True)
    os.makedirs(batch_dir, exist_ok=True)
    batches = [cases[i:i + batch_size] for i in range(0, len(cases), batch_size)]
    traces, crashes = {}, []
    pending = list(enumerate(batches))
    with cf.ThreadPoolExecutor(workers) as ex:
        futs = [ex.submit(_run_batch, exe, batch_dir, i, b, timeout, env_extra, extra_args) for i, b in pending]
        for fu in cf.as_completed(futs):
            idx, rc, err, tr_path, secs = fu.result()
            got = parse_trace(tr_path) if os.path.exists(tr_path) else {}
            traces.update({k: v for k, v in got.items() if v.complete})
            if rc != 0:
                # the first case of the batch without a complete trace is the one that took the process down
                names = [c.name for c in batches[idx]]
                culprit = next((n for n in names if n not in got or not got[n].complete), names[-1])
                crashes.append((culprit, rc, err))
                rest = [c for c in batches[idx] if c.name not in traces and c.name != culprit]
                if rest:
                    sub_t, sub_c = run_cases(exe, rest, f"{tag}.r{idx}", batch_size, 1, timeout, env_extra, extra_args)
                    traces.update(sub_t)
                    crashes += sub_c
            try:
                os.unlink(tr_path)
            except OSError:
                pass
    return traces, crashes


def scaled(n):
    """Workload size knob for soak runs: VERIF_SCALE multiplies every tier's case count (default 1; floors are unchanged)."""
    try:
        f = float(os.environ.get("VERIF_SCALE", "1"))
    except ValueError:
        f = 1.0
    return max(1, int(n * f))


def load_known():
    p = os.path.join(VERIF, "known_findings.json")
    if not os.path.exists(p):
        return {}
    with open(p) as f:
        data = json.load(f)
    return {e["mechanism"]: e for e in data.get("findings", []) if e.get("status") == "known"}


def write_replay(prop, case: Case, violation: Violation, extra=None):
    d = os.path.join(REPLAYS, prop)
    os.makedirs(d, exist_ok=True)
    path = os.path.join(d, f"{case.name}.json")
    with open(path, "w") as f:
        json.dump({"property": prop, "case": case_to_json(case), "violation": asdict(violation), "extra": extra or {},
                   "case_text": case.text()}, f, indent=1)
    return path


def write_evidence(prop, tier, seed, level, coverage, assumptions, wall, violations):
    os.makedirs(EVIDENCE, exist_ok=True)
    ev = {"property_id": prop, "tier": tier, "seed": seed, "level": level, "coverage": coverage,
          "assumptions": assumptions, "wall_s": round(wall, 2), "violations": violations}
    tmp = os.path.join(EVIDENCE, f".{prop}.json.tmp")
    with open(tmp, "w") as f:
        json.dump(ev, f, indent=1, default=str)
    os.replace(tmp, os.path.join(EVIDENCE, f"{prop}.json"))


def sig_hash(obj) -> str:
    return hashlib.sha1(repr(obj).encode()).hexdigest()[:16]


def run_property(mod, tier, seed, replay=None):
    """Generic generate -> run -> monitor -> verdict loop. Returns process exit code."""
    t0 = time.time()
    prop = mod.PROPERTY
    try:
        exe = ensure_build(mod.HARNESS)
    except Inconclusive as e:
        print(f"INCONCLUSIVE property={prop} reason={e}")
        return 2
    if replay:
        with open(replay) as f:
            cases = [case_from_json(json.load(f)["case"])]
    else:
        rng = random.Random(f"{prop}/{seed}/{tier}")
        cases = mod.generate(rng, tier, seed)
    workers = int(os.environ.get("VERIF_WORKERS", "16" if tier == "thorough" else "8"))
    traces, crashes = run_cases(exe, cases, f"{prop}.{tier}.{seed}", getattr(mod, "BATCH", 25), workers,
                                getattr(mod, "TIMEOUT", 300))
    known = load_known()
    counters, sigs, nontrivial_sigs = {}, set(), set()
    hard, known_hits, inconc = [], {}, []
    hard_unit = []
    by_name = {c.name: c for c in cases}
    for name, rc, err in crashes:
        v = Violation(f"harness process died (rc={rc}) while running this case", "process-crash", {"stderr": err[-1500:]})
        hard.append((by_name[name], v))
    checked = 0
    samples = []
    for c in cases:
        tr = traces.get(c.name)
        if tr is None:
            if not any(c.name == n for n, _, _ in crashes):
                inconc.append(f"no trace for {c.name}")
            continue
        try:
            res = mod.check(c, tr)
        except Exception as e:   # monitor bug: never a verdict about the code
            import traceback
            traceback.print_exc()
            inconc.append(f"monitor error on {c.name}: {e!r}")
            continue
        checked += 1
        for k, v in res.counters.items():
            counters[k] = counters.get(k, 0) + v
        if res.signature is not None:
            h = sig_hash(res.signature)
            sigs.add(h)
            if res.nontrivial:
                nontrivial_sigs.add(h)
        if res.inconclusive:
            inconc.append(f"{c.name}: {res.inconclusive}")
        if len(samples) < 3 and res.nontrivial:
            samples.append({"case": c.name, "text": c.text()[:1500], "counters": res.counters})
        for v in res.violations:
            if v.mechanism in known:
                known_hits.setdefault(v.mechanism, []).append((c, v))
            else:
                hard.append((c, v))
    # second oracle on the same workload: the tree compiled with AddressSanitizer + UBSan (thorough tier / VERIF_ASAN=1)
    san_cov = {}
    if getattr(mod, "SANITIZE", None) and not replay and (tier == "thorough" or os.environ.get("VERIF_ASAN") == "1"):
        try:
            sexe = ensure_build(mod.HARNESS, mod.SANITIZE)
            sub = cases[: min(len(cases), int(os.environ.get("VERIF_ASAN_CASES", "800")))]
            env = {"ASAN_OPTIONS": "detect_leaks=0:halt_on_error=1:abort_on_error=0:exitcode=99:allocator_may_return_null=1",
                   "UBSAN_OPTIONS": "print_stacktrace=1:halt_on_error=1:exitcode=98"}
            straces, scrashes = run_cases(sexe, sub, f"{prop}.{tier}.{seed}.san", getattr(mod, "BATCH", 25), workers,
                                          getattr(mod, "TIMEOUT", 300) * 4, env_extra=env)
            reports = 0
            for name, rc, err in scrashes:
                sanit = ("AddressSanitizer" in err) or ("runtime error:" in err) or rc in (98, 99)
                what = (f"sanitizer report (rc={rc}) under the {mod.SANITIZE} build while running this case: " + err[-900:]) if sanit \
                    else f"harness process died (rc={rc}) under the {mod.SANITIZE} build while running this case"
                hard.append((by_name[name], Violation(what, "sanitizer-report" if sanit else "process-crash", {"stderr": err[-3000:]})))
                reports += 1
            san_cov = {"flavour": mod.SANITIZE, "cases_run": len(straces) + len(scrashes), "reports": reports}
        except Inconclusive as e:
            inconc.append(str(e))
    unit_cov = {}
    if hasattr(mod, "unit_phase") and not replay:
        try:
            up = mod.unit_phase(tier, seed)
        except Inconclusive as e:
            up = {"violations": [], "counters": {}, "coverage": {}}
            inconc.append(str(e))
        for k, v in up["counters"].items():
            counters[k] = counters.get(k, 0) + v
        unit_cov = up["coverage"]
        for name, v, payload in up["violations"]:
            d = os.path.join(REPLAYS, prop)
            os.makedirs(d, exist_ok=True)
            path = os.path.join(d, f"{name}.json")
            with open(path, "w") as f:
                json.dump({"property": prop, "unit": payload, "violation": asdict(v)}, f, indent=1)
            if v.mechanism in known:
                known_hits.setdefault(v.mechanism, []).append((Case(name), v))
            else:
                print(f"VIOLATION property={prop} replay={path}")
                print(f"  {v.what}")
                unit_hard = True
                hard_unit.append(v)
    wall = time.time() - t0
    floors = getattr(mod, "FLOORS", {})
    low = [k for k, fl in floors.items() if counters.get(k, 0) < fl.get(tier, 1)] if not replay else []
    coverage = {
        "evaluations": checked,
        "distinct_nontrivial": len(nontrivial_sigs),
        "rule": mod.RULE,
        "samples": samples or [{"case": cases[0].name, "text": cases[0].text()[:1500]}] if cases else [],
        "distinct_cases": len(sigs),
        "monitor_counters": counters,
        "cases_generated": len(cases),
        "process_crashes": len(crashes),
        "known_finding_hits": {k: len(v) for k, v in known_hits.items()},
        "inconclusive_notes": inconc[:10],
    }
    if unit_cov:
        coverage["unit_phase"] = unit_cov
    if san_cov:
        coverage["sanitizer_pass"] = san_cov
    if hasattr(mod, "extra_coverage"):
        coverage.update(mod.extra_coverage())
    if not replay:
        write_evidence(prop, tier, seed, mod.LEVEL, coverage, mod.ASSUMPTIONS, wall, len(hard) + len(hard_unit))
    for mech, hits in known_hits.items():
        c, v = hits[0]
        print(f"KNOWN-FINDING: property={prop} {mech}: {v.what} ({len(hits)} case(s), e.g. {c.name})")
    if hard:
        shown = 0
        per_case = {}
        for c, v in hard:
            per_case.setdefault(c.name, (c, []))[1].append(v)
        for cname, (c, vs) in per_case.items():
            path = write_replay(prop, c, vs[0], {"all_violations": [asdict(v) for v in vs[:20]]})
            if shown < 5:
                print(f"VIOLATION property={prop} replay={path}")
                for v in vs[:3]:
                    print(f"  {v.what}")
                shown += 1
        print(f"{prop}: {len(hard)} violation(s) in {checked} cases ({wall:.1f}s)")
        return 1
    if hard_unit:
        print(f"{prop}: {len(hard_unit)} unit-phase violation(s) ({wall:.1f}s)")
        return 1
    if inconc or low or checked == 0:
        why = "; ".join(inconc[:3] + [f"counter {k}={counters.get(k, 0)} below floor" for k in low])
        print(f"INCONCLUSIVE property={prop} {why}")
        return 2
    print(f"{prop}: held on {checked} cases, {len(nontrivial_sigs)} distinct non-trivial ({wall:.1f}s) counters={json.dumps(counters)}")
    return 0
