import argparse, importlib, os, sys
from .runner import run_property


def main():
    ap = argparse.ArgumentParser()
    ap.add_argument("prop")
    ap.add_argument("--tier", default=os.environ.get("VERIF_TIER", "quick"), choices=["quick", "thorough"])
    ap.add_argument("--seed", type=int, default=int(os.environ.get("VERIF_SEED", "0")))
    ap.add_argument("--replay")
    a = ap.parse_args()
    mod = importlib.import_module("vp." + a.prop.lower())
    if hasattr(mod, "main"):
        sys.exit(mod.main(a.tier, a.seed, a.replay))
    sys.exit(run_property(mod, a.tier, a.seed, a.replay))


main()
