"""C19 - operator resolution picks the unique most specific match, consistently (data-driven overload families on the
tree's OperatorRegistry, checked against an independent unifier, singleton resolutions and all registration orders)."""
from __future__ import annotations
import itertools, os, random, re, subprocess, time
from .runner import Violation, Inconclusive, ensure_build, SCRATCH, write_evidence, REPLAYS, load_known, scaled
import json

PROPERTY = "C19"
LEVEL = "exploration"
RULE = ("overload families = subsets (size 1-5) of a pool of 22 candidate signatures (concrete, generic in the scalar, generic "
        "in the whole time-series, repeated variables, TSL with size variable / fixed size, TSD with key and value variables, "
        "TSS, constrained scalar variables, REF and SIGNAL parameters; arity 1 and 2) registered through "
        "OperatorRegistry::register_overload in every permutation (<= 4 candidates) or sampled orders, resolved against "
        "argument tuples from a universe of 15 schemas. Oracle: identical outcome in every registration order; outcome "
        "consistent with the singleton resolutions of the same candidates (no match <=> none matches alone; unique minimum "
        "rank wins; tie at the minimum => ambiguity error); the selected candidate matches per an independent unifier with "
        "one binding per variable and the reported output == substitution; the winner is never strictly subsumed by another "
        "matching candidate (REF/SIGNAL excluded from the subsumption relation). Non-trivial: >= 2 candidates match; distinct "
        "by (family set, arguments)")
ASSUMPTIONS = ["candidates are registered as data (OperatorImpl with ParamPattern/TypePattern, rank = operator_rank(params)), the path "
               "the Python bridge uses; the statically typed register_overload<Op, Impl> front-end produces the same OperatorImpl",
               "the independent unifier (vp/c19.py) is the reading of 'parameters really match the supplied types'",
               "g++-12 -O1 build of the working tree with harness-side shims"]
FLOORS = {"resolutions": {"quick": 4000, "thorough": 100000}, "families_with_competition": {"quick": 220, "thorough": 8000}, "size_hinted_families_with_competition": {"quick": 12, "thorough": 80},
          "ambiguity_errors": {"quick": 20, "thorough": 500}, "no_match_errors": {"quick": 100, "thorough": 3000},
          "orders_compared": {"quick": 2500, "thorough": 60000}, "mirrored_signature_checks": {"quick": 200, "thorough": 400},
          "inheritance_families_with_unequal_distances": {"quick": 200, "thorough": 2500}, "inheritance_ties": {"quick": 40, "thorough": 500}}

POOL = {
    "ci": "TS(int)->TS(int)",
    "cs": "TS(str)->TS(str)",
    "gs": "TS($T)->TS($T)",
    "gn": "TS($T:int/float)->TS($T)",
    "gt": "#S->#S",
    "ls": "TSL(#E,%N)->#E",
    "lt": "TSL(TS($T),%N)->TS($T)",
    "l3": "TSL(TS(int),3)->TS(int)",
    "dv": "TSD($K,#V)->#V",
    "di": "TSD(int,#V)->#V",
    "dt": "TSD($K,TS($T))->TS($T)",
    "ss": "TSS($T)->TS($T)",
    "sg": "SIGNAL->TS(int)",
    "rf": "REF(#S)->#S",
    "ri": "REF(TS(int))->TS(int)",
    "dr": "TSD($K,REF(TS($T)))->TS($T)",          # REF / SIGNAL leaves BELOW a collection pattern: the input-direction rules
    "dsg": "TSD($K,SIGNAL)->TS(int)",              # (REF[X] accepts a plain X, SIGNAL accepts anything) apply at any depth
    "lr": "TSL(REF(TS($T)),%N)->TS($T)",
    "lsg": "TSL(SIGNAL,%N)->TS(int)",
    "cii": "TS(int),TS(int)->TS(int)",
    "gss": "TS($T),TS($T)->TS($T)",
    "gsu": "TS($T),TS($U)->TS($T)",
    "gtt": "#S,#S->#S",
    "gtu": "#S,#U->#S",
    "gis": "TS(int),#S->#S",
    "gsi": "#S,TS(int)->#S",
    "pe": "#S,TSL(#S,%N)->#S",
    "pr": "TSL(#S,%N),#S->#S",
    "psl": "TS($T),TSL(#U,%N)->TS($T)",
    "pls": "TSL(#U,%N),TS($T)->TS($T)",
    "pdd": "TS($K),TSD($K,#V)->#V",
    "ci2": "TS(int)->TS(int)",
    "gs2": "TS($T)->TS($T)",
    "gtt2": "#S,#S->#S",
}
UNIVERSE = ["TSB(Quote)", "TSB(Spread)", "TSB(U)", "TSB(Trade)", "TSL(TSB(Quote),3)", "TSD(int,TSB(Spread))",
            "TS(int)", "TS(str)", "TS(float)", "TS(bool)", "TSL(TS(int),3)", "TSL(TS(str),2)", "TSL(TSL(TS(int),3),2)",
            "TSD(int,TS(str))", "TSD(str,TS(int))", "TSD(int,TSL(TS(int),3))", "TSS(int)", "TSS(str)", "REF(TS(int))",
            "REF(TSL(TS(int),3))", "SIGNAL", "TSD(str,REF(TS(int)))", "TSL(REF(TS(int)),3)"]


SMALL = ["TSB(Quote)", "TSB(Spread)", "TSB(U)", "TS(int)", "TS(str)", "TS(float)", "TSL(TS(int),3)", "REF(TS(int))"]


# ---- tiny parser of the pattern language ------------------------------------------------------------
def parse(text):
    pos = 0

    def ident():
        nonlocal pos
        b = pos
        while pos < len(text) and (text[pos].isalnum() or text[pos] == "_"):
            pos += 1
        return text[b:pos]

    def eat(lit):
        nonlocal pos
        if text.startswith(lit, pos):
            pos += len(lit)
            return True
        return False

    def scalar():
        if eat("$"):
            name = ident()
            cons = []
            if eat(":"):
                cons.append(ident())
                while eat("/"):
                    cons.append(ident())
            return ("svar", name, tuple(cons))
        return ("scalar", ident())

    def ts():
        if eat("#"):
            return ("tvar", ident())
        if eat("SIGNAL"):
            return ("SIGNAL",)
        if eat("TSL("):
            e = ts()
            eat(",")
            n = ("nvar", ident()) if eat("%") else ("n", int(ident()))
            eat(")")
            return ("TSL", e, n)
        if eat("TSD("):
            k = scalar()
            eat(",")
            v = ts()
            eat(")")
            return ("TSD", k, v)
        if eat("TSS("):
            e = scalar()
            eat(")")
            return ("TSS", e)
        if eat("TSB("):
            name = ident()
            eat(")")
            return ("TSBN", name)          # a nominal bundle type: identity is the NAME (Quote and Spread share their field list)
        if eat("REF("):
            t = ts()
            eat(")")
            return ("REF", t)
        if eat("TS("):
            v = scalar()
            eat(")")
            return ("TS", v)
        raise ValueError(text[pos:])

    return ts()


def render(p):
    k = p[0]
    if k == "scalar":
        return p[1]
    if k == "TS":
        return f"TS[{render(p[1])}]"
    if k == "TSS":
        return f"TSS[{render(p[1])}]"
    if k == "TSL":
        return f"TSL[{render(p[1])},{p[2][1]}]"
    if k == "TSD":
        return f"TSD[{render(p[1])},{render(p[2])}]"
    if k == "REF":
        return f"REF[{render(p[1])}]"
    if k == "SIGNAL":
        return "SIGNAL"
    if k == "TSBN":
        return "TSB{bid:TS[int],ask:TS[int]}" if p[1] == "U" else p[1]
    return "?"


def nz(name):
    """normalise an engine schema name: no blanks, Size[n] -> n"""
    return re.sub(r"Size\[(\d+)\]", r"\1", name.replace("_", "").replace(" ", ""))


def deref(c):
    while c[0] == "REF":
        c = c[1]
    return c


def match(p, c, env):
    """One-way unification of pattern p against concrete schema c; env: var -> bound term."""
    k = p[0]
    if k == "SIGNAL":
        return True                       # an input SIGNAL accepts any time-series
    if k == "REF":
        return match(p[1], deref(c), env)
    c = deref(c)                          # REF-transparent input compatibility
    if k == "tvar":
        return bind(env, "#" + p[1], c)
    if k != c[0]:
        return False
    if k == "TS" or k == "TSS":
        return match_scalar(p[1], c[1], env)
    if k == "TSL":
        if p[2][0] == "nvar":
            if not bind(env, "%" + p[2][1], c[2]):
                return False
        elif p[2] != c[2]:
            return False
        return match(p[1], c[1], env)
    if k == "TSD":
        return match_scalar(p[1], c[1], env) and match(p[2], c[2], env)
    return False


def match_scalar(p, c, env):
    if p[0] == "svar":
        if p[2] and c[1] not in p[2]:
            return False
        return bind(env, "$" + p[1], c)
    return p == c


def bind(env, name, term):
    if name in env:
        return env[name] == term
    env[name] = term
    return True


def subst(p, env):
    k = p[0]
    if k == "tvar":
        return env.get("#" + p[1])
    if k == "svar":
        return env.get("$" + p[1])
    if k in ("scalar", "SIGNAL", "n"):
        return p
    if k == "nvar":
        return env.get("%" + p[1])
    return (k,) + tuple(subst(x, env) if isinstance(x, tuple) else x for x in p[1:])


def has_refsig(p):
    if not p or p[0] in ("svar", "scalar", "tvar", "n", "nvar"):
        return False
    if p[0] in ("REF", "SIGNAL"):
        return True
    return any(has_refsig(x) for x in p[1:] if isinstance(x, tuple))


def instance_of(b, a, env):
    """pattern b is an instance of pattern a (a's variables bindable to sub-patterns of b)."""
    ka = a[0]
    if ka == "tvar":
        return bind(env, "#" + a[1], b)
    if ka == "svar":
        if b[0] == "svar":
            if a[2] and not (b[2] and set(b[2]) <= set(a[2])):
                return False
        elif a[2] and b[1] not in a[2]:
            return False
        return bind(env, "$" + a[1], b)
    if ka == "nvar":
        return bind(env, "%" + a[1], b)
    if ka != b[0]:
        return False
    if ka in ("scalar", "n"):
        return a == b
    return all(instance_of(x, y, env) for x, y in zip(b[1:], a[1:]))


def split_sig(sig):
    ins, out = sig.split("->")
    depth, cur, parts = 0, "", []
    for ch in ins:
        if ch == "(":
            depth += 1
        if ch == ")":
            depth -= 1
        if ch == "," and depth == 0:
            parts.append(cur)
            cur = ""
        else:
            cur += ch
    parts.append(cur)
    return [parse(x) for x in parts], parse(out)


SIGS = {k: split_sig(v) for k, v in POOL.items()}


def spec_match(label, args):
    ins, out = SIGS[label]
    if len(ins) != len(args):
        return None
    env = {}
    for p, a in zip(ins, args):
        if not match(p, a, env):
            return None
    return env, subst(out, env)


def strictly_more_specific(b, a):
    ib, ia = SIGS[b][0], SIGS[a][0]
    if len(ib) != len(ia) or any(has_refsig(p) for p in ib + ia):
        return False
    e1, e2 = {}, {}
    fwd = all(instance_of(x, y, e1) for x, y in zip(ib, ia))
    back = all(instance_of(y, x, e2) for x, y in zip(ib, ia))
    return fwd and not back


def split_top(text):
    """split 'A,B' at the top-level comma"""
    depth = 0
    for k, ch in enumerate(text):
        depth += ch == "("
        depth -= ch == ")"
        if ch == "," and depth == 0:
            return text[:k], text[k + 1:]
    raise ValueError(text)


def run_lines(exe, lines, tag):
    d = os.path.join(SCRATCH, tag)
    os.makedirs(d, exist_ok=True)
    ip, op_ = os.path.join(d, "in.txt"), os.path.join(d, "out.txt")
    with open(ip, "w") as f:
        f.write("\n".join(lines) + "\n")
    r = subprocess.run([exe, "dispatch", ip, op_], capture_output=True, text=True, timeout=3600)
    if r.returncode != 0:
        raise Inconclusive(f"hgunit dispatch failed rc={r.returncode} {r.stderr[-300:]}")
    out = []
    with open(op_) as f:
        for line in f:
            tk = line.split()
            if tk[2] == "ok":
                out.append(("ok", tk[3], int(tk[4].split("=")[1]), tk[5].split("=", 1)[1], tk[6].split("=", 1)[1] if len(tk) > 6 else ""))
            else:
                msg = " ".join(tk[4:])
                kind = "ambiguous" if "ambiguous" in msg else ("nomatch" if "no_matching" in msg else "other")
                out.append(("err", kind, msg))
    os.unlink(ip)
    os.unlink(op_)
    return out


def hier_phase(exe, rng, tier, seed):
    lines, meta = [], []
    for _ in range(300 if tier == "quick" else 4000):
        if rng.random() < 0.5:
            # two parent chains of UNEQUAL length that join at a shared ancestor, below a tail of further ancestors; a side branch of
            # its own length hangs off the long chain; the argument lists its two parents in either order
            names, parents = [], {}

            def add(nm, ps):
                names.append(nm)
                parents[nm] = list(ps)
                return nm
            prev = add("T0", [])
            for j in range(1, rng.choice([1, 2, 3])):
                prev = add(f"T{j}", [prev])
            shared = add("S", [prev]) if rng.random() < 0.7 else prev
            prev = shared
            for j in range(rng.choice([0, 1, 2])):
                prev = add(f"X{j}", [prev])
            short_top = prev
            side = add("Q0", [])
            for j in range(1, rng.choice([1, 2, 3])):
                side = add(f"Q{j}", [side])
            prev = shared
            for j in range(rng.choice([2, 3, 4])):
                ps = [prev] + ([side] if j == 0 else [])
                rng.shuffle(ps)
                prev = add(f"Y{j}", ps)
            long_top = prev
            ps = [short_top, long_top]
            rng.shuffle(ps)
            add("ARG", ps)
            arg = "ARG"
        else:
            n = rng.choice([4, 6, 8, 10, 14])
            names = [f"B{i}" for i in range(n)]
            parents = {}
            deep = rng.random() < 0.6            # parents mostly among the most recent bundles: long chains
            for i, nm in enumerate(names):
                k = 0 if i == 0 else rng.choice([1, 1, 2, 2, 3])
                pool_ = names[max(0, i - 3):i] if deep and rng.random() < 0.8 else names[:i]
                ps = rng.sample(pool_, min(len(pool_), k))
                if i == n - 1 and i >= 2 and len(ps) < 2:
                    ps = rng.sample(names[:i], 2)          # the argument's bundle usually has several parents
                rng.shuffle(ps)
                parents[nm] = ps
            arg = names[-1] if rng.random() < 0.8 else rng.choice(names)
        dist, frontier = {arg: 0}, [arg]
        while frontier:                                 # breadth-first: fewest parent edges
            nxt = []
            for x in frontier:
                for p_ in parents[x]:
                    if p_ not in dist:
                        dist[p_] = dist[x] + 1
                        nxt.append(p_)
            frontier = nxt
        reach = [b for b in names if b in dist]
        cands = rng.sample(reach, min(len(reach), rng.choice([2, 2, 3]))) if len(reach) >= 2 and rng.random() < 0.85 else rng.sample(names, 2)
        decl = ";".join(f"{nm}:{','.join(parents[nm])}" for nm in names)
        for order in (cands, list(reversed(cands))):
            lines.append(f"{decl} | {','.join(order)} | {arg}")
            meta.append((decl, tuple(order), arg, {c: dist.get(c) for c in cands}))
    d = os.path.join(SCRATCH, f"C19.{tier}.{seed}.hier")
    os.makedirs(d, exist_ok=True)
    ip, op_ = os.path.join(d, "in.txt"), os.path.join(d, "out.txt")
    with open(ip, "w") as f:
        f.write("\n".join(lines) + "\n")
    r = subprocess.run([exe, "hier", ip, op_], capture_output=True, text=True, timeout=1800)
    if r.returncode != 0:
        raise Inconclusive(f"hgunit hier failed rc={r.returncode} {r.stderr[-300:]}")
    V = []
    C = {"inheritance_resolutions": 0, "inheritance_families_with_unequal_distances": 0, "inheritance_ties": 0, "inheritance_no_match": 0}
    with open(op_) as f:
        for (decl, order, arg, dists), line in zip(meta, f):
            tk = line.split()
            C["inheritance_resolutions"] += 1
            got = ("ok", tk[3]) if tk[2] == "ok" else ("err", "ambiguous" if "ambiguous" in line else "nomatch" if "no_matching" in line else "other")
            matching = {c: dv for c, dv in dists.items() if dv is not None}
            fam = (decl, order)
            if not matching:
                C["inheritance_no_match"] += 1
                if got != ("err", "nomatch"):
                    V.append((fam, (arg,), f"no candidate base is an ancestor of {arg}, yet resolution gives {got}"))
                continue
            best = min(matching.values())
            winners = sorted(c for c, dv in matching.items() if dv == best)
            if len(set(matching.values())) > 1:
                C["inheritance_families_with_unequal_distances"] += 1
            if len(winners) == 1:
                if got != ("ok", winners[0]):
                    V.append((fam, (arg,), f"TS[{arg}]: candidate bases at parent-edge distances {matching}: the most specific is {winners[0]}, "
                                           f"resolution gives {got} (hierarchy {decl}; registered {order})"))
            else:
                C["inheritance_ties"] += 1
                if got != ("err", "ambiguous"):
                    V.append((fam, (arg,), f"TS[{arg}]: candidate bases {winners} are equally distant ({matching}); expected an ambiguity error, "
                                           f"resolution gives {got}"))
    os.unlink(ip)
    os.unlink(op_)
    return V, C


def main(tier, seed, replay):
    t0 = time.time()
    try:
        exe = ensure_build("hgunit")
    except Inconclusive as e:
        print(f"INCONCLUSIVE property={PROPERTY} reason={e}")
        return 2
    rng = random.Random(f"C19/{seed}/{tier}")
    labels = list(POOL)
    nfam = scaled(2500 if tier == "quick" else 60000)
    fams = []
    if replay:
        rp = json.load(open(replay))
        fams = [(tuple(rp["unit"]["family"]), tuple(rp["unit"]["args"]))]
    else:
        for _ in range(nfam):
            ar = rng.choice([1, 1, 2])
            cands = [l for l in labels if len(SIGS[l][0]) == ar]
            fam = tuple(sorted(rng.sample(cands, min(len(cands), rng.choice([1, 2, 2, 3, 3, 4, 5])))))
            # deliberately duplicated signature under another label -> must be ambiguous when it is the best
            args = tuple(rng.choice(UNIVERSE if rng.random() < 0.5 else SMALL) for _ in range(ar))
            if ar == 2 and rng.random() < 0.5:
                args = (args[0], args[0])
            fams.append((fam, args))
    # 1) singleton resolutions (the engine's own per-candidate verdict) for every (candidate, args) seen
    singles = sorted({(l, a) for fam, a in fams for l in fam})
    lines = [f"{l}={POOL[l]} | {','.join(a)}" for l, a in singles]
    res = run_lines(exe, lines, f"C19.{tier}.{seed}.s")
    single = dict(zip(singles, res))
    V = []
    counters = {"resolutions": len(lines), "families_with_competition": 0, "ambiguity_errors": 0, "no_match_errors": 0,
                "orders_compared": 0, "unifier_checks": 0, "subsumption_checks": 0}
    for (l, a), r in single.items():
        sm = spec_match(l, [parse(x) for x in a])
        counters["unifier_checks"] += 1
        if (r[0] == "ok") != (sm is not None):
            V.append(((l,), a, f"candidate {l} = {POOL[l]} {'was selected for' if r[0] == 'ok' else 'was rejected for'} arguments {a} but the "
                                f"independent unifier says it {'does not match' if sm is None else 'matches'}"))
        elif sm is not None:
            env, out = sm
            if out is not None and render(out) != nz(r[3]):
                V.append(((l,), a, f"candidate {l} on {a}: reported output {r[3]} != substitution of the bindings {render(out)}"))
            got = {k: nz(v) for k, v in (x.split("=", 1) for x in r[4].split(";") if x)}
            exp = {k: (render(v) if isinstance(v, tuple) and v[0] != "n" else str(v[1])) for k, v in env.items()}
            if got != exp:
                V.append(((l,), a, f"candidate {l} on {a}: bindings {got} != expected {exp}"))
    # 1b) specificity does not depend on the order in which the parameters are declared: the mirrored signature applied to the
    #     mirrored arguments must match iff the original does, with the same rank
    two = [(l, a) for (l, a) in singles if len(a) == 2]
    mlines = []
    for l, a in two:
        ins, out = POOL[l].split("->")
        p0, p1 = split_top(ins)
        mlines.append(f"{l}={p1},{p0}->{out} | {a[1]},{a[0]}")
    mres = run_lines(exe, mlines, f"C19.{tier}.{seed}.m") if mlines else []
    counters["resolutions"] += len(mlines)
    counters["mirrored_signature_checks"] = len(mlines)
    for (l, a), r in zip(two, mres):
        o = single[(l, a)]
        if (o[0], o[2] if o[0] == "ok" else None) != (r[0], r[2] if r[0] == "ok" else None):
            V.append(((l,), a, f"candidate {l} = {POOL[l]} on {a} gives {o[:3]} but with its two parameters (and the arguments) declared in "
                                f"the opposite order it gives {r[:3]}: specificity depends on parameter declaration order"))
    # 2) families in several registration orders
    lines, meta = [], []
    for fam, a in fams:
        if len(fam) <= 4:
            orders = list(itertools.permutations(fam))
            if len(orders) > 8:
                orders = rng.sample(orders, 8)
        else:
            orders = [tuple(rng.sample(fam, len(fam))) for _ in range(6)]
        for o in orders:
            lines.append(";".join(f"{l}={POOL[l]}" for l in o) + " | " + ",".join(a))
            meta.append((fam, a, o))
    res = run_lines(exe, lines, f"C19.{tier}.{seed}.f")
    counters["resolutions"] += len(lines)
    by_fam = {}
    for (fam, a, o), r in zip(meta, res):
        by_fam.setdefault((fam, a), []).append((o, r))
    nontrivial = set()
    samples = []
    for (fam, a), outs in by_fam.items():
        matching = {l: single[(l, a)][2] for l in fam if single[(l, a)][0] == "ok"}
        if len(matching) >= 2:
            counters["families_with_competition"] += 1
            nontrivial.add((fam, a))
        first = outs[0][1]
        norm = lambda r: (r[0], r[1]) if r[0] == "ok" else (r[0], r[1])
        for o, r in outs[1:]:
            counters["orders_compared"] += 1
            if norm(r) != norm(first):
                V.append((fam, a, f"resolution depends on registration order: {outs[0][0]} -> {first[:3]}, {o} -> {r[:3]}"))
                break
        if not matching:
            counters["no_match_errors"] += 1
            if not (first[0] == "err" and first[1] == "nomatch"):
                V.append((fam, a, f"no candidate matches {a} alone, yet the family resolves to {first[:3]}"))
            continue
        best = min(matching.values())
        winners = sorted(l for l, rk in matching.items() if rk == best)
        if len(winners) > 1:
            counters["ambiguity_errors"] += 1
            if not (first[0] == "err" and first[1] == "ambiguous"):
                V.append((fam, a, f"candidates {winners} tie at the best rank {best} for {a} but the family resolves to {first[:3]} instead of an ambiguity error"))
        else:
            if not (first[0] == "ok" and first[1] == winners[0]):
                V.append((fam, a, f"unique best candidate for {a} is {winners[0]} (rank {best} among {matching}) but the family resolves to {first[:3]}"))
            else:
                w = winners[0]
                for l in matching:
                    if l != w:
                        counters["subsumption_checks"] += 1
                        if strictly_more_specific(l, w):
                            V.append((fam, a, f"selected {w} = {POOL[w]} although the matching candidate {l} = {POOL[l]} is strictly more specific"))
        if len(samples) < 3 and len(matching) >= 2:
            samples.append({"family": {l: POOL[l] for l in fam}, "args": list(a), "outcome": list(first[:3]), "matching_ranks": matching})
    # 3) calls that PIN sizes (size hints, the C++ side of op[SIZE: Size[n]](...)): hints bind a candidate's size variables in their
    #     order of first appearance, per candidate. Same self-consistency oracle: the family resolves to the best of the
    #     candidates that match ALONE with the same hints, in every registration order.
    HPOOL = {"wide": "TS($T)->TSL(TS($T),%N)", "narrow": "TS(int)->TSL(TS(int),%M)", "fe": "TSL(TS(int),%N)->TS(int)", "ge": "TSL(#E,%M)->#E",
             "ln": "TSL(TS($T),%K)->TS($T)", "sq": "TSL(TS(int),%N),TSL(TS(int),%N)->TS(int)", "rc": "TSL(TS(int),%R),TSL(TS(int),%C)->TSL(TS(int),%C)",
             "gg": "TSL(#E,%A),TSL(#E,%B)->#E"}
    HARGS1 = ["TS(int)", "TS(str)", "TSL(TS(int),2)", "TSL(TS(int),3)", "TSL(TS(int),4)", "TSL(TS(str),2)"]
    HINTS = ["2", "3", "4", "2,3", "3,3", "3,2"]
    ar1 = [l for l in HPOOL if len(split_sig(HPOOL[l])[0]) == 1]
    ar2 = [l for l in HPOOL if len(split_sig(HPOOL[l])[0]) == 2]
    hf = []
    for _ in range(250 if tier == "quick" else 2500):
        pool, k = (ar1, 1) if rng.random() < 0.6 else (ar2, 2)
        fam = tuple(sorted(rng.sample(pool, rng.choice([2, min(3, len(pool))]))))
        a = (rng.choice(HARGS1 if rng.random() < 0.3 else HARGS1[:1] + HARGS1[2:5]),) if k == 1 else tuple(rng.choice(HARGS1[2:5]) for _ in range(2))
        hf.append((fam, a, rng.choice(HINTS)))
    hf = sorted(set(hf))
    hs_lines = sorted({(l, a, h) for fam, a, h in hf for l in fam})
    hs = dict(zip(hs_lines, run_lines(exe, [f"{l}={HPOOL[l]} | {','.join(a)} | {h}" for l, a, h in hs_lines], f"C19.{tier}.{seed}.hs")))
    hl, hm = [], []
    for fam, a, h in hf:
        for o in itertools.permutations(fam):
            hl.append(";".join(f"{l}={HPOOL[l]}" for l in o) + " | " + ",".join(a) + " | " + h)
            hm.append((fam, a, h, o))
    hres = run_lines(exe, hl, f"C19.{tier}.{seed}.hf") if hl else []
    counters["resolutions"] += len(hl) + len(hs_lines)
    counters["size_hinted_resolutions"] = len(hl)
    counters["size_hinted_families_with_competition"] = 0
    byh = {}
    for (fam, a, h, o), r in zip(hm, hres):
        byh.setdefault((fam, a, h), []).append((o, r))
    for (fam, a, h), outs in byh.items():
        matching = {l: hs[(l, a, h)][2] for l in fam if hs[(l, a, h)][0] == "ok"}
        if len(matching) >= 2:
            counters["size_hinted_families_with_competition"] += 1
        first = outs[0][1]
        for o, r in outs[1:]:
            if (r[0], r[1]) != (first[0], first[1]):
                V.append((fam, a, f"with sizes pinned to [{h}] resolution depends on registration order: {outs[0][0]} -> {first[:3]}, {o} -> {r[:3]}"))
                break
        else:
            if not matching:
                if not (first[0] == "err" and first[1] == "nomatch"):
                    V.append((fam, a, f"sizes pinned to [{h}]: no candidate matches {a} alone, yet the family resolves to {first[:3]}"))
                continue
            best = min(matching.values())
            winners = sorted(l for l, rk in matching.items() if rk == best)
            if len(winners) == 1 and not (first[0] == "ok" and first[1] == winners[0]):
                V.append((fam, a, f"sizes pinned to [{h}]: unique best candidate for {a} is {winners[0]} (ranks {matching}) but the family resolves to {first[:3]}"))
            if len(winners) > 1 and not (first[0] == "err" and first[1] == "ambiguous"):
                V.append((fam, a, f"sizes pinned to [{h}]: candidates {winners} tie for {a} but the family resolves to {first[:3]}"))
    # 4) overloads on concrete TS[<named bundle>] parameters over generated INHERITANCE hierarchies (several parents per bundle, chains
    #     of unequal length joining at shared ancestors, parents listed in either order): the most specific candidate is the one
    #     whose base is the fewest parent edges away from the argument's bundle (breadth-first distance, computed here).
    hv, hcount = hier_phase(exe, rng, tier, seed)
    V += hv
    counters.update(hcount)
    counters["resolutions"] += hcount.get("inheritance_resolutions", 0)
    wall = time.time() - t0
    coverage = {"evaluations": counters["resolutions"], "distinct_nontrivial": len(nontrivial), "rule": RULE, "samples": samples or [{"note": "no competition"}],
                "monitor_counters": counters, "pool": POOL, "universe": UNIVERSE, "families": len(by_fam)}
    if not replay:
        write_evidence(PROPERTY, tier, seed, LEVEL, coverage, ASSUMPTIONS, wall, len(V))
    if V:
        os.makedirs(os.path.join(REPLAYS, PROPERTY), exist_ok=True)
        for k, (fam, a, msg) in enumerate(V[:5]):
            path = os.path.join(REPLAYS, PROPERTY, f"c19_{seed}_{k}.json")
            json.dump({"property": PROPERTY, "unit": {"family": list(fam), "args": list(a)}, "violation": {"what": msg}}, open(path, "w"), indent=1)
            print(f"VIOLATION property={PROPERTY} replay={path}")
            print(f"  {msg}")
        print(f"{PROPERTY}: {len(V)} violation(s) ({wall:.1f}s)")
        return 1
    low = [k for k, fl in FLOORS.items() if counters.get(k, 0) < fl[tier]] if not replay else []
    if low:
        print(f"INCONCLUSIVE property={PROPERTY} " + "; ".join(f"counter {k}={counters.get(k, 0)} below floor" for k in low))
        return 2
    print(f"{PROPERTY}: held on {counters['resolutions']} resolutions, {len(nontrivial)} families with competing matches ({wall:.1f}s) counters={json.dumps(counters)}")
    return 0
