"""Seeded generator of dataflow programs over the TS<Int> core vocabulary."""
from __future__ import annotations
import random
from .prog import Case, Stmt, S


class UID:
    def __init__(self, start=1):
        self.n = start - 1

    def __call__(self):
        self.n += 1
        return self.n


COMPUTE_OPS = [("pass", 1, 3), ("add2", 2, 5), ("add3", 3, 2), ("acc", 1, 2), ("count", 1, 1), ("sample", 2, 2), ("sample3", 3, 2),
               ("gate", 2, 2), ("halfgate", 2, 1), ("allvalid2", 2, 1), ("list2", 2, 1), ("delay", 1, 2)]


def gen_script(rng, start, end, density=None, lo=None, hi=None):
    lo = start - 2 if lo is None else lo
    hi = end + 2 if hi is None else hi
    lo = max(lo, 0)
    n = rng.choice([0, 1, 2, 3, 5, 8, 12]) if density is None else density
    times = sorted(rng.sample(range(lo, hi + 1), min(n, hi - lo + 1)))
    # consecutive smallest steps are interesting: sometimes force a run of them
    if times and rng.random() < 0.4:
        t0 = rng.choice(times)
        times = sorted(set(times) | {t0 + 1, t0 + 2})
    return [(t, rng.randint(-20, 99)) for t in times]


def gen_sched_ops(rng, n_evals=8):
    """Random scheduler op lists per evaluation number (0 = start)."""
    by_eval = {}
    for e in range(0, n_evals):
        if rng.random() < 0.35:
            continue
        ops = []
        for _ in range(rng.choice([1, 1, 2, 3])):
            r = rng.random()
            tag = rng.choice(["", "", "a", "b"])
            if r < 0.55:
                d = rng.choice([0, 1, 1, 2, 3, 5, 8, -1])
                ops.append(f"s{d}" + (f"@{tag}" if tag else ""))
            elif r < 0.7:
                ops.append("u" + (f"@{tag}" if tag else ""))
            elif r < 0.82:
                ops.append("p@" + rng.choice(["a", "b"]))
            elif r < 0.88:
                ops.append("r")
            else:
                ops.append(f"S{rng.randint(0, 40)}" + (f"@{tag}" if tag else ""))
        by_eval[e] = ops
    return by_eval


class ProgGen:
    def __init__(self, rng, case, uid, *, allow_sub=True, allow_fb=True, allow_sched=False, allow_delay=True,
                 allow_passive=True, max_depth=2, nested_only=None, allow_ite=False):
        self.rng, self.case, self.uid = rng, case, uid
        self.allow_sub, self.allow_fb, self.allow_sched = allow_sub, allow_fb, allow_sched
        self.allow_delay, self.allow_passive, self.max_depth = allow_delay, allow_passive, max_depth
        self.nested_only = nested_only      # None: random inline/nested; "inline"/"nested": forced
        self.allow_ite = allow_ite
        self.next_sid = 0

    def source(self, stmts, name, rel=False):
        rng, c = self.rng, self.case
        u = self.uid()
        if rng.random() < 0.2:
            stmts.append(S(name, "ticker", uid=u, period=rng.choice([1, 1, 2, 3, 7]), count=rng.choice([1, 2, 4, 9])))
        else:
            c.scripts[u] = gen_script(rng, c.start, c.end)
            kw = dict(uid=u, mode=rng.choice([0, 0, 1]))
            stmts.append(S(name, "src", **kw))

    def body(self, gname, params, n_nodes, depth, want_ret):
        rng = self.rng
        stmts = []
        ports = list(params)
        k = 0

        def fresh():
            nonlocal k
            k += 1
            return f"{gname[0]}{depth}n{k}"

        n_src = rng.choice([0, 1]) if params else rng.choice([1, 2, 2, 3, 4])
        for _ in range(n_src):
            nm = fresh()
            self.source(stmts, nm)
            ports.append(nm)
        fbs = []
        nested_results = set()      # F4 avoidance: a sub-graph never returns a nested call's port directly
        if self.allow_fb and rng.random() < 0.35:
            for _ in range(rng.choice([1, 1, 2])):
                nm = fresh()
                kw = {}
                if rng.random() < 0.6:
                    kw["init"] = rng.randint(0, 9)
                stmts.append(S(nm, "fb", **kw))
                fbs.append(nm)
                ports.append(nm)
        for _ in range(n_nodes):
            r = rng.random()
            nm = fresh()
            if self.allow_sub and depth < self.max_depth and r < 0.15 and ports:
                arity = rng.choice([0, 1, 1, 2]) if ports else 0
                sid = self.next_sid
                self.next_sid += 1
                sub_params = [f"p{i}" for i in range(arity)]
                self.case.graphs[f"sub{sid}"] = self.body(f"s{sid}", sub_params, rng.randint(1, 5), depth + 1, True)
                how = self.nested_only or rng.choice(["inline", "nested"])
                args = [self.pick(ports) for _ in range(arity)]
                kw = {}
                if arity == 2 and not self.allow_ite and rng.random() < 0.4:
                    kw["pack"] = 1      # both arguments travel as ONE structured (fixed list) parameter, read by projection
                stmts.append(S(nm, how, *args, sid=sid, **kw))
                ports.append(nm)
                nested_results.add(nm)
                continue
            if self.allow_sched and r < 0.3 and ports:
                u = self.uid()
                self.case.sched[u] = gen_sched_ops(rng)
                stmts.append(S(nm, "sched", self.pick(ports), uid=u))
                ports.append(nm)
                continue
            ops = [(o, a, w) for o, a, w in COMPUTE_OPS if (o != "delay" or self.allow_delay)]
            if self.allow_ite:
                ops.append(("ite", 3, 6))
                ops.append(("icmp", 4, 3))
            op, arity, _ = rng.choices(ops, weights=[w for _, _, w in ops])[0]
            args = []
            for q in range(arity):
                a = self.pick(ports)
                if op in ("ite", "icmp") and q > 0:
                    # value inputs of a selection: never a sub-graph parameter (a reference crossing a nested boundary into
                    # another selection has boundary-specific unset/empty semantics the property does not define)
                    cands = [p for p in ports if p not in params] or ports
                    a = rng.choice(cands)
                if self.allow_passive and op in ("add2", "add3", "gate") and arity > 1 and q > 0 and rng.random() < 0.15:
                    a = "~" + a
                if self.allow_passive and op == "sample3" and q == 2 and rng.random() < 0.5:
                    a = "~" + a         # wiring-time passive marker next to a signature-passive input
                args.append(a)
            kw = dict(uid=self.uid())
            if op in ("ite", "icmp"):
                nested_results.add(nm)      # F12 avoidance: a sub-graph never returns a reference-shaped port directly
            if op == "delay":
                kw["k"] = rng.choice([1, 1, 2, 3, 6])
            stmts.append(S(nm, op, *args, **kw))
            ports.append(nm)
        for f in fbs:
            # close the loop on any port that is not the feedback itself
            cands = [p for p in ports if p not in fbs]
            if self.allow_ite:
                # a feedback is never bound to a reference-shaped port: what the edge carries while the reference points at a
                # target without value is not defined by the properties
                cands = [p for p in cands if p not in nested_results] or [p for p in ports if p not in fbs and p not in nested_results] or cands
            stmts.append(S("", "bind", f, rng.choice(cands)))
        if want_ret:
            cands = [p for p in ports if p not in fbs and p not in nested_results and not (self.allow_ite and p in params)]
            if not cands:
                nm = fresh()
                stmts.append(S(nm, "pass", rng.choice([p for p in ports if p not in fbs] or ports), uid=self.uid()))
                cands = [nm]
            # pass-through outputs (returning a parameter) are legal and interesting
            if params and rng.random() < 0.1 and not self.allow_ite:
                stmts.append(S("", "RET", rng.choice(params)))
            else:
                stmts.append(S("", "RET", cands[-1] if rng.random() < 0.6 else rng.choice(cands)))
        else:
            # sinks on a random subset, always at least one
            leaves = [p for p in ports if p not in fbs]
            rng.shuffle(leaves)
            for p in leaves[:max(1, rng.randint(1, min(4, len(leaves))))]:
                stmts.append(S("", "rec", p, uid=self.uid()))
        return stmts

    def pick(self, ports):
        rng = self.rng
        if rng.random() < 0.6:
            return ports[max(0, len(ports) - 1 - int(abs(rng.gauss(0, 2))))]
        return rng.choice(ports)


def gen_case(rng, name, *, n_nodes=None, **kw) -> Case:
    """(A feedback is never bound to a reference-shaped port - what such an edge carries while the reference designates a target
    without value is not defined; a binding can reach a selection through sub-graph parameters, so the flattened program is
    checked and the draw repeated.)"""
    for _ in range(30):
        c = _gen_case(rng, name, n_nodes=n_nodes, **kw)
        if not kw.get("allow_ite"):
            return c
        try:
            from . import model as M
            flat = M.flatten(c)
        except Exception:
            return c
        if not any(i.op == "fb" and i.fb_source is not None and i.fb_source.target.op == "ite" for i in flat.insts):
            return c
    return c


def _gen_case(rng, name, *, n_nodes=None, **kw) -> Case:
    start = rng.choice([0, 0, 3, 10])
    end = start + rng.choice([12, 25, 40, 60])
    c = Case(name, start, end)
    uid = UID()
    g = ProgGen(rng, c, uid, **kw)
    n = n_nodes if n_nodes is not None else rng.choice([2, 3, 5, 8, 12, 20, 30])
    c.graphs["main"] = g.body("main", [], n, 0, False)
    # main last in text order does not matter; hgdrive looks graphs up by name
    return c
