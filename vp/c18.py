"""C18 - node scheduler state machine: (a) exhaustive/ random op sequences on a bare NodeSchedulerState,
(b) scheduler-script nodes inside graphs, both against the pending-set specification (model.SchedModel)."""
from __future__ import annotations
import itertools, os, random, subprocess
from .runner import Result, Violation, Inconclusive, ensure_build, SCRATCH, scaled
from .gen_core import gen_case, gen_sched_ops, UID
from .prog import Case, S
from . import model as M
from .c03 import classify_with_emulations, compare_runs

PROPERTY = "C18"
LEVEL = "exploration"
HARNESS = "hgdrive"
RULE = ("(a) every operation sequence up to the stated length over {schedule at past/now/+1/+2/+3 x untagged/tag a/tag b, "
        "schedule during start, un_schedule, un_schedule(tag), pop_tag, reset, advance one step} executed on the tree's "
        "NodeScheduler, plus random long sequences; after every operation all query answers must equal the pending-set "
        "specification. (b) random graphs with 1-4 scheduler-script nodes interleaved with input-driven evaluations: wake-up "
        "times and query answers against the model. Non-trivial: a graph case with >= 3 scheduler operations; sequences are "
        "distinct by construction")
ASSUMPTIONS = ["SchedModel (vp/model.py) is the specification of the pending set: tag => at most one time, re-schedule replaces, "
               "started: <= now ignored without side effect, during start: now honoured, un_schedule() cancels the earliest "
               "(time, tag) event", "the unit driver advances time one smallest step at a time and consumes due events the way "
               "node.cpp does (advance() only when scheduled now)"]
FLOORS = {"native_gated_wakeups_with_pending_requests": {"quick": 200, "thorough": 4000}, "unit_sequences": {"quick": 20000, "thorough": 500000}, "unit_queries": {"quick": 60000, "thorough": 2000000},
          "graph_sched_queries": {"quick": 3000, "thorough": 40000}, "graph_wakeups": {"quick": 800, "thorough": 10000},
          "dynamic_child_scheduler_requests_honoured": {"quick": 300, "thorough": 5000},
          "wall_clock_alarms_judged": {"quick": 30, "thorough": 400}, "wall_clock_delay_alarms_requested_while_lagging": {"quick": 15, "thorough": 200}}
BATCH = 25

ALPHABET = ([f"s{d}{t}" for d in (-1, 0, 1, 2, 3) for t in ("", "@a", "@b")] + [f"n{d}{t}" for d in (-1, 0, 1) for t in ("", "@a")]
            + ["u", "u@a", "u@b", "p@a", "p@b", "r", "a"])


def model_sequence(ops):
    sm = M.SchedModel()
    now = 10
    out = []
    for tok in ops:
        op, arg, tag = M.parse_sched_op(tok)
        res = 0
        if op in ("s", "d"):
            sm.schedule(now + arg, tag, now, True)
        elif op == "n":
            sm.schedule(now + arg, tag, now, False)
        elif op == "u":
            sm.un_schedule(tag or None)
        elif op == "p":
            res = sm.pop_tag(tag)
        elif op == "r":
            sm.reset()
        elif op == "a":
            now += 1
            if sm.earliest() == now:
                sm.consume(now)
        q = sm.queries(now)
        a_now = 1 if sm.tags.get("a") == now else 0
        b_now = 1 if sm.tags.get("b") == now else 0
        out.append(q + (a_now, b_now, res))
    return out


def native_model(a, b, active, ops, end):
    """Scheduler-using node on the runtime's generic path: woken by an active input tick or a due request; the body runs only
    when both inputs hold a value; requests that are not yet due stay pending whatever happens in between."""
    from .model import SchedModel
    sm = SchedModel()
    for tok in ops.get("S", []):
        d, tag = (tok[1:].split("@") + [""])[:2]
        sm.schedule(0 + int(d), tag, 0, started=False)
    A, B = dict(a), dict(b)
    va = vb = False
    runs, out = 0, []
    gated_with_pending = 0
    for t in range(0, end):
        ta, tb = t in A, t in B
        va, vb = va or ta, vb or tb
        due = sm.earliest() == t
        woken = due or ta or (tb and active == "ab")
        if not woken:
            continue
        if va and vb:
            runs += 1
            q = sm.queries(t)
            out.append((t, runs, q[0] if q[1] else -1, q[1], q[2], q[3], q[5]))
            for tok in ops.get(str(runs), []):
                d, tag = (tok[1:].split("@") + [""])[:2]
                sm.schedule(t + int(d), tag, t, started=True)
        elif sm.events and not due:
            gated_with_pending += 1
        if due:
            sm.consume(t)
    return out, gated_with_pending


def native_phase(exe, rng, tier, seed, d):
    n = scaled(1500 if tier == "quick" else 30000)
    cases = []
    for _ in range(n):
        end = rng.choice([20, 30])
        def script():
            ts = sorted(rng.sample(range(1, end), rng.choice([1, 2, 4, 7])))
            return [(t, rng.randint(1, 99)) for t in ts]
        a, b = script(), script()
        if rng.random() < 0.5:
            b = [(t, v) for t, v in b if t > rng.choice([3, 6, 10])] or b       # b becomes valid late: a-driven wake-ups are gated
        ops = {}
        tags = ["a", "b"]
        rng.shuffle(tags)
        def toks(k):
            out = []
            for _ in range(k):
                tok = f"s{rng.choice([1, 2, 3, 5, 9, 14])}"
                if tags and rng.random() < 0.4:
                    tok += "@" + tags.pop()
                out.append(tok)
            return out
        ops["S"] = toks(rng.choice([1, 2, 3]))
        for r in rng.sample(range(1, 8), rng.choice([0, 1, 2, 3])):
            ops[str(r)] = toks(rng.choice([1, 2]))
        cases.append((a, b, rng.choice(["a", "a", "ab"]), ops, end))
    ip, op_ = os.path.join(d, "nin.txt"), os.path.join(d, "nout.txt")
    with open(ip, "w") as f:
        for a, b, act, ops, end in cases:
            f.write("a=" + ",".join(f"{t}:{v}" for t, v in a) + " b=" + ",".join(f"{t}:{v}" for t, v in b) + f" active={act} ops=" +
                    ";".join(k + ":" + ",".join(v) for k, v in ops.items()) + f" end={end}\n")
    r = subprocess.run([exe, "native", ip, op_], capture_output=True, text=True, timeout=1200)
    if r.returncode != 0:
        raise Inconclusive(f"hgunit native failed rc={r.returncode} {r.stderr[-300:]}")
    viol, bodies, gated = [], 0, 0
    with open(op_) as f:
        for k, line in enumerate(f):
            a, b, act, ops, end = cases[k]
            exp, g = native_model(a, b, act, ops, end)
            gated += g
            bodies += len(exp)
            toks = [x for x in line.strip().split(";") if x]
            err = [x for x in toks if x.startswith("X")]
            got = [tuple(int(v) for v in x[1:].split(",")) for x in toks if x.startswith("E")]
            if (err or got != exp) and len(viol) < 5:
                what = (f"run failed: {err[0][1:120]}; " if err else "") + f"body runs (t, n, next, is_scheduled, is_scheduled_now, has a, has b) " \
                    f"{got[:8]} != pending-set specification {exp[:8]}"
                viol.append((f"c18n_{seed}_{k}", Violation(f"native scheduler node a={a} b={b} active={act} ops={ops}: {what}"),
                             {"native": [a, b, act, ops, end]}))
    os.unlink(ip)
    os.unlink(op_)
    return {"violations": viol, "counters": {"native_node_cases": len(cases), "native_body_runs": bodies,
                                             "native_gated_wakeups_with_pending_requests": gated}}


def unit_phase(tier, seed):
    exe = ensure_build("hgunit")
    rng = random.Random(f"C18u/{seed}/{tier}")
    seqs = []
    maxlen = 3 if tier == "quick" else 4
    for n in range(1, maxlen + 1):
        seqs += [list(x) for x in itertools.product(ALPHABET, repeat=n)]
    exhaustive = len(seqs)
    for _ in range(4000 if tier == "quick" else 100000):
        seqs.append([rng.choice(ALPHABET) for _ in range(rng.choice([6, 12, 30]))])
    d = os.path.join(SCRATCH, f"C18u.{tier}.{seed}")
    os.makedirs(d, exist_ok=True)
    ip, op_ = os.path.join(d, "in.txt"), os.path.join(d, "out.txt")
    with open(ip, "w") as f:
        for s in seqs:
            f.write(" ".join(s) + "\n")
    r = subprocess.run([exe, "sched", ip, op_], capture_output=True, text=True, timeout=1200)
    if r.returncode != 0:
        raise Inconclusive(f"hgunit sched failed rc={r.returncode} {r.stderr[-300:]}")
    viol = []
    nq = 0
    with open(op_) as f:
        for k, line in enumerate(f):
            got = [tuple(int(x) for x in q.split(",")) for q in line.strip().split(";") if q]
            exp = model_sequence(seqs[k])
            nq += len(exp)
            if got != exp:
                j = next(i for i in range(min(len(got), len(exp))) if got[i] != exp[i]) if len(got) == len(exp) else -1
                if len(viol) < 5:
                    viol.append((f"c18u_{seed}_{k}", Violation(
                        f"scheduler answers diverge from the pending-set specification after op #{j} of {' '.join(seqs[k])}: "
                        f"(next,is,isnow,has_a,t_a,has_b,t_b,a_now,b_now,pop)={got[j] if j >= 0 else got} expected {exp[j] if j >= 0 else exp}"),
                        {"sequence": seqs[k]}))
    os.unlink(ip)
    os.unlink(op_)
    nat = native_phase(exe, rng, tier, seed, d)
    viol += nat["violations"]
    wall = wall_clock_phase(rng, tier, seed)
    viol += wall["violations"]
    nat["counters"].update(wall["counters"])
    return {"violations": viol, "counters": {"unit_sequences": len(seqs), "unit_queries": nq, **nat["counters"]},
            "coverage": {"exhaustive_up_to_length": maxlen, "exhaustive_sequences": exhaustive, "alphabet": ALPHABET,
                         "random_long_sequences": len(seqs) - exhaustive, "exhaustive": True}}


def wall_clock_phase(rng, tier, seed):
    """'never earlier than requested' for WALL-CLOCK alarms (absolute and as a delay), requested on a real-time executor whose cycle
    lags the wall clock: the alarm counts from the later of the cycle's time and the wall clock. Runs the real-time timers
    harness and the C17 oracle (never early, delivered) on scenarios made of wall-clock alarms only."""
    from .rt import Scenario, run_scenarios
    from . import c17
    exe = ensure_build("hgrt")
    scs = []
    for k in range(scaled(30 if tier == "quick" else 400)):
        timers = [f"{rng.choice(['wrel', 'wrel', 'wall'])}:{rng.choice([300, 2000, 9000, 20000])}" for _ in range(rng.choice([1, 2, 3]))]
        kv = dict(kind="timers", timers=";".join(timers), end_ms=rng.choice([60, 120]), start_past_ms=rng.choice([0, 5, 15, 30]),
                  stop="none", seed=rng.randrange(1 << 30))
        scs.append(Scenario(f"c18w_{seed}_{k}", kv))
    viol, C = [], {"wall_clock_alarms_judged": 0, "wall_clock_delay_alarms_requested_while_lagging": 0}
    for sc, tr, rc, err, secs in run_scenarios(exe, scs, f"C18w.{tier}.{seed}", workers=8):
        V, Cs, verdict = c17.check(sc, tr, rc)
        C["wall_clock_alarms_judged"] += Cs.get("requests_honoured", 0)
        C["wall_clock_delay_alarms_requested_while_lagging"] += Cs.get("relative_wall_alarms_requested_while_lagging", 0)
        if verdict == "violation" and len(viol) < 5:
            viol.append((sc.name, Violation(f"real-time scenario {sc.kv}: {V[0]}"), {"scenario": sc.kv}))
    return {"violations": viol, "counters": C}


def gen_graph_case(rng, name):
    c = Case(name, 0, rng.choice([30, 45, 60]))
    uid = UID()
    st = []
    nsrc = rng.choice([1, 2])
    srcs = []
    for k in range(nsrc):
        u = uid()
        c.scripts[u] = sorted({(rng.randint(0, c.end + 2), rng.randint(0, 50)) for _ in range(rng.choice([0, 2, 5, 9]))})
        # distinct times only
        seen, sc = set(), []
        for t, v in c.scripts[u]:
            if t not in seen:
                seen.add(t)
                sc.append((t, v))
        c.scripts[u] = sc
        st.append(S(f"a{k}", "src", uid=u, mode=rng.choice([0, 1])))
        srcs.append(f"a{k}")
    ports = list(srcs)
    for k in range(rng.choice([1, 2, 3, 4])):
        u = uid()
        c.sched[u] = gen_sched_ops(rng, n_evals=rng.choice([6, 10, 16]))
        nm = f"s{k}"
        st.append(S(nm, "sched", rng.choice(ports), uid=u))
        ports.append(nm)
        st.append(S("", "rec", nm, uid=uid()))
    if rng.random() < 0.3:
        # one scheduler node inside a nested child
        u = uid()
        c.sched[u] = gen_sched_ops(rng, n_evals=8)
        c.graphs["sub0"] = [S("x", "sched", "p0", uid=u), S("y", "pass", "x", uid=uid()), S("", "RET", "y")]
        st.append(S("n", "nested", rng.choice(srcs), sid=0))
        st.append(S("", "rec", "n", uid=uid()))
    c.graphs["main"] = st
    return c


def generate(rng, tier, seed):
    n = scaled(300 if tier == "quick" else 5000)
    # scheduler-using nodes inside the children of dynamic owners (one schedule slot of the owner for all children): keyed map,
    # reduction and dynamic-list map - decided by the C02 trace oracle (every pending time of a live child's node wakes it)
    from .c02 import gen_listmap_timers, gen_reduce_timers, gen_map_start_timers
    extra = []
    for k in range(n // 6):
        extra.append((gen_listmap_timers, gen_reduce_timers, gen_map_start_timers)[k % 3](rng, f"c18_{seed}_dyn{k}"))
    return [gen_graph_case(rng, f"c18_{seed}_{k}") for k in range(n)] + extra


def compare_sched(case, run, mr):
    out = compare_runs(case, run, mr)
    mids = {}
    for seq, kind, tk in run.events:
        if kind != "u.sq":
            continue
        uid, t, evalno, phase = int(tk[0]), int(tk[1]), int(tk[2]), tk[3]
        q = tuple(int(x) for x in tk[4:11])
        if phase == "pre":
            k = -1
            mids[(uid, evalno)] = 0
        else:
            k = mids.get((uid, evalno), 0)
            mids[(uid, evalno)] = k + 1
        exp = mr.sched_q.get((uid, evalno, k))
        if exp is None:
            out.append(f"scheduler query of uid {uid} at evaluation #{evalno} op {k} has no counterpart in the model")
        elif tuple(exp) != q:
            out.append(f"uid {uid} t={t} evaluation #{evalno} after op {k}: (next,is,isnow,has_a,t_a,has_b,t_b)={q}, pending set says {tuple(exp)}")
    return out


def check(case, tr):
    if case.meta.get("kind2") == "reduce_timers":
        from .c02 import check_reduce_timers
        r = check_reduce_timers(case, tr)
        r.counters = {"dynamic_child_scheduler_requests_honoured": sum(v for k, v in r.counters.items() if k.endswith("honoured"))}
        return r
    res = Result(signature=case.text().split("\n", 1)[1])
    if tr.build_error:
        res.violations.append(Violation(f"valid program rejected at build: {tr.build_error}"))
        return res
    run = tr.runs[0]
    if run.error:
        res.violations.append(Violation(f"run failed: {run.error}"))
        return res
    flat = M.flatten(case)
    mr = M.simulate(flat)
    mism = compare_sched(case, run, mr)
    if mism:
        mr, vs = classify_with_emulations(case, flat, run, mism, compare_sched)
        res.violations += vs
    sched_uids = {st.uid() for g in case.graphs.values() for st in g if st.op == "sched"}
    nops = sum(len(ops) for u in sched_uids for ops in case.sched.get(u, {}).values())
    res.counters = {"graph_sched_queries": len(mr.sched_q), "graph_wakeups": sum(1 for (u, t) in mr.runs if u in sched_uids),
                    "graph_sched_ops": nops}
    res.nontrivial = nops >= 3
    return res
