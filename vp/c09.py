"""C09 - a sub-graph behaves the same inlined or nested, at any depth (differential + model + child clock checks)."""
from __future__ import annotations
import copy
from .runner import Result, Violation, scaled
from .gen_core import gen_case
from .prog import S
from . import model as M
from .c03 import classify_with_emulations, compare_runs
from .c02 import compare_cycles

PROPERTY = "C09"
LEVEL = "exploration"
HARNESS = "hgdrive"
RULE = ("each generated host program with sub-graph call sites (sub-graphs with internal sources, delay timers firing while the "
        "parent is idle, consecutive-step tickers, state, pass-through outputs, internal feedback, nested calls inside "
        "sub-graphs) is run in 4 variants inside one case group: every call site inlined / every call site nested / a random "
        "mix / every call site nested and additionally wrapped one level deeper. All variants must produce the same user-code "
        "runs and recorded streams (compared with each other and with the model); every child graph evaluation happens at its "
        "parent's current time. Non-trivial: >= 1 call site whose sub-graph contains a self-scheduling node; distinct by text")
ASSUMPTIONS = ["vp/model.py flattening is the definition of 'inlined' behaviour", "variants of one group differ only in the how= of the call sites",
               "g++-12 -O1 build of the working tree with harness-side shims"]
FLOORS = {"dynamic_child_wakeups_honoured": {"quick": 200, "thorough": 3000}, "variant_pairs_compared": {"quick": 500, "thorough": 8000}, "child_evals_time_checked": {"quick": 5000, "thorough": 80000},
          "child_timer_wakeups": {"quick": 300, "thorough": 4000}, "nested_in_dynamic_child_cases": {"quick": 30, "thorough": 500}, "structured_result_ticks_compared": {"quick": 600, "thorough": 10000}}
BATCH = 24


MECH_PASSIVE_ARG = "nested-call-drops-passive-marker-of-argument"
PLAIN_CONSUMERS = {"pass", "add2", "add3", "acc", "count", "sample", "sample3", "gate", "halfgate", "delay", "sum2", "max2", "rec"}


def variants(rng, base):
    out = []
    if rng.random() < 0.25:
        # passive() on one argument of a call site (inlined: every consumer of that parameter is passive)
        sites0 = [(g, k) for g, sts in base.graphs.items() for k, st in enumerate(sts) if st.op in ("inline", "nested") and len(st.args) >= 2
                  and not st.kw.get("pack")]
        if sites0:
            g, k = rng.choice(sites0)
            st = base.graphs[g][k]
            q = rng.randrange(len(st.args))
            # only a parameter whose consumers inside the callee are plain nodes: what a passive() marker means for an element of an
            # ASSEMBLED list (list2 / allvalid2 ...), for an argument handed on to a further call, for a feedback binding, a
            # selection or the callee's result is not pinned down by the properties (thorough tier, seed 7)
            body = base.graphs.get(f"sub{st.kw.get('sid')}", [])
            users = [b.op for b in body if any(a.lstrip("~") == f"p{q}" for a in b.args)]
            if users and all(u in PLAIN_CONSUMERS for u in users) and not st.args[q].startswith("~"):
                st.args[q] = "~" + st.args[q]
    sites = [(g, k) for g, sts in base.graphs.items() for k, st in enumerate(sts) if st.op in ("inline", "nested")]
    for tag in ("inl", "nst", "mix", "deep"):
        c = copy.deepcopy(base)
        c.name = f"{base.name}_{tag}"
        c.meta["group"] = base.name
        c.meta["variant"] = tag
        for g, k in sites:
            st = c.graphs[g][k]
            st.op = {"inl": "inline", "nst": "nested", "deep": "nested", "mix": rng.choice(["inline", "nested"])}[tag]
        if tag == "deep":
            # wrap every call site of main one level deeper: wrapper sub-graph whose body is the nested call + a pass node
            nsid = 1 + max([int(g[3:]) for g in c.graphs if g.startswith("sub")] + [0])
            uid = 100000
            new_main = []
            for st in c.graphs["main"]:
                if st.op == "nested":
                    ar = len(st.args)
                    c.graphs[f"sub{nsid}"] = [S("w", "nested", *[f"p{i}" for i in range(ar)], sid=st.kw["sid"]),
                                              S("wp", "pass", "w", uid=uid), S("", "RET", "wp")]
                    new_main.append(S(st.dst, "nested", *st.args, sid=nsid))
                    nsid += 1
                    uid += 1
                else:
                    new_main.append(st)
            c.graphs["main"] = new_main
        out.append(c)
    return out


def gen_quad_case(rng, name):
    """A sub-graph whose RESULT is a re-arrangement of its one structured parameter (a 2x2 grid of time-series), wired inline,
    nested and nested twice over the same source - a node that owns the grid, or a grid assembled from four independent ports."""
    from .prog import Case
    end = rng.choice([16, 24])
    c = Case(name, 0, end)
    perm = rng.choice([1, 1, 2, 2, 3, 4, 5, 6])
    peered = rng.random() < 0.5
    main = []
    if peered:
        sc, v = [], 0
        for t in sorted(rng.sample(range(0, end), rng.choice([4, 8, 12]))):
            ops = []
            for (i, j) in rng.sample([(0, 0), (0, 1), (1, 0), (1, 1)], rng.choice([1, 1, 2, 4])):
                v += 1
                ops.append(f"[{i}][{j}]={v}")
            sc.append(f"{t}|" + ",".join(ops))
        c.cscripts[1] = sc
        main.append(S("q", "csrc", shape="qq", uid=1))
    else:
        v = 0
        for n, u in enumerate((1, 2, 3, 4)):
            ts = sorted(rng.sample(range(0, end), rng.choice([2, 4, 7])))
            c.scripts[u] = [(t, 100 * u + k) for k, t in enumerate(ts)]
            main.append(S(f"l{u}", "src", uid=u, mode=1))
        main.append(S("q", "quad", "l1", "l2", "l3", "l4"))
    for n, uid in ((0, 20), (1, 21), (2, 22)):
        main.append(S(f"r{n}", "quadsub", "q", perm=perm, nest=n))
        main.append(S("", "cmirror", f"r{n}", uid=uid))
    c.graphs["main"] = main
    c.meta.update(quad=1, perm=perm, peered=1 if peered else 0)
    return c


def check_quad(case, tr):
    from .gen_coll import parse_dumps, write_log
    res = Result(signature=case.text().split("\n", 1)[1])
    run = tr.runs[0]
    if tr.build_error or run.error:
        res.violations.append(Violation(f"build/run failed: {tr.build_error or run.error}"))
        return res
    perm = case.meta["perm"]
    writes = {}                                # t -> {(i, j): v}
    if case.meta["peered"]:
        for t, ops in write_log(run).get(1, []):
            for op in ops:
                i, j = int(op[1]), int(op[4])
                writes.setdefault(t, {})[(i, j)] = int(op.split("=")[1])
    else:
        for u, (i, j) in zip((1, 2, 3, 4), ((0, 0), (0, 1), (1, 0), (1, 1))):
            for t, v in case.scripts[u]:
                if case.start <= t < case.end:
                    writes.setdefault(t, {})[(i, j)] = v
    src_of = {1: lambda i, j: (1 - i, j), 2: lambda i, j: (1 - i, j), 3: lambda i, j: (i, 1 - j), 4: lambda i, j: (j, i),
              5: lambda i, j: (1 - i, 1 - j), 6: lambda i, j: (i, j)}[perm]
    dumps = parse_dumps(run)
    streams = {}
    for uid in (20, 21, 22):
        st = {}
        for t, d, _ in dumps.get(uid, []):
            vals = tuple(tuple((int(leaf["val"]) if leaf["v"] else None) for leaf in row["ch"]) for row in d["ch"])
            mods = tuple(tuple(leaf["m"] for leaf in row["ch"]) for row in d["ch"])
            st[t] = (vals, mods)
        streams[uid] = st
    V, known = [], []
    dead = set()
    grid = {}
    prev_vals = {}
    ticks = 0
    for t in sorted(writes):
        grid.update(writes[t])
        exp_vals = tuple(tuple(grid.get(src_of(i, j)) for j in (0, 1)) for i in (0, 1))
        exp_mods = tuple(tuple(1 if src_of(i, j) in writes[t] else 0 for j in (0, 1)) for i in (0, 1))
        for uid, how in ((20, "inlined"), (21, "nested"), (22, "nested twice")):
            got = streams[uid].get(t)
            ticks += 1
            if got is not None:
                pv = prev_vals.get(uid)
                prev_vals[uid] = got[0]
                prev_vals[(uid, "before")] = pv
            else:
                pv = prev_vals.get(uid)
            if got is None and uid != 20 and perm == 6 and not case.meta["peered"] and not streams[uid]:
                # known finding F21: a nested graph that returns its structured parameter unchanged is compiled as an alias of
                # the owner's input; when that input is ASSEMBLED from several ports the alias has no output to forward
                dead.add(how)
            elif got is None:
                V.append(f"{how}: the result did not tick at t={t} although leaves {sorted(writes[t])} of the parameter ticked")
            elif uid != 20 and got[0] == exp_vals and got != (exp_vals, exp_mods) and (
                    t in sorted(streams[uid])[:2] or pv is None or any(pv[i][j] is None and got[0][i][j] is not None for i in (0, 1) for j in (0, 1))):
                # known finding (F4 / F12 mechanism): the nested node's forwarding output is (re)bound at its first evaluation and
                # whenever a further leaf acquires a value, and that binding marks every leaf modified although only some were written
                known.append(f"{how}: at t={t} (one of the nested node's first two evaluations / a leaf acquiring its first value) the nested result reads every leaf as "
                             f"modified {got[1]}, inlined only the written ones {exp_mods}")
            elif got != (exp_vals, exp_mods):
                V.append(f"{how}: result at t={t} is values {got[0]} modified {got[1]}, expected the re-arranged parameter values {exp_vals} "
                         f"modified {exp_mods} (perm {perm}, {'owned' if case.meta['peered'] else 'assembled'} source)")
    for uid, how in ((21, "nested"), (22, "nested twice")):
        extra = sorted(set(streams[uid]) - set(writes))
        if extra and extra == [min(streams[uid])] and not any(v is not None for row in streams[uid][extra[0]][0] for v in row):
            known.append(f"{how}: the nested result ticks at its first evaluation (t={extra[0]}) with no value at all")
        elif extra:
            V.append(f"{how}: result ticked at {extra[:5]} although no leaf of the parameter did")
    for m in V[:5]:
        res.violations.append(Violation(m))
    if known:
        res.violations.append(Violation(known[0], "forwarding-output-bind-marks-modified"))
    if dead:
        res.violations.append(Violation(f"{sorted(dead)}: the result of a nested graph that returns its structured parameter unchanged never "
                                        f"ticks when the argument is assembled from several ports (inlined it ticks with every leaf)",
                                        "nested-result-aliasing-assembled-argument-is-dead"))
    res.counters = {"structured_result_ticks_compared": ticks, "structured_result_cases": 1}
    res.nontrivial = ticks >= 6
    return res


def generate(rng, tier, seed):
    n = scaled(150 if tier == "quick" else 2500)
    cases = []
    k = 0
    while len(cases) < 4 * n:
        base = gen_case(rng, f"c09_{seed}_{k}", nested_only="inline", max_depth=2, n_nodes=rng.choice([3, 5, 8, 12]))
        k += 1
        if not any(st.op == "inline" for sts in base.graphs.values() for st in sts):
            continue
        cases += variants(rng, base)
    # nested graphs started mid-run inside dynamic children (switch branches, map bodies): the C12 / C10 standalone oracles
    # (sub-graph inlined == nested is part of "the branch / instance run alone") decide these
    from .c12 import gen_case12
    from .c10 import gen_case10
    got, j = 0, 0
    while got < n // 3 and j < 20 * n:
        c = gen_case12(rng, f"c09_{seed}_sw{j}", j) if j % 3 else gen_case10(rng, f"c09_{seed}_mp{j}", j)
        j += 1
        if any(st.op == "nested" for g, sts in c.graphs.items() if g.startswith("fn") for st in sts):
            c.meta["delegate"] = "c12" if "spec" in c.meta else "c10"
            cases.append(c)
            got += 1
    cases += [gen_quad_case(rng, f"c09_{seed}_q{k}") for k in range(n // 3)]
    # "none of its wake-ups is lost" for sub-graphs that run as DYNAMIC children (a map_ instance per key / per list element, a
    # mesh_ instance): sources that arm their first wake-up from start for a later time while nothing else in the new child is
    # due, timers pending in one child while a sibling runs, instances paused and resumed - the C02 trace oracle (every request
    # made inside a child that is alive at its time is honoured at exactly that time, inside its owner's bracket)
    from .c02 import gen_map_start_timers, gen_listmap_timers, gen_mesh_timers
    for k in range(n // 6):
        c = (gen_map_start_timers, gen_listmap_timers, gen_mesh_timers)[k % 3](rng, f"c09_{seed}_dw{k}")
        c.meta["delegate"] = "c02timers"
        cases.append(c)
    for k in range(max(6, n // 5)):
        cases += gen_capture_cases(rng, f"c09_{seed}_cap{k}")
    from .witness import f4_case
    cases.append(f4_case(f"c09_{seed}_witnessF4"))
    from .witness import f22_case
    cases.append(f22_case(f"c09_{seed}_witnessF22"))
    return cases


_groups = {}


def gen_capture_cases(rng, name):
    """A sub-graph that reads ports of the enclosing graph WITHOUT receiving them as arguments (captures): two different elements
    of one list output (same schema), or an element and an ordinary port. Wired inline, nested and nested twice; the three
    recorded streams must be identical (differential only - no model)."""
    from .prog import Case, S
    end = rng.choice([20, 30])
    base = Case(name, 0, end)
    base.scripts[1] = [(t, t * 3 + 1) for t in sorted(rng.sample(range(0, end), rng.choice([4, 8, 12])))]
    sc, v = [], 10
    for t in sorted(rng.sample(range(0, end), rng.choice([6, 10, 15]))):
        ops = []
        for k in rng.sample([0, 1, 2], rng.choice([1, 1, 2, 3])):
            v += 7
            ops.append(f"[{k}]={v}")
        sc.append(f"{t}|" + ",".join(ops))
    base.cscripts[2] = sc
    i, j = rng.sample([0, 1, 2], 2)
    second = rng.choice(["e1", "e1", "x"])        # two projections of ONE output, or a projection and another port
    body = [S("u", "add3", "p0", "p1", "p2", uid=100), S("v", "sample", "p1", "p2", uid=101), S("w", "add2", "u", "v", uid=102), S("", "RET", "w")]
    if rng.random() < 0.4:
        body = [S("u", "add2", "p1", "p0", uid=100), S("v", "add2", "p2", "p0", uid=101), S("w", "add2", "u", "v", uid=102), S("", "RET", "w")]
    base.graphs["sub0"] = body
    out = []
    for tag, depth in (("inl", 0), ("nst", 1), ("deep", 2)):
        c = base.clone() if hasattr(base, "clone") else None
        import copy
        c = copy.deepcopy(base)
        c.name = f"{name}_{tag}"
        c.graphs["main"] = [S("x", "src", uid=1, mode=1), S("l", "csrc", shape="tsl", uid=2), S("e0", "elem", "l", str(i)), S("e1", "elem", "l", str(j)),
                            S("r", "inline" if depth == 0 else "nested", "x", sid=0, cap=f"e0,{second}", depth=depth), S("", "rec", "r", uid=50)]
        c.meta.update(kind="capture", group=name, variant=tag)
        out.append(c)
    return out


_cap_groups = {}


def check_capture(case, tr):
    res = Result(signature=case.text().split("\n", 1)[1])
    if tr.build_error or not tr.runs or tr.runs[0].error:
        res.violations.append(Violation(f"build/run failed: {tr.build_error or (tr.runs[0].error if tr.runs else 'no run')}"))
        return res
    mine = {u: v for u, v in rec_streams(tr.runs[0]).items() if u in (50, 100, 101, 102)}
    grp = _cap_groups.setdefault(case.meta["group"], {})
    pairs = 0
    for tag, other in grp.items():
        pairs += 1
        if other != mine:
            bad = sorted(u for u in set(other) | set(mine) if other.get(u) != mine.get(u))
            res.violations.append(Violation(f"sub-graph that captures two ports of the enclosing graph: variant '{case.meta['variant']}' and variant "
                                            f"'{tag}' differ on uids {bad}: e.g. {mine.get(bad[0], [])[:3]} vs {other.get(bad[0], [])[:3]}"))
    grp[case.meta["variant"]] = mine
    res.counters = {"captured_port_variant_pairs": pairs, "captured_port_runs": sum(len(v) for v in mine.values())}
    res.nontrivial = len(mine.get(50, [])) >= 3
    return res


def rec_streams(run, skip_uids=()):
    out = {}
    for ue in run.uevals():
        if ue.uid >= 100000:
            continue
        out.setdefault(ue.uid, []).append((ue.t, ue.out, tuple(ue.ins)))
    return out


def compare_all(case, run, mr):
    return compare_runs(case, run, mr) + compare_cycles(case, run, mr)


def check(case, tr):
    if case.meta.get("kind") == "capture":
        return check_capture(case, tr)
    if case.meta.get("witness"):
        from .witness import check_witness
        return check_witness(case, tr)
    if case.meta.get("quad"):
        return check_quad(case, tr)
    if case.meta.get("delegate") == "c02timers":
        from .c02 import check_reduce_timers
        r = check_reduce_timers(case, tr)
        r.counters = {"dynamic_child_wakeups_honoured": sum(v for k_, v in r.counters.items() if k_.endswith("honoured"))}
        return r
    if case.meta.get("delegate"):
        from . import c10, c12
        r = (c12 if case.meta["delegate"] == "c12" else c10).check(case, tr)
        r.counters = {"nested_in_dynamic_child_cases": 1, "nested_in_dynamic_child_runs": r.counters.get("instance_runs_compared", 0)}
        return r
    res = Result(signature=case.text().split("\n", 1)[1])
    if tr.build_error and "passive_would_deactivate_every_input" in str(tr.build_error):
        # an explicit refusal (the passive() argument would leave an inner node without any active input): not a program
        res.counters = {"passive_argument_programs_refused_at_build": 1}
        _groups.setdefault(case.meta["group"], {})
        return res
    if tr.build_error:
        res.violations.append(Violation(f"valid program rejected at build: {tr.build_error}"))
        return res
    run = tr.runs[0]
    if run.error:
        res.violations.append(Violation(f"run failed: {run.error}"))
        return res
    # child clock: every child graph evaluation at its parent's current time; requests made inside children honoured
    parents, open_t = {}, {}
    child_evals = child_timers = 0
    for seq, kind, tk in run.events:
        if kind == "G+":
            parents[int(tk[0])] = int(tk[1])
        elif kind == "C<":
            gid, t = int(tk[0]), int(tk[1])
            open_t[gid] = t
            pg = parents.get(gid, -1)
            if pg >= 0:
                child_evals += 1
                if pg not in open_t:
                    res.violations.append(Violation(f"child graph {gid} evaluated at t={t} while its parent graph {pg} is not evaluating"))
                elif open_t[pg] != t:
                    res.violations.append(Violation(f"child graph {gid} evaluated at t={t} but its parent is at t={open_t[pg]}"))
        elif kind == "C>":
            open_t.pop(int(tk[0]), None)
        elif kind == "u.req" and parents.get(int(tk[1]), -1) >= 0 and tk[5] == "eval":
            child_timers += 1
    flat = M.flatten(case)
    mr = M.simulate(flat)
    # wrapper pass nodes (uid >= 100000) exist only in the 'deep' variant: compare modulo them
    known_dev = False
    mism = compare_all(case, run, mr)
    passive_args = any(st.op == "nested" and any(a.startswith("~") for a in st.args) for sts in case.graphs.values() for st in sts)
    if mism and passive_args:
        # known finding F29: the passive() marker of a nested call's argument is dropped
        from .c03 import EMULATIONS
        flat2 = M.flatten(case, nested_drops_passive=True)
        for flags in ({},) + tuple(EMULATIONS):
            mr2 = M.simulate(flat2, **flags)
            if not compare_all(case, run, mr2):
                res.violations.append(Violation("a sub-graph called NESTED with a passive() argument wakes the inner consumers of that parameter on its "
                                                "ticks; inlined, the marker reaches them and they are not woken", MECH_PASSIVE_ARG))
                if mr2.sampled:
                    res.violations.append(Violation(f"all-Unchecked node ran at child start on an unset boundary source: {mr2.sampled[:3]}",
                                                    "nested-start-samples-unset-source"))
                if mr2.stale or mr2.stale_armed:
                    res.violations.append(Violation(f"user code ran at a cancelled wake-up time: {mr2.stale[:3]} {mr2.stale_armed[:3]}",
                                                    "cancelled-wakeup-still-evaluates"))
                mr, mism, known_dev = mr2, [], True
                break
    if mism:
        mr, vs = classify_with_emulations(case, flat, run, mism, compare_all)
        res.violations += vs
        known_dev = all(v.mechanism for v in vs)
    # differential against the sibling variants seen so far (same process: variants are checked in generation order)
    grp = _groups.setdefault(case.meta["group"], {})
    mine = rec_streams(run)
    pairs = 0
    if not known_dev:
        for tag, (other, other_dev) in grp.items():
            if other_dev:
                continue
            pairs += 1
            if other != mine:
                bad = [u for u in set(other) | set(mine) if other.get(u) != mine.get(u)]
                res.violations.append(Violation(f"variant '{case.meta['variant']}' and variant '{tag}' of the same program differ on "
                                                f"uids {sorted(bad)[:6]}: e.g. {mine.get(bad[0], [])[:3]} vs {other.get(bad[0], [])[:3]}"))
    grp[case.meta["variant"]] = (mine, known_dev)
    has_timer = any(st.op in ("delay", "ticker", "src") for g, sts in case.graphs.items() if g.startswith("sub") for st in sts)
    res.counters = {"variant_pairs_compared": pairs, "child_evals_time_checked": child_evals, "child_timer_wakeups": child_timers,
                    "runs_compared": len(mr.runs)}
    res.nontrivial = has_timer and child_evals > 0
    return res
