"""C09 - a sub-graph behaves the same inlined or nested, at any depth (differential + model + child clock checks)."""
from __future__ import annotations
import copy
from .runner import Result, Violation
from .gen_core import gen_case
from .prog import S
from . import model as M
from .c03 import classify_with_emulations, compare_runs
from .c02 import compare_cycles

PROPERTY = "C09"
LEVEL = "exploration"
HARNESS = "hgdrive"
RULE = ("each generated host program with sub-graph call sites (sub-graphs with internal sources, delay timers firing while the "
        "parent is idle, consecutive-step tickers, state, pass-through outputs, internal feedback, nested calls inside "
        "sub-graphs) is run in 4 variants inside one case group: every call site inlined / every call site nested / a random "
        "mix / every call site nested and additionally wrapped one level deeper. All variants must produce the same user-code "
        "runs and recorded streams (compared with each other and with the model); every child graph evaluation happens at its "
        "parent's current time. Non-trivial: >= 1 call site whose sub-graph contains a self-scheduling node; distinct by text")
ASSUMPTIONS = ["vp/model.py flattening is the definition of 'inlined' behaviour", "variants of one group differ only in the how= of the call sites",
               "g++-12 -O1 build of the working tree with harness-side shims"]
FLOORS = {"variant_pairs_compared": {"quick": 500, "thorough": 8000}, "child_evals_time_checked": {"quick": 5000, "thorough": 80000},
          "child_timer_wakeups": {"quick": 300, "thorough": 4000}, "nested_in_dynamic_child_cases": {"quick": 30, "thorough": 500}}
BATCH = 24


def variants(rng, base):
    out = []
    sites = [(g, k) for g, sts in base.graphs.items() for k, st in enumerate(sts) if st.op in ("inline", "nested")]
    for tag in ("inl", "nst", "mix", "deep"):
        c = copy.deepcopy(base)
        c.name = f"{base.name}_{tag}"
        c.meta["group"] = base.name
        c.meta["variant"] = tag
        for g, k in sites:
            st = c.graphs[g][k]
            st.op = {"inl": "inline", "nst": "nested", "deep": "nested", "mix": rng.choice(["inline", "nested"])}[tag]
        if tag == "deep":
            # wrap every call site of main one level deeper: wrapper sub-graph whose body is the nested call + a pass node
            nsid = 1 + max([int(g[3:]) for g in c.graphs if g.startswith("sub")] + [0])
            uid = 100000
            new_main = []
            for st in c.graphs["main"]:
                if st.op == "nested":
                    ar = len(st.args)
                    c.graphs[f"sub{nsid}"] = [S("w", "nested", *[f"p{i}" for i in range(ar)], sid=st.kw["sid"]),
                                              S("wp", "pass", "w", uid=uid), S("", "RET", "wp")]
                    new_main.append(S(st.dst, "nested", *st.args, sid=nsid))
                    nsid += 1
                    uid += 1
                else:
                    new_main.append(st)
            c.graphs["main"] = new_main
        out.append(c)
    return out


def generate(rng, tier, seed):
    n = 150 if tier == "quick" else 2500
    cases = []
    k = 0
    while len(cases) < 4 * n:
        base = gen_case(rng, f"c09_{seed}_{k}", nested_only="inline", max_depth=2, n_nodes=rng.choice([3, 5, 8, 12]))
        k += 1
        if not any(st.op == "inline" for sts in base.graphs.values() for st in sts):
            continue
        cases += variants(rng, base)
    # nested graphs started mid-run inside dynamic children (switch branches, map bodies): the C12 / C10 standalone oracles
    # (sub-graph inlined == nested is part of "the branch / instance run alone") decide these
    from .c12 import gen_case12
    from .c10 import gen_case10
    got, j = 0, 0
    while got < n // 3 and j < 20 * n:
        c = gen_case12(rng, f"c09_{seed}_sw{j}", j) if j % 3 else gen_case10(rng, f"c09_{seed}_mp{j}", j)
        j += 1
        if any(st.op == "nested" for g, sts in c.graphs.items() if g.startswith("fn") for st in sts):
            c.meta["delegate"] = "c12" if "spec" in c.meta else "c10"
            cases.append(c)
            got += 1
    from .witness import f4_case
    cases.append(f4_case(f"c09_{seed}_witnessF4"))
    return cases


_groups = {}


def rec_streams(run, skip_uids=()):
    out = {}
    for ue in run.uevals():
        if ue.uid >= 100000:
            continue
        out.setdefault(ue.uid, []).append((ue.t, ue.out, tuple(ue.ins)))
    return out


def compare_all(case, run, mr):
    return compare_runs(case, run, mr) + compare_cycles(case, run, mr)


def check(case, tr):
    if case.meta.get("witness"):
        from .witness import check_witness
        return check_witness(case, tr)
    if case.meta.get("delegate"):
        from . import c10, c12
        r = (c12 if case.meta["delegate"] == "c12" else c10).check(case, tr)
        r.counters = {"nested_in_dynamic_child_cases": 1, "nested_in_dynamic_child_runs": r.counters.get("instance_runs_compared", 0)}
        return r
    res = Result(signature=case.text().split("\n", 1)[1])
    if tr.build_error:
        res.violations.append(Violation(f"valid program rejected at build: {tr.build_error}"))
        return res
    run = tr.runs[0]
    if run.error:
        res.violations.append(Violation(f"run failed: {run.error}"))
        return res
    # child clock: every child graph evaluation at its parent's current time; requests made inside children honoured
    parents, open_t = {}, {}
    child_evals = child_timers = 0
    for seq, kind, tk in run.events:
        if kind == "G+":
            parents[int(tk[0])] = int(tk[1])
        elif kind == "C<":
            gid, t = int(tk[0]), int(tk[1])
            open_t[gid] = t
            pg = parents.get(gid, -1)
            if pg >= 0:
                child_evals += 1
                if pg not in open_t:
                    res.violations.append(Violation(f"child graph {gid} evaluated at t={t} while its parent graph {pg} is not evaluating"))
                elif open_t[pg] != t:
                    res.violations.append(Violation(f"child graph {gid} evaluated at t={t} but its parent is at t={open_t[pg]}"))
        elif kind == "C>":
            open_t.pop(int(tk[0]), None)
        elif kind == "u.req" and parents.get(int(tk[1]), -1) >= 0 and tk[5] == "eval":
            child_timers += 1
    flat = M.flatten(case)
    mr = M.simulate(flat)
    # wrapper pass nodes (uid >= 100000) exist only in the 'deep' variant: compare modulo them
    known_dev = False
    mism = compare_all(case, run, mr)
    if mism:
        mr, vs = classify_with_emulations(case, flat, run, mism, compare_all)
        res.violations += vs
        known_dev = all(v.mechanism for v in vs)
    # differential against the sibling variants seen so far (same process: variants are checked in generation order)
    grp = _groups.setdefault(case.meta["group"], {})
    mine = rec_streams(run)
    pairs = 0
    if not known_dev:
        for tag, (other, other_dev) in grp.items():
            if other_dev:
                continue
            pairs += 1
            if other != mine:
                bad = [u for u in set(other) | set(mine) if other.get(u) != mine.get(u)]
                res.violations.append(Violation(f"variant '{case.meta['variant']}' and variant '{tag}' of the same program differ on "
                                                f"uids {sorted(bad)[:6]}: e.g. {mine.get(bad[0], [])[:3]} vs {other.get(bad[0], [])[:3]}"))
    grp[case.meta["variant"]] = (mine, known_dev)
    has_timer = any(st.op in ("delay", "ticker", "src") for g, sts in case.graphs.items() if g.startswith("sub") for st in sts)
    res.counters = {"variant_pairs_compared": pairs, "child_evals_time_checked": child_evals, "child_timer_wakeups": child_timers,
                    "runs_compared": len(mr.runs)}
    res.nontrivial = has_timer and child_evals > 0
    return res
