"""C14 - every started node is stopped exactly once, in reverse order, whatever fails (fault enumeration)."""
from __future__ import annotations
import random
import copy
from .runner import Result, Violation, scaled
from .gen_core import gen_case
from . import model as M

PROPERTY = "C14"
LEVEL = "fault_enumeration"
HARNESS = "hgdrive"
SANITIZE = "asan"      # thorough tier: same batch under -fsanitize=address,undefined
RULE = ("for each generated program (flat, nested to depth 2, feedback, timers) the single-fault space node x {start, evaluate, "
        "stop} x occurrence (1..3 for evaluate) is enumerated exhaustively, x cleanup_on_error in {on, off}; plus sampled fault "
        "pairs (evaluate then stop, two stops, start then stop). Oracle: per node instance trace automaton over user-level "
        "start/stop/eval logs and LifecycleObserver events. Non-trivial: the planned fault actually fired; distinct by "
        "(program, fault plan)")
ASSUMPTIONS = ["a node instance is identified by (graph instance, node index); user-level hooks log before they throw",
               "fault occurrences are counted per definition uid and phase within one run",
               "g++-12 -O1 build of the working tree with harness-side shims"]
FLOORS = {"faults_fired": {"quick": 1500, "thorough": 30000}, "start_faults": {"quick": 200, "thorough": 4000},
          "stop_faults": {"quick": 200, "thorough": 4000}, "eval_faults": {"quick": 400, "thorough": 8000},
          "nested_instance_faults": {"quick": 100, "thorough": 2000}, "instances_checked": {"quick": 10000, "thorough": 200000},
          "dynamic_child_faults": {"quick": 100, "thorough": 2000}, "realtime_stops_with_values_still_queued": {"quick": 3, "thorough": 40}}
BATCH = 60


def fault_space(rng, base, tier):
    flat = M.flatten(base)
    mr = M.simulate(flat)
    runs_per_uid = {}
    for (u, t) in mr.runs:
        runs_per_uid[u] = runs_per_uid.get(u, 0) + 1
    uids = sorted({i.uid for i in flat.insts if i.uid is not None})
    plans = []
    for u in uids:
        plans.append([(u, "start", 1)])
        plans.append([(u, "stop", 1)])
        for occ in range(1, min(3, runs_per_uid.get(u, 0)) + 1):
            plans.append([(u, "eval", occ)])
    singles = list(plans)
    for _ in range(len(uids)):
        a, b = rng.choice(singles), rng.choice(singles)
        if a != b and a[0][1] != "start":
            plans.append(a + b)
    return plans


def add_dynamic_children(rng, base):
    """Keyed map / switch / reduce whose child graphs are alive (and come and go) while faults fire."""
    from .prog import S
    from .c10 import gen_key_history
    uid = 1 + max([s.uid() or 0 for g in base.graphs.values() for s in g] + [0])
    main = base.graphs["main"]
    extra = []
    kind = rng.choice(["map", "switch", "reduce", "map+switch"])
    if "map" in kind or kind == "reduce":
        base.cscripts[uid] = gen_key_history(rng, base.start, base.end, rng.choice([2, 3, 5]))
        if rng.random() < 0.4:
            # keys only ever arrive: every child is still alive when the map itself is stopped (shutdown sweep over several
            # live children, the k-th of which may fail to stop)
            kept = []
            for e in base.cscripts[uid]:
                t, ops = e.split("|")
                ops = [o for o in ops.split(",") if not o.startswith("x[") and o != "c"]
                if ops:
                    kept.append(f"{t}|" + ",".join(ops))
            base.cscripts[uid] = kept or base.cscripts[uid]
        main.append(S("dyn_d", "csrc", shape="tsd", uid=uid))
        uid += 1
    if "map" in kind:
        base.graphs["fn0"] = [S("e", "pass", "p0", uid=uid), S("a", rng.choice(["acc", "count", "pass"]), "e", uid=uid + 1),
                              S("dl", "delay", "a", uid=uid + 2, k=rng.choice([1, 2])), S("", "RET", "a")]
        extra += [uid, uid + 1, uid + 2]
        uid += 3
        main.append(S("dyn_m", "map", "dyn_d", fn="fn1:0"))
        main.append(S("", "cmirror", "dyn_m", uid=uid))
        uid += 1
    if kind == "reduce":
        base.graphs["fn1"] = [S("x", "sum2", "p0", "p1"), S("y", "pass", "x", uid=uid), S("", "RET", "y")]
        extra += [uid]
        base.meta["reduce_uids"] = [uid]
        uid += 1
        kwz = {}
        if rng.random() < 0.5:
            kwz["zero"] = rng.choice([0, 7])       # with a zero even a single live element keeps a combiner instance alive
            if rng.random() < 0.6:
                # ... and the reduction ends (or spends time) with exactly one live key
                k0 = rng.randrange(3)
                base.cscripts[uid - 2] = [f"{base.start + 1}|[{k0}]={k0 * 1000 + 1}"] + \
                    ([f"{base.start + 3}|[{(k0 + 1) % 3}]=77", f"{base.start + 6}|x[{(k0 + 1) % 3}]"] if rng.random() < 0.5 else [])
        main.append(S("dyn_r", "reduce", "dyn_d", fn="fn2:1", **kwz))
        main.append(S("", "rec", "dyn_r", uid=uid))
        uid += 1
    if "switch" in kind:
        base.scripts[uid] = sorted({(t, rng.choice([1, 2])) for t in rng.sample(range(base.start, base.end), min(6, base.end - base.start))})
        base.scripts[uid] = [(t, v) for t, v in dict(base.scripts[uid]).items()]
        base.scripts[uid].sort()
        base.scripts[uid + 1] = [(t, rng.randint(0, 50)) for t in range(base.start, base.end, 2)]
        main.append(S("dyn_k", "src", uid=uid, mode=1))
        main.append(S("dyn_a", "src", uid=uid + 1, mode=0))
        uid += 2
        base.graphs["fn2"] = [S("e", "acc", "p0", uid=uid), S("dl", "delay", "e", uid=uid + 1, k=1), S("", "RET", "e")]
        base.graphs["fn3"] = [S("e", "count", "p0", uid=uid + 2), S("", "RET", "e")]
        extra += [uid, uid + 1, uid + 2]
        uid += 3
        if rng.random() < 0.5:
            # branches that END in a nested graph: the switch output forwards to the child's terminal (a separate
            # activation path: output re-point, start of the incoming branch, stop of the outgoing one)
            sid = 1 + max([int(g[3:]) for g in base.graphs if g.startswith("sub")] + [-1])
            base.graphs[f"sub{sid}"] = [S("x", "pass", "p0", uid=uid), S("", "RET", "x")]
            base.graphs[f"sub{sid + 1}"] = [S("x", "count", "p0", uid=uid + 1), S("y", "pass", "x", uid=uid + 2), S("", "RET", "y")]
            base.graphs["fn2"] = base.graphs["fn2"][:-1] + [S("n", "nested", "e", sid=sid), S("", "RET", "n")]
            base.graphs["fn3"] = base.graphs["fn3"][:-1] + [S("n", "nested", "e", sid=sid + 1), S("", "RET", "n")]
            extra += [uid, uid + 1, uid + 2]
            uid += 3
            base.meta["forwarding_switch"] = 1
        main.append(S("dyn_s", "switch", "dyn_k", "dyn_a", cases="1:fn1:2,2:fn1:3"))
        main.append(S("", "rec", "dyn_s", uid=uid))
        uid += 1
    return extra


def sweep_cases(rng, seed, n):
    """Constructed: a keyed map / a reduction with SEVERAL child graphs alive at shutdown (keys only ever arrive) and the k-th
    child stop throwing, k = 1..3 - the shutdown sweep must go on over the remaining children (F17 / F19 family)."""
    from .prog import Case, S
    out = []
    for j in range(n):
        kind = ("map", "reduce", "oreduce", "mesh")[j % 4]
        nk = rng.choice([3, 4, 5, 6])
        c = Case(f"c14_{seed}_sweep{j}", 0, 12)
        keys = rng.sample(range(9), nk)
        hist = {}
        for q, k in enumerate(keys):
            # (a reduction that grows over several cycles retires combiners mid-run: that is F15's call site, not the sweep)
            hist.setdefault(1 if kind == "reduce" else 1 + (q % rng.choice([1, 2, 3])), []).append(f"[{k}]={k * 1000 + q}")
        c.cscripts[1] = [f"{t}|" + ",".join(ops) for t, ops in sorted(hist.items())] + [f"8|[{keys[0]}]=5"]
        if kind == "oreduce":
            # ordered reduction (a chain of combiner graphs, rebuilt in a second bank whenever the key count changes): sizes
            # that reach a new maximum and shrink right away, with nothing evaluating the node afterwards
            static = (j // 3) % 2 == 1
            if static:
                # one chain built once and alive until shutdown: a stop fault fires in the reduction's OWN stop (F23 call site)
                nk = rng.choice([2, 3, 4])
                c.cscripts[1] = ["1|" + ",".join(f"[{q}]={rng.randint(1, 60)}" for q in range(nk)), f"4|[{rng.randrange(nk)}]=9"]
            else:
                a = rng.choice([1, 2, 3])
                b = a + rng.choice([1, 2])
                c.cscripts[1] = ["1|" + ",".join(f"[{q}]={rng.randint(1, 60)}" for q in range(a)), f"3|[0]={rng.randint(1, 60)}",
                                 "5|" + ",".join(f"[{q}]={rng.randint(1, 60)}" for q in range(a, b)),
                                 "6|" + ",".join(f"x[{q}]" for q in range(b - 1, b - 1 - rng.choice([1, min(2, b - 1)]), -1))]
            c.graphs["fn1"] = [S("x", "ord2", "p0", "p1"), S("y", "pass", "x", uid=10), S("", "RET", "y")]
            c.graphs["main"] = [S("d", "csrc", shape="tsd", uid=1), S("r", "reduce", "d", fn="fn2:1", zero=5, assoc=0), S("", "rec", "r", uid=20)]
            c.meta["reduce_uids"] = [10]
            c.meta["dynamic"] = True
            for k, (plan, cleanup) in enumerate([([], 1), ([], 0), ([(10, "stop", 1)], 1), ([(10, "stop", 1)], 0), ([(10, "stop", 2)], 1),
                                                 ([(10, "eval", 2)], 1)]):
                cc = copy.deepcopy(c)
                cc.name = f"{c.name}_f{k}"
                cc.faults = list(plan)
                cc.opts["cleanup"] = cleanup
                cc.meta["plan"] = [list(x) for x in plan]
                out.append(cc)
            continue
        if kind == "mesh":
            # mesh_ instances alive at shutdown with HOLES in the slot table: keys arrive, one or two of the earlier ones are removed
            # again mid-run, the later ones live until the graph stops (with and without a stop fault in one of them)
            gone = rng.sample(keys[:-1], rng.choice([1, 1, 2]) if nk > 3 else 1)
            c.cscripts[1] = [f"{t}|" + ",".join(ops) for t, ops in sorted(hist.items())] + \
                            [f"{5 + q}|x[{k}]" for q, k in enumerate(gone)] + [f"9|[{keys[-1]}]=5"]
            c.cscripts[2] = [f"1|[{keys[-1]}]={keys[-2]}"] if rng.random() < 0.5 else []
            c.graphs["fn0"] = [S("e", "pass", "p0", uid=10), S("a", "acc", "e", uid=11), S("", "RET", "a")]
            c.graphs["main"] = [S("d", "csrc", shape="tsd", uid=1), S("k", "csrc", shape="tsd", uid=2), S("m", "mesh", "d", "k", fn="fn2:0"),
                                S("", "cmirror", "m", uid=20)]
            c.meta["dynamic"] = True
            c.meta["mesh_uids"] = [10, 11]
            for k, (plan, cleanup) in enumerate([([], 1), ([], 0), ([(10, "stop", 1)], 1), ([(11, "stop", 2)], 1), ([(10, "stop", 2)], 0),
                                                 ([(11, "eval", 3)], 1)]):
                cc = copy.deepcopy(c)
                cc.name = f"{c.name}_f{k}"
                cc.faults = list(plan)
                cc.opts["cleanup"] = cleanup
                cc.meta["plan"] = [list(x) for x in plan]
                out.append(cc)
            continue
        if kind == "map":
            c.graphs["fn0"] = [S("e", "pass", "p0", uid=10), S("a", "acc", "e", uid=11), S("", "RET", "a")]
            c.graphs["main"] = [S("d", "csrc", shape="tsd", uid=1), S("m", "map", "d", fn="fn1:0"), S("", "cmirror", "m", uid=20)]
            uids = [10, 11]
        else:
            c.graphs["fn1"] = [S("x", "sum2", "p0", "p1"), S("y", "pass", "x", uid=10), S("", "RET", "y")]
            c.graphs["main"] = [S("d", "csrc", shape="tsd", uid=1), S("r", "reduce", "d", fn="fn2:1"), S("", "rec", "r", uid=20)]
            c.meta["reduce_uids"] = [10]
            uids = [10]
        c.meta["dynamic"] = True
        k = 0
        for u in uids:
            for occ in (1, 2, 3):
                for cleanup in (1, 0):
                    cc = copy.deepcopy(c)
                    cc.name = f"{c.name}_f{k}"
                    k += 1
                    cc.faults = [(u, "stop", occ)]
                    cc.opts["cleanup"] = cleanup
                    cc.meta["plan"] = [[u, "stop", occ]]
                    out.append(cc)
    return out


def generate(rng, tier, seed):
    nprog = scaled(30 if tier == "quick" else 300)
    cases = sweep_cases(random.Random(f"c14sweep/{seed}/{tier}"), seed, 16 if tier == "quick" else 80)
    for p in range(nprog):
        base = gen_case(rng, f"c14_{seed}_{p}", n_nodes=rng.choice([2, 3, 5, 8]), max_depth=2,
                        nested_only="nested" if rng.random() < 0.6 else None)
        base.end = min(base.end, base.start + 20)
        dyn_uids = add_dynamic_children(rng, base) if p % 2 == 1 else []
        plans = fault_space(rng, base, tier)
        for u in dyn_uids:
            plans += [[(u, "start", rng.choice([1, 2]))], [(u, "stop", 1)], [(u, "stop", rng.choice([2, 3]))], [(u, "eval", 1)],
                      [(u, "eval", rng.choice([2, 3, 5]))]]
        base.meta["dynamic"] = bool(dyn_uids)
        k = 0
        for plan in plans:
            for cleanup in (1, 0):
                c = copy.deepcopy(base)
                c.name = f"{base.name}_f{k}"
                k += 1
                c.faults = list(plan)
                c.opts["cleanup"] = cleanup
                c.meta["plan"] = [list(x) for x in plan]
                cases.append(c)
    return cases


def unit_phase(tier, seed):
    """Real-time root graphs (push sources + sinks) stopped while values are still queued, after a drain, and at the end time:
    nodes start in index order and stop in the reverse order (lifecycle observer of the hgrt harness)."""
    from .runner import ensure_build
    from .rt import Scenario, run_scenarios
    from .c16 import check_lifecycle
    exe = ensure_build("hgrt")
    rng = random.Random(f"C14rt/{seed}/{tier}")
    scs = []
    for k in range(scaled(24 if tier == "quick" else 200)):
        kv = dict(kind="push", policy=rng.choice(["queue", "queue", "burst"]), cap=rng.choice([0, 0, 2, 5]), producers=rng.choice([1, 2, 3]),
                  msgs=rng.choice([50, 200, 600]), blocking=rng.choice([0, 1]), pacing=rng.choice(["spin", "yield", "sleep:20"]),
                  stop=rng.choice(["drain", f"afterms:{rng.choice([1, 3, 8])}", f"aftermsgs:{rng.choice([5, 30])}"]), late=1, end_ms=3000,
                  seed=rng.randrange(1 << 30))
        if rng.random() < 0.5:
            kv["sources"] = 2
            kv["producers"] = max(2, kv["producers"])
        if rng.random() < 0.5:
            kv["delays"] = f"ps.eval.after_emit:{rng.choice([100, 400, 1500])}:{rng.choice([1, 3])}"       # slow consumer: values stay queued
        scs.append(Scenario(f"c14rt_{seed}_{k}", kv))
    viol, C = [], {"realtime_stop_orders_checked": 0, "realtime_stops_with_values_still_queued": 0}
    for sc, tr, rc, err, secs in run_scenarios(exe, scs, f"C14rt.{tier}.{seed}", workers=8):
        if tr is None or tr.run is None or not tr.lifecycle:
            continue
        C["realtime_stop_orders_checked"] += 1
        delivered = {x for d in tr.deliveries for x in d[4]}
        if any(s[5] == 1 and s[1] != "late" and s[2] not in delivered for s in tr.sends):
            C["realtime_stops_with_values_still_queued"] += 1
        for m in check_lifecycle(tr)[:1]:
            if len(viol) < 5:
                viol.append((sc.name, Violation(f"real-time graph {sc.kv}: {m}"), {"scenario": sc.kv}))
    return {"violations": viol, "counters": C, "coverage": {"realtime_scenarios": len(scs)}}


def check(case, tr):
    plan = [tuple(x) for x in case.meta["plan"]]
    res = Result(signature=(case.text().split("\n", 1)[1]))
    if tr.build_error:
        res.violations.append(Violation(f"valid program rejected at build: {tr.build_error}"))
        return res
    run = tr.runs[0]
    V = res.violations
    # ---- per-instance automaton --------------------------------------------------------------------
    inst = {}       # (gid, idx) -> dict(state, uid, ...)
    graph_nodes = {}   # gid -> list of (idx) in start order
    stops_order = {}   # gid -> list of idx in user stop order
    fired = []
    fired_seq = []
    parents = {}
    pending_before = {}   # (kind, gid, idx) -> seq  for before/after pairing
    returned = run.returned_seq if run.returned_seq > 0 else None
    released = run.released_seq if run.released_seq > 0 else None
    cleanup = int(case.opts.get("cleanup", 1))
    last_user = None
    for seq, kind, tk in run.events:
        if kind == "G+":
            parents[int(tk[0])] = (int(tk[1]), int(tk[2]))
        elif kind == "u.start":
            uid, gid, idx = int(tk[0]), int(tk[1]), int(tk[2])
            key = (gid, idx)
            if key in inst:
                V.append(Violation(f"node uid {uid} ({gid}:{idx}) start hook ran twice"))
            inst[key] = {"uid": uid, "state": "starting", "start_seq": seq, "evals": 0, "stops": 0, "stop_seq": None}
            order = graph_nodes.setdefault(gid, [])
            if order and order[-1] >= idx:
                V.append(Violation(f"graph {gid}: node {idx} started after node {order[-1]} (not evaluation order)"))
            order.append(idx)
            last_user = ("start", key)
        elif kind == "u.throw":
            fired.append((int(tk[0]), tk[1], int(tk[2])))
            fired_seq.append(seq)
            if last_user and last_user[0] == "start" and tk[1] == "start":
                inst[last_user[1]]["state"] = "start-failed"
            if last_user and last_user[0] == "stop" and tk[1] == "stop":
                inst[last_user[1]]["stop_failed"] = True
        elif kind == "Ns":
            key = (int(tk[0]), int(tk[1]))
            if key in inst and inst[key]["state"] == "starting":
                inst[key]["state"] = "started"
        elif kind == "u.eval":
            key = (int(tk[1]), int(tk[2]))
            st = inst.get(key)
            if st is None or st["state"] not in ("started",):
                V.append(Violation(f"node uid {tk[0]} ({key[0]}:{key[1]}) evaluated while {st['state'] if st else 'never started'}"))
            else:
                st["evals"] += 1
        elif kind == "u.stop":
            uid, gid, idx = int(tk[0]), int(tk[1]), int(tk[2])
            key = (gid, idx)
            st = inst.get(key)
            if st is None:
                V.append(Violation(f"node uid {uid} ({gid}:{idx}) stopped but never started"))
                continue
            if st["state"] == "start-failed":
                V.append(Violation(f"node uid {uid} ({gid}:{idx}) whose start failed was stopped"))
            if st["state"] == "starting":
                st["state"] = "started"      # start completed (no observer 'after' seen yet means hooks ran inside a child start)
            st["stops"] += 1
            if st["stops"] > 1:
                V.append(Violation(f"node uid {uid} ({gid}:{idx}) stopped {st['stops']} times"))
            st["state"] = "stopped"
            st["stop_seq"] = seq
            so = stops_order.setdefault(gid, [])
            if so and so[-1] <= idx:
                V.append(Violation(f"graph {gid}: node {idx} stopped after node {so[-1]} (not reverse order)"))
            so.append(idx)
            last_user = ("stop", key)
        if kind in ("N+", "S<", "E<"):
            pending_before[(kind, int(tk[0]), int(tk[1]))] = seq
        elif kind in ("Ns", "Nf"):
            pending_before.pop(("N+", int(tk[0]), int(tk[1])), None)
        elif kind == "S>":
            pending_before.pop(("S<", int(tk[0]), int(tk[1])), None)
        elif kind == "E>":
            pending_before.pop(("E<", int(tk[0]), int(tk[1])), None)
    for (k, g, i), seq in pending_before.items():
        V.append(Violation(f"lifecycle event {k} for node {g}:{i} has no matching after/failed event"))
    # every started instance is stopped exactly once, before run() returned (or before release with cleanup off)
    deadline = returned if cleanup else released
    n_inst = 0
    for key, st in inst.items():
        n_inst += 1
        if st["state"] == "start-failed":
            continue
        if st["stops"] != 1:
            V.append(Violation(f"node uid {st['uid']} ({key[0]}:{key[1]}) was started but stopped {st['stops']} times "
                               f"(plan {plan}, cleanup_on_error={cleanup})"))
        elif deadline is not None and st["stop_seq"] > deadline:
            V.append(Violation(f"node uid {st['uid']} ({key[0]}:{key[1]}) stopped only after "
                               f"{'run() returned' if cleanup else 'the executor was released'}"))
    # the caller sees the original error naming the failing node
    if fired:
        first = fired[0]
        if run.error is None:
            # F15 is the RETIRED-combiner call site: the stop was made mid-run (a root cycle was still open / followed), not by
            # the reduction's own stop during shutdown
            root_cycle_ends = [q for q, kd, tk in run.events if kd == "C>" and int(tk[0]) == 0]
            mid_run = bool(root_cycle_ends) and fired_seq[0] < root_cycle_ends[-1]
            if first[1] == "stop" and first[0] in case.meta.get("mesh_uids", []) and mid_run:
                V.append(Violation(f"stop() of a node inside a mesh_ instance retired MID-RUN (its key was removed) threw {first}; the exception "
                                   f"was swallowed and run() returned normally", "mesh-retired-instance-stop-failure-swallowed"))
            elif first[1] == "stop" and first[0] in case.meta.get("reduce_uids", []) and mid_run:
                V.append(Violation(f"stop() of a node inside a retired reduce combiner threw {first}; the exception was swallowed and run() "
                                   f"returned normally", "reduce-retired-combiner-stop-failure-swallowed"))
            else:
                V.append(Violation(f"fault {first} was thrown but run() returned normally"))
        else:
            want = f"verif-fault_uid={first[0]}_phase={first[1]}_occ={first[2]}"
            if want not in run.error:
                V.append(Violation(f"run() error does not carry the original message {want!r}: {run.error[:200]!r}"))
            else:
                res.counters["error_text_checked"] = 1
    elif run.error is not None:
        V.append(Violation(f"run failed without a planned fault firing: {run.error[:200]}"))
    res.counters.update({"faults_fired": len(fired), "instances_checked": n_inst,
                         "start_faults": sum(1 for f in fired if f[1] == "start"), "stop_faults": sum(1 for f in fired if f[1] == "stop"),
                         "eval_faults": sum(1 for f in fired if f[1] == "eval"),
                         "dynamic_child_faults": 1 if fired and case.meta.get("dynamic") and any(
                             st["uid"] == fired[0][0] and parents.get(k[0], (-1, -1))[0] >= 0 for k, st in inst.items()) else 0,
                         "nested_instance_faults": 1 if fired and any(st["uid"] == fired[0][0] and parents.get(k[0], (-1, -1))[0] >= 0 for k, st in inst.items()) else 0})
    res.nontrivial = bool(fired)
    return res
