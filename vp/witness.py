"""Constructed witness cases for known findings whose triggers the random generators deliberately avoid (F4, F12).
A witness is checked by a predicate on its own trace: if the deviation shows, the check reports that mechanism (a
KNOWN-FINDING while it is listed); if the tree no longer shows it, nothing is reported."""
from __future__ import annotations
from .prog import Case, S
from .runner import Result, Violation

MECH_FWD = "forwarding-output-bind-marks-modified"


def f4_case(name):
    c = Case(name, 0, 20)
    c.scripts[1] = [(5, 1)]
    c.graphs["main"] = [S("a", "src", uid=1), S("n", "nested", "a", sid=0), S("g", "gate", "n", "n", uid=4), S("", "rec", "g", uid=3)]
    c.graphs["sub0"] = [S("m", "nested", "p0", sid=1), S("", "RET", "m")]
    c.graphs["sub1"] = [S("h", "gate", "p0", "p0", uid=9), S("g", "pass", "p0", uid=2), S("", "RET", "g")]
    c.meta["witness"] = "F4"
    return c


def f12_case(name):
    c = Case(name, 0, 70)
    c.scripts[39] = [(59, 68)]
    c.scripts[40] = [(36, -7)]
    c.scripts[50] = [(20, 1), (45, 2)]
    c.graphs["sub7"] = [S("x", "src", uid=39), S("y", "src", uid=40), S("z", "src", uid=50), S("zz", "pass", "z", uid=51),
                        S("r", "ite", "y", "y", "x", uid=41), S("", "RET", "r")]
    c.graphs["main"] = [S("n", "nested", sid=7), S("c", "pass", "n", uid=46)]
    c.meta["witness"] = "F12"
    return c


MECH_BREF = "nested-boundary-unset-reference-reads-valid-empty"


def f22_case(name):
    """r0 is an unset reference (its selector never ticks). G(c, r) = pass(if_then_else(c, r, c)) called NESTED with (t, r0):
    at t=17 the condition turns true and selects the unset reference."""
    c = Case(name, 10, 30)
    c.scripts[50] = []
    c.graphs["sub6"] = [S("s", "ite", "p0", "p1", "p0", uid=38), S("r", "pass", "s", uid=39), S("", "RET", "r")]
    c.graphs["main"] = [S("t", "ticker", uid=2, period=7, count=4), S("u", "src", uid=50, mode=0), S("w", "ticker", uid=3, period=3, count=9),
                        S("r0", "ite", "u", "w", "w", uid=37), S("n", "nested", "t", "r0", sid=6), S("", "rec", "n", uid=41)]
    c.meta["witness"] = "F22"
    return c


def check_witness(case, tr):
    res = Result(signature=case.text().split("\n", 1)[1])
    if tr.build_error or not tr.runs or tr.runs[0].error:
        res.violations.append(Violation(f"witness case did not run: {tr.build_error or (tr.runs[0].error if tr.runs else 'no run')}"))
        return res
    ue = tr.runs[0].uevals()
    if case.meta["witness"] == "F4":
        hit = [u for u in ue if u.uid == 4 and u.t == 0]
        if hit:
            res.violations.append(Violation(
                f"consumer of a nested graph whose output is an inner nested call's port ran at t=0 reading {hit[0].ins} (modified without a "
                f"write, no value): the outer forwarding output is marked modified when it is bound on the first evaluation; inlined, the "
                f"consumer first runs at t=5", MECH_FWD))
    elif case.meta["witness"] == "F22":
        ran = sorted(u.t for u in ue if u.uid == 39)
        if ran == [10]:
            res.violations.append(Violation(
                f"reader of a reference selection inside a nested graph ran at {ran} only: when the selection switched (t=17) to an "
                f"argument that is an unset reference produced outside the graph, the reader lost its target for good (inlined it keeps "
                f"following the previous target and runs at 10, 17, 24)", MECH_BREF))
        elif ran != [10, 17, 24]:
            res.violations.append(Violation(f"witness F22: reader ran at {ran}, expected [10, 17, 24] (or [10] with the known finding)"))
    else:
        hit = [u for u in ue if u.uid == 46 and u.t == 45]
        if hit:
            res.violations.append(Violation(
                f"consumer of a nested graph that returns an if_then_else reference ran again at t=45 reading {hit[0].ins} although the "
                f"selected target did not tick: the forwarding output is re-bound (marked modified) at the child's next evaluation", MECH_FWD))
    res.counters = {"witness_cases": 1}
    return res
