"""C15 - captured errors tick once, where they happen, and do not disturb the rest (differential vs fault-free twin)."""
from __future__ import annotations
import copy
from .runner import Result, Violation, scaled
from .gen_core import gen_case, ProgGen, UID, gen_script
from .prog import Case, S
from . import model as M

PROPERTY = "C15"
LEVEL = "exploration"
HARNESS = "hgdrive"
RULE = ("each generated program is run twice: fault-free and with a fault plan on a node whose errors are captured "
        "(exception_time_series on a single node, or try_except_ around a generated sub-graph with the thrower first, in the "
        "middle or last in the child), throwing in the first cycle, in consecutive cycles, in scattered cycles. Oracle "
        "(differential): one error tick per throwing cycle in that cycle carrying what(); nodes outside the failing node's "
        "dependency cone have identical runs; the thrower is activated in exactly the same cycles as in the fault-free run and "
        "every node upstream of it inside the wrapped sub-graph runs identically. Non-trivial: >= 1 captured throw and >= 1 "
        "later activation of the thrower; distinct by (program, plan)")
ASSUMPTIONS = ["the fault plan counts user-code entries of the chosen definition; both runs use the same program and inputs",
               "dependency cone computed by vp/model.flatten over the program text",
               "g++-12 -O1 build of the working tree with harness-side shims"]
FLOORS = {"soft_error_throws": {"quick": 40, "thorough": 600}, "soft_findings_on_the_ordinary_output": {"quick": 60, "thorough": 900}, "captured_throws": {"quick": 300, "thorough": 5000}, "later_activations_checked": {"quick": 400, "thorough": 6000},
          "outside_cone_runs_compared": {"quick": 5000, "thorough": 80000}, "try_except_cases": {"quick": 70, "thorough": 1500},
          "thrower_not_first_in_child": {"quick": 40, "thorough": 600}, "map_key_throws": {"quick": 150, "thorough": 2500},
          "captured_throw_with_pending_timer": {"quick": 5, "thorough": 100},
          "map_other_key_runs_compared": {"quick": 2000, "thorough": 30000}, "map_error_ticks_checked": {"quick": 150, "thorough": 2500},
          "try_around_map_throws": {"quick": 20, "thorough": 300}}
BATCH = 30


def gen_pair(rng, name):
    how = rng.choice(["node", "node", "try", "try", "try"])
    base = gen_case(rng, name, n_nodes=rng.choice([3, 5, 8, 12]), allow_fb=rng.random() < 0.3, max_depth=1)
    uid = 1 + max([s.uid() or 0 for g in base.graphs.values() for s in g] + [0])
    main = base.graphs["main"]
    if how == "node":
        cands = [st for st in main if st.op in ("pass", "add2", "add3", "acc", "count", "sample", "halfgate", "thrower", "delay") and st.dst]
        timers = [st for st in cands if st.op == "delay"]
        srcs = [st.dst for st in main if st.op in ("src", "ticker") and st.dst]
        if srcs and rng.random() < 0.6:
            # a dedicated timer node on a source: input ticks arrive while an earlier wake-up is still pending
            main.append(S("tm_", "delay", rng.choice(srcs), uid=uid, k=rng.choice([2, 3, 5, 6])))
            timers = [main[-1]] * 3
            cands.append(main[-1])
            uid += 1
        if not cands:
            return None
        # timer nodes are preferred: a captured throw in an input-driven evaluation must leave the pending wake-up alone
        x = rng.choice(timers) if timers and rng.random() < 0.6 else rng.choice(cands)
        main.append(S("e_", "err", x.dst, depth=rng.choice([0, 1, 1, 2, 4]), values=rng.choice([0, 0, 1])))
        main.append(S("", "recerr", "e_", uid=uid))
        main.append(S("", "rec", x.dst, uid=uid + 1))
        thrower = x.uid()
        base.meta.update(how="node", thrower=thrower, err_uid=uid)
    else:
        ports = [st.dst for st in main if st.dst and st.op not in ("fb", "delayed")]
        if not ports:
            return None
        arity = rng.choice([1, 1, 2])
        sid = 1 + max([int(g[3:]) for g in base.graphs if g.startswith("sub")] + [-1])
        g = ProgGen(rng, base, UID(uid), allow_sub=False, allow_fb=False, allow_sched=False)
        body = g.body(f"t{sid}", [f"p{i}" for i in range(arity)], rng.choice([2, 3, 5, 7]), 5, True)
        uid = g.uid.n + 1
        cands = [st for st in body if st.op in ("pass", "add2", "add3", "acc", "count", "sample", "halfgate", "thrower") and st.dst]
        if not cands:
            return None
        x = rng.choice(cands)
        if rng.random() < 0.6:
            # an independent timer node ranked after the thrower: its pending wake-up must survive a failed cycle
            ret = body.pop()
            body.append(S("ind_", "delay", "p0", uid=uid, k=rng.choice([2, 3, 5])))
            body.append(S("ind2_", "pass", "ind_", uid=uid + 1))
            body.append(ret)
            uid += 2
        base.graphs[f"sub{sid}"] = body
        main.append(S("r_", "try", *[rng.choice(ports) for _ in range(arity)], sid=sid))
        main.append(S("o_", "tryout", "r_", uid=uid))
        main.append(S("", "tryerr", "r_", uid=uid + 1))
        main.append(S("", "rec", "o_", uid=uid + 2))
        if rng.random() < 0.5:
            main.append(S("d_", "acc", "o_", uid=uid + 3))
            main.append(S("", "rec", "d_", uid=uid + 4))
        thrower = x.uid()
        base.meta.update(how="try", thrower=thrower, err_uid=uid + 1, sub=f"sub{sid}")
    # occurrences to fail, relative to fault-free activations of the thrower
    try:
        flat = M.flatten(base)
    except Exception:
        return None
    ok = copy.deepcopy(base)
    ok.name = name + "_ok"
    ok.meta["role"] = "ok"
    bad = copy.deepcopy(base)
    bad.name = name + "_bad"
    bad.meta["role"] = "bad"
    pattern = rng.choice(["first", "consecutive", "scattered", "second", "all"])
    occs = {"first": [1], "second": [2], "consecutive": [2, 3, 4], "scattered": sorted(rng.sample(range(1, 12), 3)),
            "all": list(range(1, 40))}[pattern]
    bad.faults = [(thrower, "eval", o) for o in occs]
    bad.meta["pattern"] = pattern
    return ok, bad


def gen_map_pair(rng, name):
    """A keyed map with per-key error capture: the thrower sits inside the mapped function, the fault plan picks global
    occurrences of its user code (whichever key's instance is evaluated then)."""
    from .c10 import gen_key_history
    start, end = 0, rng.choice([20, 30, 45])
    c = Case(name, start, end)
    uid = UID(100)
    c.cscripts[1] = gen_key_history(rng, start, end, rng.choice([3, 5, 8]))
    g = ProgGen(rng, c, uid, allow_sub=False, allow_fb=False, allow_sched=False)
    body = g.body("f", ["e_"], rng.choice([2, 3, 5, 7]), 5, True)
    for st in body:
        if st.op == "src":
            st.kw["rel"] = 1
    cands = [st for st in body if st.op in ("pass", "add2", "add3", "acc", "count", "sample", "halfgate", "thrower") and st.dst]
    if not cands:
        return None
    x = rng.choice(cands)
    u = uid.n + 1
    if rng.random() < 0.5:
        ret = body.pop()
        body.append(S("ind_", "delay", "e_", uid=u, k=rng.choice([2, 3, 5])))
        body.append(S("ind2_", "pass", "ind_", uid=u + 1))
        body.append(ret)
    c.graphs["fn0"] = [S("e_", "pass", "p0", uid=90)] + body
    c.graphs["main"] = [S("d", "csrc", shape="tsd", uid=1), S("m", "map", "d", fn="fn1:0"), S("", "cmirror", "m", uid=11),
                        S("", "maperr", "m", uid=12, keysuid=13)]
    c.meta.update(how="map", thrower=x.uid(), entry_uid=90, kind="fn1")
    try:
        M.flatten(_solo_of(c))
    except Exception:
        return None
    ok = copy.deepcopy(c)
    ok.name = name + "_ok"
    ok.meta["role"] = "ok"
    bad = copy.deepcopy(c)
    bad.name = name + "_bad"
    bad.meta["role"] = "bad"
    pattern = rng.choice(["first", "consecutive", "scattered", "scattered", "many"])
    occs = {"first": [1], "consecutive": [2, 3, 4], "scattered": sorted(rng.sample(range(1, 25), 4)),
            "many": sorted(rng.sample(range(1, 60), 15))}[pattern]
    bad.faults = [(x.uid(), "eval", o) for o in occs]
    bad.meta["pattern"] = pattern
    return ok, bad


def _solo_of(c):
    """The mapped function as a nested call on one scripted element (dependency analysis only)."""
    s = Case("solo", c.start, c.end)
    s.scripts = {u: list(sc) for u, sc in c.scripts.items()}
    s.scripts[1001] = [(c.start, 1)]
    s.graphs["sub0"] = copy.deepcopy(c.graphs["fn0"])
    s.graphs["main"] = [S("el", "src", uid=1001, mode=1), S("o", "nested", "el", sid=0), S("", "rec", "o", uid=1004)]
    return s


def generate(rng, tier, seed):
    n = scaled(300 if tier == "quick" else 5000)
    cases = []
    k = 0
    while len(cases) < 2 * n:
        pr = gen_pair(rng, f"c15_{seed}_{k}")
        k += 1
        if pr:
            cases += list(pr)
    nm = scaled(120 if tier == "quick" else 2000)
    k = 0
    got = 0
    while got < nm:
        pr = gen_map_pair(rng, f"c15m_{seed}_{k}")
        k += 1
        if pr:
            cases += list(pr)
            got += 1
    cases += [gen_try_map(rng, f"c15tm_{seed}_{j}") for j in range(max(8, nm // 3))]
    cases += [gen_soft_error(rng, f"c15se_{seed}_{j}") for j in range(max(8, nm // 3))]
    return cases


def gen_soft_error(rng, name):
    """A capturing node whose ORDINARY output has the error schema too (it publishes 'soft findings' as error values and throws on
    hard failures); the same value-producing consumer definition, with equal scalars, is wired once on the ordinary output and
    once on the error output. Oracle: the reader of the error output ticks exactly in the throwing cycles with the exception's
    message, the reader of the ordinary output exactly in the soft-finding cycles; they are two nodes."""
    from .prog import Case
    end = rng.choice([16, 24, 36])
    c = Case(name, 0, end)
    c.scripts[1] = [(t, rng.randint(1, 60)) for t in sorted(rng.sample(range(0, end), rng.choice([6, 10, 15])))]
    order = rng.random() < 0.5
    readers = [S("x", "errlen", "v", uid=20), S("y", "errlen", "e", uid=20)]
    c.graphs["main"] = [S("a", "src", uid=1, mode=1), S("v", "validate", "a", uid=10), S("e", "err", "v")] + \
        (readers if order else readers[::-1]) + [S("", "rec", "x", uid=30), S("", "rec", "y", uid=31)]
    n = len(c.scripts[1])
    c.faults = [(10, "eval", o) for o in sorted(rng.sample(range(1, n + 1), rng.choice([1, 2, 3])))]
    c.meta.update(how="softerr", role="fault")
    return c


def check_soft_error(case, tr):
    res = Result(signature=case.text().split("\n", 1)[1])
    if tr.build_error or not tr.runs:
        res.violations.append(Violation(f"valid program rejected at build: {tr.build_error}"))
        return res
    run = tr.runs[0]
    V = res.violations
    if run.error:
        V.append(Violation(f"run with a captured fault did not continue: {run.error[:200]}"))
        return res
    evals, throws, errs, cyc = summarize(run)
    th = {t: occ for u, t, occ in throws if u == 10}
    soft = sorted(t for t, v in case.scripts[1] if t < case.end and v % 3 == 0 and t not in th)
    x = sorted(t for t, out, ins in evals.get(30, []))
    y = sorted(t for t, out, ins in evals.get(31, []))
    if y != sorted(th):
        V.append(Violation(f"the reader of the ERROR output ticked at {y}; the capturing node threw at {sorted(th)} (its ordinary output, "
                           f"which has the same schema, published soft findings at {soft})"))
    if x != soft:
        V.append(Violation(f"the reader of the ORDINARY output ticked at {x}; soft findings were published at {soft} (throws at {sorted(th)})"))
    starts = {}
    for seq, kind, tk in run.events:
        if kind == "u.start" and int(tk[0]) == 20:
            starts[(int(tk[1]), int(tk[2]))] = 1
    if len(starts) != 2:
        V.append(Violation(f"the same consumer definition wired on the ordinary output and on the error output of one node became "
                           f"{len(starts)} node(s)"))
    for u, t, mod, msg in errs:
        if u == 20 and t in th and f"verif-fault_uid=10_phase=eval_occ={th[t]}" not in msg and "soft_finding" not in msg:
            V.append(Violation(f"error tick at t={t} does not carry the exception's message: {msg[:120]!r}"))
    res.counters = {"soft_error_cases": 1, "soft_error_throws": len(th), "soft_findings_on_the_ordinary_output": len(soft)}
    res.nontrivial = bool(th) and bool(soft)
    return res


def gen_try_map(rng, name):
    """try_except around a sub-graph whose failing node sits inside a keyed map_ child (the map itself captures nothing): the
    exception crosses the map node on its way to the boundary. Oracle (trace only): one error tick per throw, in the cycle of
    the throw, carrying the ORIGINAL message; the run continues."""
    from .prog import Case
    from .c10 import gen_key_history
    end = rng.choice([16, 24])
    c = Case(name, 0, end)
    c.scripts[1] = [(t, rng.randint(1, 50)) for t in range(0, end, rng.choice([1, 2, 3]))]
    nk = rng.choice([1, 2, 3])
    hist = {}
    for k in range(nk):
        for t in sorted(rng.sample(range(1, end - 1), rng.choice([3, 5, 8]))):
            hist.setdefault(t, []).append(f"[{k}]={k * 1000 + t}")
    c.cscripts[201] = [f"{t}|" + ",".join(ops) for t, ops in sorted(hist.items())]
    wrap = rng.choice(["none", "none", "nested"])
    fn = [S("e", "pass", "p0", uid=90), S("x", "acc", "e", uid=91), S("", "RET", "x")]
    body = [S("d", "csrc", shape="tsd", uid=201), S("m", "map", "d", fn="fn1:0"), S("s", "reduce", "m", fn="sum"), S("q", "add2", "s", "p0", uid=202),
            S("", "RET", "q")]
    c.graphs["fn0"] = fn
    if wrap == "nested":
        c.graphs["sub1"] = body
        c.graphs["sub0"] = [S("n", "nested", "p0", sid=1), S("w", "pass", "n", uid=203), S("", "RET", "w")]
    else:
        c.graphs["sub0"] = body
    c.graphs["main"] = [S("a", "src", uid=1, mode=1), S("r_", "try", "a", sid=0), S("o_", "tryout", "r_", uid=300), S("", "tryerr", "r_", uid=301),
                        S("", "rec", "a", uid=302)]
    thrower = rng.choice([90, 91])
    c.faults = [(thrower, "eval", rng.choice([1, 2, 3, 4]))]
    c.meta.update(how="trymap", thrower=thrower, role="fault")
    return c


def check_try_map(case, tr):
    res = Result(signature=case.text().split("\n", 1)[1])
    run = tr.runs[0]
    V = res.violations
    if run.error:
        V.append(Violation(f"run with a fault inside a try_except sub-graph did not continue: {run.error[:200]}"))
        return res
    evals, throws, errs, cyc = summarize(run)
    my = [(t, msg) for u, t, _, msg in errs if u == 301]
    thrower = case.meta["thrower"]
    th = [(t, occ) for u, t, occ in throws if u == thrower]
    if sorted(t for t, _ in my) != sorted(t for t, _ in th):
        V.append(Violation(f"error output ticked at {sorted(t for t, _ in my)} but the node inside the map child threw at {sorted(t for t, _ in th)}"))
    for t, occ in th:
        msgs = [m for te, m in my if te == t]
        want = f"verif-fault_uid={thrower}_phase=eval_occ={occ}"
        if msgs and want not in msgs[0]:
            V.append(Violation(f"error tick at t={t} (exception raised inside a map_ child below the try_except boundary) does not carry the "
                               f"exception's message {want!r}: {msgs[0][:160]!r}"))
    if th and cyc and cyc[-1] <= th[0][0] and any(t > th[0][0] for t, _ in case.scripts[1] if t < case.end):
        V.append(Violation(f"no cycle after the captured throw at t={th[0][0]} although the driving source ticks later"))
    res.counters = {"try_around_map_throws": len(th), "try_around_map_cases": 1 if th else 0}
    res.nontrivial = bool(th)
    return res


_ok_runs = {}


def summarize(run):
    evals = {}
    for ue in run.uevals():
        evals.setdefault(ue.uid, []).append((ue.t, ue.out, tuple(ue.ins)))
    throws, errs, cyc = [], [], []
    t_now = None
    for seq, kind, tk in run.events:
        if kind == "C<" and int(tk[0]) == 0:
            t_now = int(tk[1])
            cyc.append(t_now)
        elif kind == "u.throw":
            throws.append((int(tk[0]), t_now, int(tk[2])))
        elif kind == "u.err":
            errs.append((int(tk[0]), int(tk[3]), int(tk[4]), tk[5]))
    return evals, throws, errs, cyc


def summarize_map(case, run):
    """Per child instance (identified by key and start cycle): user-code runs, throws; plus both mirrors."""
    from .c10 import epochs_from_writes
    from .gen_coll import parse_dumps, write_log
    gparent, gstart, gstop = {}, {}, {}
    throws = []                      # (gid, t, occ)
    stack = []
    tnow = None
    in_cycle = False
    for seq, kind, tk in run.events:
        if kind == "C<" and tk[0] == "0":
            tnow = int(tk[1])
            in_cycle = True
        elif kind == "C>" and tk[0] == "0":
            in_cycle = False
        elif kind == "G+":
            gparent[int(tk[0])] = int(tk[1])
            gstart[int(tk[0])] = tnow if tnow is not None else case.start
        elif kind == "G->":
            gstop[int(tk[0])] = tnow if in_cycle else "end-of-run"
        elif kind == "E<":
            stack.append(int(tk[0]))
        elif kind == "E>":
            if stack:
                stack.pop()
        elif kind == "u.throw":
            throws.append((stack[-1] if stack else -1, tnow, int(tk[2])))
            # an exception unwinds the brackets of the throwing node and of the enclosing map node
            stack = []
    inst = {}
    for ue in run.uevals():
        if gparent.get(ue.gid, -1) >= 0:
            inst.setdefault(ue.gid, {})[(ue.uid, ue.t)] = (ue.out, tuple((x[0], x[3]) for x in ue.ins))
    entry = case.meta["entry_uid"]
    ident = {}
    for gid, runs in inst.items():
        firsts = sorted((t, v) for (u, t), (o, v) in runs.items() if u == entry)
        if firsts:
            ident[gid] = (firsts[0][1][0][1] // 1000, gstart.get(gid))
    eps = epochs_from_writes(dict(write_log(run).get(1, [])), case.end)
    dumps = parse_dumps(run)
    out_m = {t: d for t, d, _ in dumps.get(11, [])}
    err_m = {t: d for t, d, _ in dumps.get(12, [])}
    errk_m = {t: d for t, d, _ in dumps.get(13, [])}
    return dict(inst=inst, ident=ident, throws=throws, gstop=gstop, eps=eps, out=out_m, err=err_m, errk=errk_m)


def check_map(case, tr):
    res = Result(signature=case.text().split("\n", 1)[1])
    run = tr.runs[0]
    key = case.name.rsplit("_", 1)[0]
    if case.meta["role"] == "ok":
        if run.error:
            res.violations.append(Violation(f"fault-free run failed: {run.error}"))
        _ok_runs[key] = summarize_map(case, run)
        return res
    V = res.violations
    if run.error:
        V.append(Violation(f"run with per-key error capture did not continue: {run.error[:200]}"))
        return res
    if key not in _ok_runs:
        res.inconclusive = "fault-free twin missing"
        return res
    ok = _ok_runs.pop(key)
    bad = summarize_map(case, run)
    thrower = case.meta["thrower"]
    # dependency structure inside the mapped function
    flat = M.flatten(_solo_of(case))
    children = {i.id: set() for i in flat.insts}
    for i in flat.insts:
        for r in i.ins:
            children[r.target.id].add(i.id)
    th_ids = [i.id for i in flat.insts if i.uid == thrower]
    desc, stack = set(), list(th_ids)
    while stack:
        k = stack.pop()
        if k in desc:
            continue
        desc.add(k)
        stack += list(children[k])
    anc, stack = set(), [r.target.id for i in flat.insts if i.uid == thrower for r in i.ins]
    while stack:
        k = stack.pop()
        if k in anc:
            continue
        anc.add(k)
        stack += [r.target.id for r in flat.insts[k].ins]
    anc_uids = {flat.insts[k].uid for k in anc if flat.insts[k].uid not in (None, 1001, 1004)}
    by_ident_ok = {v: g for g, v in ok["ident"].items()}
    by_ident_bad = {v: g for g, v in bad["ident"].items()}
    throwing = {}                       # ident -> sorted throw cycles
    for gid, t, occ in bad["throws"]:
        idn = bad["ident"].get(gid)
        if idn is None:
            # the instance threw before its entry node logged anything: cannot happen (the entry is first), report
            V.append(Violation(f"throw at t={t} inside an unidentified child graph {gid}"))
            continue
        throwing.setdefault(idn, []).append((t, occ))
    other_runs = 0
    other_insts = 0
    # 1. every other key's instance is untouched
    for idn in set(by_ident_ok) | set(by_ident_bad):
        if idn in throwing:
            continue
        a = ok["inst"].get(by_ident_ok.get(idn), {})
        b = bad["inst"].get(by_ident_bad.get(idn), {})
        other_insts += 1
        other_runs += len(a)
        if a != b:
            d = sorted(set(a.items()) ^ set(b.items()), key=lambda kv: kv[0][1])[:3]
            V.append(Violation(f"key {idn[0]} (instance started t={idn[1]}) never failed but its runs differ from the fault-free run "
                               f"(failing keys {sorted(k for k, _ in throwing)}): {d}"))
        ga, gb = by_ident_ok.get(idn), by_ident_bad.get(idn)
        if ga is not None and gb is not None and ok["gstop"].get(ga) != bad["gstop"].get(gb):
            V.append(Violation(f"key {idn[0]} (instance started t={idn[1]}) never failed but stopped at t={bad['gstop'].get(gb)} "
                               f"instead of t={ok['gstop'].get(ga)}"))
    # 2. failing instances: same activations of the thrower, identical upstream runs, identical history before the first throw
    later = 0
    for idn, lst in throwing.items():
        a = ok["inst"].get(by_ident_ok.get(idn), {})
        b = bad["inst"].get(by_ident_bad.get(idn), {})
        tc = sorted(t for t, _ in lst)
        ok_act = sorted(t for (u, t) in a if u == thrower)
        act = sorted([t for (u, t) in b if u == thrower] + tc)
        later += sum(1 for t in ok_act if t > tc[0])
        if ok_act != act:
            V.append(Violation(f"key {idn[0]}: failing node uid {thrower} activations {act[:10]} differ from the fault-free run "
                               f"{ok_act[:10]} after a captured error (threw at {tc[:6]})"))
        for u in anc_uids | {case.meta["entry_uid"]}:
            ra = {k: v for k, v in a.items() if k[0] == u}
            rb = {k: v for k, v in b.items() if k[0] == u}
            if ra != rb:
                V.append(Violation(f"key {idn[0]}: uid {u} is upstream of the failing node but ran at {sorted(t for _, t in rb)[:10]} "
                                   f"instead of {sorted(t for _, t in ra)[:10]} (threw at {tc[:6]})"))
        pa = {k: v for k, v in a.items() if k[1] < tc[0]}
        pb = {k: v for k, v in b.items() if k[1] < tc[0]}
        if pa != pb:
            V.append(Violation(f"key {idn[0]}: runs before the first throw at t={tc[0]} differ from the fault-free run"))
    # 3. errors are reported under the failing key only, once per throwing cycle, in that cycle, carrying what()
    def epoch_of(k, t):
        for ep in bad["eps"].get(k, []):
            if ep["start"] <= t and (ep["stop"] is None or t < ep["stop"]):
                return ep["start"]
        return None
    thr_by_t = {}
    for idn, lst in throwing.items():
        for t, occ in lst:
            thr_by_t.setdefault(t, {})[idn[0]] = occ
    err_ticks = 0
    for t in sorted(set(bad["err"]) | set(thr_by_t)):
        d = bad["err"].get(t)
        want = thr_by_t.get(t, {})
        if d is None:
            V.append(Violation(f"keys {sorted(want)} failed at t={t} but the per-key error output did not tick"))
            continue
        modk = {int(k) for k in d["modk"]}
        if modk != set(want):
            V.append(Violation(f"error output at t={t}: ticked keys {sorted(modk)} != keys whose instance failed {sorted(want)}"))
        for k, occ in want.items():
            it = d["items"].get(str(k))
            err_ticks += 1
            if it is None or f"verif-fault uid={thrower} phase=eval occ={occ}" not in it.get("val", "").replace("_", " "):
                V.append(Violation(f"error output at t={t}: entry of key {k} does not carry the exception message: "
                                   f"{(it or {}).get('val', '<missing>')[:100]!r}"))
        # entries present = keys whose current epoch has failed so far
        have = {int(k) for k, it in d["items"].items() if it["v"]}
        exp_have = set()
        for idn, lst in throwing.items():
            if any(tt <= t for tt, _ in lst) and epoch_of(idn[0], t) == idn[1]:
                exp_have.add(idn[0])
        if have != exp_have:
            V.append(Violation(f"error output at t={t}: holds entries for keys {sorted(have)} but the live instances that failed so "
                               f"far are {sorted(exp_have)}"))
    # 3b. the key set of the error output (what `keys_(errors)` or a map over the errors sees) holds the failing keys only
    keyset_ticks = 0
    for t, d in sorted(bad["errk"].items()):
        keyset_ticks += 1
        members = {int(x) for x in d["vals"]}
        exp_members = set()
        for idn, lst in throwing.items():
            if any(tt <= t for tt, _ in lst) and epoch_of(idn[0], t) == idn[1]:
                exp_members.add(idn[0])
        if members != exp_members:
            V.append(Violation(f"key set of the error output at t={t}: {sorted(members)} but the keys whose live instance has failed so "
                               f"far are {sorted(exp_members)}"))
    for t, want in thr_by_t.items():
        newly = {k for k in want if not any(tt < t and epoch_of(k, tt) == epoch_of(k, t) for (kk, st), lst in throwing.items() if kk == k
                                             for tt, _ in lst)}
        if newly and t not in bad["errk"]:
            V.append(Violation(f"keys {sorted(newly)} failed for the first time at t={t} but the key set of the error output did not tick"))
    if ok["errk"] and any(d["vals"] for d in ok["errk"].values()):
        V.append(Violation(f"fault-free run: the key set of the error output is not empty"))
    if ok["err"]:
        V.append(Violation(f"fault-free run produced error ticks at {sorted(ok['err'])[:5]}"))
    # 4. the map output of every key epoch that never failed is the fault-free stream
    def streams(m):
        out = {}
        for t in sorted(m):
            for k in m[t]["modk"]:
                it = m[t]["items"].get(k)
                out.setdefault((int(k), epoch_of(int(k), t)), []).append((t, it["val"] if it else None))
        return out
    sa, sb = streams(ok["out"]), streams(bad["out"])
    out_cmp = 0
    for ke in set(sa) | set(sb):
        if ke in throwing:
            continue
        out_cmp += len(sa.get(ke, []))
        if sa.get(ke) != sb.get(ke):
            V.append(Violation(f"map output of key {ke[0]} (epoch from t={ke[1]}, never failed) differs from the fault-free run: "
                               f"{sb.get(ke, [])[:5]} != {sa.get(ke, [])[:5]}"))
    del V[8:]
    n_thr = len(bad["throws"])
    res.counters = {"map_key_throws": n_thr, "map_error_ticks_checked": err_ticks, "map_error_key_set_ticks": keyset_ticks, "map_other_key_runs_compared": other_runs,
                    "map_other_instances": other_insts, "map_other_key_output_ticks": out_cmp,
                    "map_later_activations_checked": later, "map_failing_instances": len(throwing)}
    res.nontrivial = n_thr >= 1 and other_insts >= 1
    return res


def check(case, tr):
    res = Result(signature=case.text().split("\n", 1)[1])
    if tr.build_error:
        res.violations.append(Violation(f"valid program rejected at build: {tr.build_error}"))
        return res
    if case.meta.get("how") == "map":
        return check_map(case, tr)
    if case.meta.get("how") == "softerr":
        return check_soft_error(case, tr)
    if case.meta.get("how") == "trymap":
        return check_try_map(case, tr)
    run = tr.runs[0]
    key = case.name.rsplit("_", 1)[0]
    if case.meta["role"] == "ok":
        if run.error:
            res.violations.append(Violation(f"fault-free run failed: {run.error}"))
        _ok_runs[key] = summarize(run)
        return res
    V = res.violations
    if run.error:
        V.append(Violation(f"run with a captured fault did not continue: {run.error[:200]}"))
        return res
    if key not in _ok_runs:
        res.inconclusive = "fault-free twin missing"
        return res
    ok_evals, _, ok_errs, ok_cyc = _ok_runs.pop(key)
    evals, throws, errs, cyc = summarize(run)
    thrower = case.meta["thrower"]
    flat = M.flatten(case)
    th_insts = [i for i in flat.insts if i.uid == thrower]
    # dependency cone (descendants) of the thrower, and its ancestors
    children = {i.id: set() for i in flat.insts}
    for i in flat.insts:
        for r in i.ins:
            children[r.target.id].add(i.id)
        if i.fb_source is not None:
            children[i.fb_source.target.id].add(i.id)
    cone = set()
    stack = [i.id for i in th_insts]
    if case.meta["how"] == "try":
        # the failing entity is the wrapped sub-graph: everything inside it and everything downstream
        stack += [i.id for i in flat.insts if any(p[0] == "try" for p in i.path)]
    while stack:
        k = stack.pop()
        if k in cone:
            continue
        cone.add(k)
        stack += list(children[k])
    anc = set()
    stack = [r.target.id for i in th_insts for r in i.ins]
    while stack:
        k = stack.pop()
        if k in anc:
            continue
        anc.add(k)
        stack += [r.target.id for r in flat.insts[k].ins]
    cone_uids = {flat.insts[k].uid for k in cone}
    # feedback may carry the disturbance anywhere: ancestors that are also in the cone are not "upstream only"
    anc_uids = {flat.insts[k].uid for k in anc if k not in cone}
    if case.meta["how"] == "try":
        anc_uids = {flat.insts[k].uid for k in anc if flat.insts[k].id not in
                    {c for c in cone if not any(p[0] == "try" for p in flat.insts[c].path)} and
                    flat.insts[k].uid not in {flat.insts[c].uid for c in cone if not any(p[0] == "try" for p in flat.insts[c].path)}}
        anc_uids -= {thrower}
    # 1. one error tick per throwing cycle, same cycle, message carries what()
    th = [x for x in throws if x[0] == thrower]
    my_errs = [e for e in errs if e[0] == case.meta["err_uid"]]
    throw_cycles = sorted({t for _, t, _ in th})
    err_cycles = sorted(t for _, t, m, _ in my_errs)
    if throw_cycles != err_cycles:
        V.append(Violation(f"error ticks at cycles {err_cycles[:8]} but the captured node threw in cycles {throw_cycles[:8]}"))
    for (_, t, occ) in th:
        msgs = [m for _, te, _, m in my_errs if te == t]
        if msgs and f"verif-fault_uid={thrower}_phase=eval_occ={occ}" not in msgs[0]:
            V.append(Violation(f"error tick at t={t} does not carry the exception message: {msgs[0][:120]!r}"))
    # 2. same last cycle reached / nodes outside the cone identical
    outside = 0
    for u in set(ok_evals) | set(evals):
        if u in cone_uids or u is None:
            continue
        outside += len(ok_evals.get(u, []))
        if ok_evals.get(u) != evals.get(u):
            a, b = ok_evals.get(u, []), evals.get(u, [])
            diff = next((x for x in zip(a, b) if x[0] != x[1]), (a[len(b):len(b) + 1], b[len(a):len(a) + 1]))
            V.append(Violation(f"uid {u} does not depend on the failing node but its runs differ from the fault-free run: {diff}"))
    # 2b. single captured node: the whole run equals the reference model in which exactly the planned evaluations are abandoned
    #     (no output, no state change, no new requests - pending wake-ups stay pending)
    model_runs = pending_timer = 0
    if case.meta["how"] == "node":
        from .c03 import compare_runs, classify_with_emulations
        mr = M.simulate(flat, captured={thrower})
        mism = compare_runs(case, run, mr)
        if mism:
            def cmp2(c, r, m):
                return compare_runs(c, r, m)
            found = None
            for flags in ({"emulate_sampled_start": True}, {"emulate_stale": True}, {"emulate_sampled_start": True, "emulate_stale": True}):
                mr2 = M.simulate(flat, captured={thrower}, **flags)
                if (mr2.stale or mr2.sampled or mr2.stale_armed) and not compare_runs(case, run, mr2):
                    found = mr2
                    break
            if found is None:
                V.append(Violation("run with a captured fault differs from the model that abandons exactly the throwing evaluations: "
                                   + "; ".join(mism[:3])))
            else:
                mr = found
                if found.sampled:
                    V.append(Violation(f"all-Unchecked node ran at child start on an unset boundary source: {found.sampled[:3]}",
                                       "nested-start-samples-unset-source"))
                if found.stale or found.stale_armed:
                    V.append(Violation(f"user code ran at a cancelled wake-up time: {found.stale[:3]} {found.stale_armed[:3]}",
                                       "cancelled-wakeup-still-evaluates"))
        model_runs = len(mr.runs)
        pending_timer = mr.stats.get("captured_throw_with_pending_timer", 0)
    # 3. the thrower is activated in exactly the same cycles as in the fault-free run
    ok_act = sorted(t for t, _, _ in ok_evals.get(thrower, []))
    act = sorted([t for t, _, _ in evals.get(thrower, [])] + [t for _, t, _ in th])
    later = 0
    is_timer = any(i.op in M.SCHEDULER_OPS for i in th_insts)
    if is_timer:
        later = sum(1 for t in act if throw_cycles and t > throw_cycles[0])     # decided by the model oracle above
    elif not any(k in cone for k in anc):      # feedback loop through the thrower: activations legitimately change
        later = sum(1 for t in ok_act if throw_cycles and t > throw_cycles[0])
        if ok_act != act:
            missing = [t for t in ok_act if t not in act]
            extra = [t for t in act if t not in ok_act]
            V.append(Violation(f"failing node uid {thrower} activations differ from the fault-free run after a captured error: "
                               f"missing at {missing[:6]}, extra at {extra[:6]} (threw at {throw_cycles[:6]})"))
        # upstream nodes (inside a wrapped sub-graph too) run identically
        for u in anc_uids:
            if u is None:
                continue
            if ok_evals.get(u) != evals.get(u):
                a, b = ok_evals.get(u, []), evals.get(u, [])
                ta, tb = [x[0] for x in a], [x[0] for x in b]
                V.append(Violation(f"uid {u} is upstream of the failing node but ran at {tb[:10]} instead of {ta[:10]} "
                                   f"(threw at {throw_cycles[:6]})"))
    # 4. nodes of the wrapped sub-graph that neither feed nor read the thrower and were not due in a throwing cycle
    #    (where the child's evaluation is legitimately cut short) must run exactly as in the fault-free run: in
    #    particular their pending timers must survive the failed cycle.
    unrelated_checked = 0
    if case.meta["how"] == "try" and not any(k in cone for k in anc):
        desc = set()
        stack = [i.id for i in th_insts]
        while stack:
            k = stack.pop()
            if k in desc:
                continue
            desc.add(k)
            stack += list(children[k])
        for i in flat.insts:
            if not any(p[0] == "try" for p in i.path) or i.uid is None or i.id in desc or i.id in anc or i.uid == thrower:
                continue
            # its own inputs must also be undisturbed
            up, stack = set(), [r.target.id for r in i.ins]
            while stack:
                k = stack.pop()
                if k in up:
                    continue
                up.add(k)
                stack += [r.target.id for r in flat.insts[k].ins]
            if up & desc:
                continue
            ok_t = [x[0] for x in ok_evals.get(i.uid, [])]
            if set(ok_t) & set(throw_cycles):
                continue
            if any(set(x[0] for x in ok_evals.get(flat.insts[k].uid, [])) & set(throw_cycles) for k in up
                   if any(p[0] == "try" for p in flat.insts[k].path)):
                continue
            unrelated_checked += 1
            if ok_evals.get(i.uid) != evals.get(i.uid):
                bt = [x[0] for x in evals.get(i.uid, [])]
                V.append(Violation(f"uid {i.uid} inside the wrapped sub-graph is independent of the failing node and was not due in a "
                                   f"throwing cycle, but ran at {bt[:10]} instead of {ok_t[:10]} (threw at {throw_cycles[:6]})"))
    first_in_child = 1
    if case.meta["how"] == "try":
        body = case.graphs[case.meta["sub"]]
        first_in_child = 0 if any(any(p[0] == "try" for p in flat.insts[k].path) for k in anc) else 1
    res.counters = {"captured_throws": len(th), "later_activations_checked": later, "outside_cone_runs_compared": outside,
                    "independent_child_nodes_checked": unrelated_checked, "model_runs_compared": model_runs,
                    "captured_throw_with_pending_timer": pending_timer,
                    "try_except_cases": 1 if case.meta["how"] == "try" and th else 0,
                    "thrower_not_first_in_child": 1 if case.meta["how"] == "try" and th and not first_in_child else 0}
    res.nontrivial = bool(th) and later >= 1
    return res
