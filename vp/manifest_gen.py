"""Regenerates MANIFEST.json from the table below (keeps it valid at all times)."""
import json, os

VERIF = os.path.dirname(os.path.dirname(os.path.abspath(__file__)))
ALL = [f"C{k:02d}" for k in range(1, 21)]

def _c(category, text, ref, note, technique, engine="hgdrive"):
    return dict(category=category, text=text, design_ref=ref, note=note, technique=technique, engine=engine)


# families added while red-teaming (appended to the level text of the property)
EXT = {
    "C01": " Also: reference selections (readers depend on selector and all targets), collection / map / switch / reduce programs (compiled-edge and forward-scan oracles), and mesh_ programs with pause/resume and captured errors (user code at most once per instance, node and cycle). Round 5: mesh_ instances with two references (diamonds, re-rank when a root gains a dependency on a new key): a reader never keeps a dependency's previous result when both were due in the same scan. Round 6: maps whose pass_through argument comes out of a chain of nodes (the tagged edge still ranks the map after its producer); dependency cycles closed through a CHAIN of delayed bindings must be rejected too.",
    "C02": " Also: switch / map instances with timers (standalone-instance oracle) and reductions whose combiner graphs schedule themselves (every request of a live combiner honoured at its time). Round 4: keyed-map children that arm their first wake-up from a start hook and read nothing at creation; map_ over dynamic lists with self-scheduling children. Round 5: try_except children with timers and a node that throws (pending wake-ups survive the caught exception). Round 6: mesh_ instances with a self-scheduling node before their mesh reference (wake-ups armed before a pause are owed after the resume).",
    "C03": " Also: packed structured parameters, sample3 with wiring-time passive markers. Round 4: trigger + passive structural bundle behind all-valid / default gates, fully and partially (null-source field) wired. Round 6: a node with two assembled list inputs that switches one of them passive / active at RUN TIME (make_passive): ticks of the passive list alone never run it, the other list still does.",
    "C04": " Also: consumers bound through references (set / dictionary / sibling list elements), int32-keyed and nested-composite shapes, window clears with removed-value / cleared flags. Round 4: dynamic lists (no fixed size); the indices named by a list's own per-tick delta. Round 5: explicit invalidation of whole list / bundle / dictionary endpoints. Round 6: sets assigned as a whole (copy_value_from), also as dictionary / bundle children.",
    "C05": " Also: stdlib to_window duration and tick windows (ring growth after wrap, expiry), int32-keyed sets / dictionaries with capacity-boundary histories, window clears. Round 4: dynamic lists; list delta indices == children ticked. Round 6: whole-value assignment of sets (empty onto empty, what it already holds, arbitrary) in every set-bearing shape.",
    "C06": " Also: packed-parameter near-duplicates, passive-marker near-duplicates, one node with two error-capture requests of different detail (captured error values compared across wiring orders). Round 4: side-effecting nodes with neither input nor output wired twice with equal scalars stay two nodes. Round 5: node pairs of one definition with different capture options; each error output carries the detail of its own request. Round 6: forwarded forward declarations (a delayed binding bound to a second delayed binding, either binding wired first).",
    "C07": " Also: map / switch / reduce / record-replay cases, captured errors with differing capture options, a lazily registered polymorphic bundle family; building (wiring and make_executor) is serialised in threaded contexts. Round 4: the same recording program run three times over a carried GlobalState (sparse and cycle-aligned layouts) leaves the same buffer. Round 5: cases that select a GlobalContext on their own thread while other threads build and run. Round 6: the same graph built and run twice under one selected GlobalContext (every build sees the user's state as handed in; it still holds the user's value afterwards).",
    "C08": " Also: collection-shaped feedback (reader delta == writer delta one step later), feedback loops inside try_except bodies with captured faults, passive readers next to active twins. Round 5: feedback inside keyed-map children.",
    "C09": " Also: nested calls inside switch / map instances (standalone-instance oracle with the F18 emulation) and sub-graphs whose result re-arranges one structured 2x2 parameter (inline, nested, nested twice vs the re-arranged source). Round 5: sub-graphs that capture ports of the enclosing graph (two projections of one output). Round 6: wake-ups of sub-graphs that run as dynamic children (map_ per key / per list element, mesh_) by the C02 trace oracle; passive() call-site arguments only where every consumer of the parameter is a plain node.",
    "C10": " Also: per-key error capture twins (failure isolation), two multiplexed dictionaries with differing key sets, nested calls inside the mapped function, maps nested in map instances over a shared dictionary. Round 6: the mapped dictionary reaches map_ through a re-pointed reference (selection between two dictionaries with the same keys): the surviving instances are re-bound, see the new element's value as a tick and keep their state; pass_through arguments produced by a chain of copy nodes; maps with an EXPLICIT key set (__keys__): instances live with their key in the set, keys mapped before their element exists, dictionary keys that are never mapped; F33 witness (key set of a map output).",
    "C11": " Also: trees with 65-140 live elements, dictionary-valued reductions with a key-wise merge combiner. Round 4: ordered (non-associative) reductions: left fold in key order from the zero over contiguous keys, with an order-sensitive combiner. Round 5: a live, re-pointed zero (followed while the collection is empty / holds one element). Round 6: the reduced dictionary is a map_ output whose elements are references re-pointed by a broadcast flag while the element is silent (operator, node and sub-graph combiners, with / without zero).",
    "C12": " Also: several unmatched keys with a default branch, nested calls inside branches, twin switches differing only in reload-on-tick. Round 4: switch over one structured argument assembled from two ports (branch returns the parameter / a re-assembly / nodes on its elements); selections on held values. Round 6: branches that return their parameter; branches whose result is a SET (the switch owns a collection-valued output): every instantiation - also the same spec again under reload-on-tick or default-to-default - starts from the empty set, deltas cohere with the previous reading.",
    "C13": " Also: set / dictionary targets with retarget deltas (also when the old target writes in the retarget cycle), selections between sibling elements of one list output. Round 4: key-set (keys_) and dictionary readers inline, nested and nested twice below a re-pointed dictionary reference. Round 5: references handed through a nested pass-through, judged at the retarget cycles. Round 6: stdlib if_cmp (three-way selection) in the random programs; tsd[key] (getitem_) with a ticking key as the source of the reference (re-point, absent key, re-bind; readers inline and nested); a non-de-duplicating producer (republish) between the reference and its readers - an unchanged reference applied again never ticks; stdlib if_ (a stream routed to one of two reference-shaped outputs, the other one empty; re-ticks of the condition re-publish without de-duplication).",
    "C14": " Also: map / switch / reduce children created and retired mid-run, add-only key histories with k-th stop faults, reductions with a zero ending on one key, switch branches ending in nested graphs. Round 4: constructed shutdown-sweep cases (map / reduction / ordered reduction with several live children, k-th stop failing; ordered chains that shrink right after a new maximum). Round 5: real-time graphs stopped with values still queued: start order and reverse stop order (lifecycle observer). Round 6: mesh_ instances alive at shutdown with holes in the slot table, fault-free and with stop faults (F30 fixed, F31 known).",
    "C15": " Also: keyed-map per-key capture (errors under the failing key only, key set of the error output), captured timer nodes checked against the abandoned-evaluation reference model. Round 4: try_except around a sub-graph whose failing node sits inside a keyed map child (message, time, once). Round 6: a capturing node whose ORDINARY output has the error schema too; the same consumer definition on both ports stays two nodes, the error reader ticks exactly in the throwing cycles.",
    "C16": " Also: conflating dictionary sources with no-effect deltas, graphs with several push sources, a ThreadSanitizer pass over the scenarios (thorough / VERIF_TSAN=1), bounded stop-to-return latency. Round 4: every source of a multi-source graph has its own capacity; the conflating drain criterion is the last accepted value. Round 5: start / stop order of the nodes of the push scenarios. Round 6 (false alarm removed): refusals after the last cycle of a run that reached its end time on its own are the engine's shutdown.",
    "C17": " Also: push-while-waiting scenarios (C16 history checker), idle runs stopped early (bounded stop-to-return latency), lagging bursts of up to 1024 smallest-step cycles followed by owed timers, ThreadSanitizer pass. Round 4: push sources that own timers (scheduler extension), alone and next to a plain push source, pushes before the timers fall due. Round 5: stops while several blocking producers are parked on a full queue. Round 6: stop requests that arrive while the graph is still STARTING (from a start hook / from another thread during a slow start); wall-clock alarms requested as a delay on a lagging cycle.",
    "C18": " Also: a scheduler-using node on the runtime's generic (NodeBuilder::native) evaluate path with validity gating, against its own pending-set model. Round 4: scheduler-using nodes inside children of a keyed map, a reduction and a dynamic-list map (trace oracle: every pending time of a live child's node wakes it). Round 6: a real-time phase for wall-clock alarms (absolute and as a delay) requested while the cycle lags the wall clock: never earlier than the later of cycle time and wall clock, and delivered.",
    "C19": " Also: repeated variables at different nesting depths, nominal bundle types with identical field lists, and the metamorphic relation 'mirrored parameter order gives the same match and rank'. Round 4: REF / SIGNAL leaves below dictionary and list patterns. Round 5: resolutions with pinned sizes over candidates whose size variables have different names. Round 6: overloads on concrete TS[named bundle] parameters over generated multiple-inheritance hierarchies (unequal parent chains joining at shared ancestors, parents listed in either order): the winner is the base the fewest parent edges away (breadth-first distance computed by the oracle), equal distances are ambiguous.",
    "C20": " Also: nested-composite bundle shapes, int32-keyed shapes, long dense recordings whose first gap comes after 64-129 cycles. Round 4: dynamic lists; the persistent memory backend (absolute-time entries, appended) through record and replay; recorders inside re-entered switch branches. Round 5: replays that start later than the recording. Round 6: the recovery FOLD of a memory-backend recording (what a component seeds its inputs from) at every recorded instant equals the value the series really had then (live value copies compared with the engine's equals()).",
}

TRUST = "Trusts the g++-12 -O1 build of /repo's working tree with harness-side shims (chrono I/O, simdjson utf8, named time zones), truthful harness nodes/observer, and the stated oracle."

CHECKS = {
    "C01": _c("exploration",
              "Trace monitors over generated programs: (static) every compiled edge has source<target except the declared rank-free feedback slot, every program-level dependency (direct, structural TSL, across nested boundaries, explicit rank dependencies, delayed bindings) has index(producer)<index(consumer) in the common graph; (dynamic) node indices strictly increase inside every graph-evaluation bracket of the LifecycleObserver stream (at most once, forward scan), child graphs evaluate only inside their owner's node bracket at the owner's time, same-cycle producer runs precede consumer runs; programs with a cycle closed through a delayed binding or rank-dependency pair must be rejected at finish(), the feedback-cut twin must build.",
              "DESIGN.md section 3 C01", TRUST, "runtime monitoring: lifecycle-observer ordering monitor + compiled-artefact check over generated programs"),
    "C02": _c("exploration",
              "Every wake-up request logged by instrumented nodes (source scripts scheduled from start and from eval, tickers, delay timers, scheduler scripts with tags/cancels, feedback, timers inside nested children) must have a root cycle at exactly its time that evaluates the requesting node; the root cycle sequence must equal the model's (no drop, shift, phantom), be strictly increasing inside [start,end); after each cycle next_scheduled_time() must equal the model's earliest pending request and the minimum over per-node slots.",
              "DESIGN.md section 3 C02", TRUST + " SchedModel is the pending-set specification.", "runtime monitoring: request/cycle trace checker + reference model of pending wake-ups"),
    "C04": _c("exploration",
              "Two passive probe nodes per output (different ranks) woken every smallest step by a dense clock dump, for the endpoint and recursively every child of TSB/TSL/TSD, valid / all_valid / modified / last_modified_time / value / delta readability; the oracle is computed from the producer's write log alone: modified(t) iff written at t (parents iff a child was), lmt = latest write, valid from first write until invalidation; both probes and the tick-driven mirror must agree; collection delta parts must be empty in cycles without a write.",
              "DESIGN.md section 3 C04", TRUST + " vp/collmodel.py tracks write times per endpoint.", "runtime monitoring: passive probe consumers vs write-log oracle"),
    "C05": _c("exploration",
              "Mirror nodes read value/added/removed/modified items/removed values/canonical delta every tick of scripted TSS/TSD/TSL/TSB/TSW sources (nested shapes, cancelling and re-inserting mutations within a cycle, growth to 200 keys). Checked per tick: value == shadow model; value_t == value_{t-1} + delta_t; added/removed disjoint, added present, removed absent now and present before; delta == net effect of the cycle's script; modified keys == surviving keys written this cycle; window == last N pushes with the minimum-count gate.",
              "DESIGN.md section 3 C05", TRUST + " vp/collmodel.py is the value/delta semantics (calibrated: erase+re-insert in one cycle resurrects the child).", "runtime monitoring: mirror-node log vs shadow state + delta self-coherence"),
    "C06": _c("exploration",
              "Metamorphic: one dataflow wired under several admissible statement orders (incl. consumer-before-producer via delayed bindings) must give identical user-code runs and streams (pairwise and vs the model); exact duplicate sub-expressions may share (instance count 1 or 2, outputs unchanged), wirings differing in exactly one input or one scalar and duplicated sinks must stay distinct (instance counts from start logs).",
              "DESIGN.md section 3 C06", TRUST, "runtime monitoring: metamorphic differential over wiring orders + instance counting"),
    "C07": _c("exploration",
              "Each case's complete trace (lifecycle events, user-code logs incl. GlobalState reads/writes, endpoint dumps) must be byte-identical across: a fresh process; a random position in a shuffled sequence of other cases in one process; three runs from one reused GraphExecutorBuilder; busy-waits injected into user code; 8 executors running concurrently on threads (two shuffles). Thorough tier repeats the concurrent batches under a -fsanitize=thread build of the tree and treats any report with an hgraph frame as a violation.",
              "DESIGN.md section 3 C07", TRUST + " Wiring is serialised by the harness in threaded contexts (concurrent wiring is not claimed by the code base).", "runtime monitoring: differential trace equality across process histories/threads + ThreadSanitizer"),
    "C08": _c("exploration",
              "Sequence oracle on recorded streams: for every feedback edge the reader stream must equal [(start, init)] ++ [(t+1, v) for each producer tick (t, v) with t+1<end] - no loss, duplicate, reorder, same-cycle delivery; plus model equality of all runs and of the cycle set (passive-reader loops become quiescent).",
              "DESIGN.md section 3 C08", TRUST, "runtime monitoring: offline stream checker (shift-by-one-step) + reference model"),
    "C09": _c("exploration",
              "Differential: each host program is run with every call site inlined, every call site nested, a random mix, and nested one level deeper; all variants must produce identical user-code runs and streams (pairwise and vs the flattening model); every child graph evaluation must be at its parent's current time inside the parent's bracket; timers inside idle children must fire at their time.",
              "DESIGN.md section 3 C09", TRUST, "runtime monitoring: differential inline/nested execution + child-clock trace monitor"),
    "C10": _c("exploration",
              "Every key epoch [added, removed) of a random TSD key history is simulated alone by the reference model (fresh state, that key's element stream, broadcast inputs sampled at the epoch start); per-instance user-code runs and values, the map output per key and tick, the published key set (valid child outputs only), added/removed/modified key parts and one child graph start/stop per epoch must all agree.",
              "DESIGN.md section 3 C10", TRUST, "runtime monitoring: per-key-epoch differential against a standalone reference model"),
    "C11": _c("exploration",
              "A passive probe samples the reduce result every cycle; the expected value is computed order-free from the live valid elements of the scripted TSD/TSL source: invalid for empty without zero, zero for empty with zero, f(v, zero) for a singleton with zero, fold otherwise (marker combiner a+b+1000 pins the zero rules). Combiners as node, registered operator and sub-graph; growth across capacity boundaries.",
              "DESIGN.md section 3 C11", TRUST, "runtime monitoring: every-cycle probe vs order-free fold oracle"),
    "C12": _c("exploration",
              "Every selection epoch of a random key history is simulated alone (fresh branch program, held inputs sampled at selection); per-instance runs and values, the switch output tick stream (== concatenation of the selected branches' outputs), one branch instance per selection incl. returns to earlier keys, the previous instance stopped at the switch, reload-on-tick, and an error for an unmatched key without default.",
              "DESIGN.md section 3 C12", TRUST, "runtime monitoring: per-selection-epoch differential against a standalone reference model"),
    "C13": _c("exploration",
              "Model equality on programs that route values through if_then_else references (several consumers per reference, selection chains, references passed into inlined/nested sub-graphs, same-value condition re-ticks, retargets to targets that ticked earlier/in the same cycle/never, retarget back): a consumer runs iff the reference was retargeted to a valid target or the selected target ticked, reads the target's value with modified == true, never on unselected-target ticks or re-published references. For TSS/TSD targets a mirror checks the value read through the reference, the target's own delta on target ticks and the old/new contents difference on retargets.",
              "DESIGN.md section 3 C13", TRUST + " Property-silent corner (retarget to a target holding no value) accepts both notify / no-notify behaviours.", "runtime monitoring: instrumented consumers vs reference-routing model + shadow-state diff oracle"),
    "C14": _c("fault_enumeration",
              "Exhaustive single-fault enumeration per generated program: node x {start, evaluate, stop} x occurrence (1..3) x cleanup_on_error {on, off}, plus sampled fault pairs. A per-node-instance trace automaton over user-level start/stop/eval logs and LifecycleObserver events checks: start hook at most once, evaluations only between start and stop, exactly one stop iff the start completed, starts in index order and stops in reverse per graph (root and nested children), every started node stopped before run() returns (or before executor release with cleanup off), before/after event pairing, and that run() throws the original what().",
              "DESIGN.md section 3 C14", TRUST, "runtime monitoring with fault injection: exhaustive single-fault enumeration + lifecycle trace automaton"),
    "C15": _c("exploration",
              "Differential against the fault-free twin of each program: exception_time_series on a node or try_except_ around a generated sub-graph; throws in first/consecutive/scattered/all activations. One error tick per throwing cycle in that cycle carrying what(); run continues; nodes outside the dependency cone have identical runs; the thrower is activated in the same cycles as fault-free; nodes upstream of the thrower inside the wrapped sub-graph and independent timer nodes ranked after it run identically.",
              "DESIGN.md section 3 C15", TRUST, "runtime monitoring with fault injection: differential trace comparison against the fault-free run"),
    "C16": _c("exploration",
              "Offline checker over recorded boundary histories of real-time runs: every try_send / send_blocking call (thread, unique id, call and return timestamps, result) and every delivery seen by the sink. Checks exactly-once, only-accepted, per-producer prefix order, real-time order across producers, one value per cycle with strictly increasing evaluation times (queue) / ordered tuples (burst) / latest-value (conflating), pending <= capacity, justified refusals (stop requested or queue possibly full), blocking sends failing only after a stop, nothing accepted after run() returned, and bounded-progress delivery of everything accepted when the run keeps going. Seeded delays at the guarded hook points diversify interleavings.",
              "DESIGN.md section 3 C16", TRUST + " Liveness restated as bounded progress (2.5 s drain deadline).", "runtime monitoring: stress + delay injection, offline history checker with unique ids", engine="hgrt"),
    "C17": _c("exploration",
              "Real-time timer/stop scenarios: evaluation times strictly increase; every request due before end (and before a stop) is evaluated at exactly its logical time and never before the wall clock reached it; already-due wall-clock alarms fire on the next cycle; after request_stop() returns at most one further cycle begins and run() returns - a run that stays in the wait phase after a stop is a violation witnessed by the write-through phase log (a watchdog alone is inconclusive); the run returns at the end time; lagging runs (start in the past) still deliver timers at their logical times.",
              "DESIGN.md section 3 C17", TRUST + " Liveness restated as bounded progress.", "runtime monitoring: timed scenarios with stop/alarm sweeps, phase-log (hook) trace checker", engine="hgrt"),
    "C18": _c("exploration",
              "(a) exhaustive operation sequences (length<=3 quick, <=4 thorough, alphabet of 28 ops) plus random long sequences on the tree's NodeScheduler over a bare NodeSchedulerState: after every op all query answers equal the pending-set specification; (b) scheduler-script nodes in graphs interleaved with input-driven evaluations: wake-up times and in-node query answers equal the model.",
              "DESIGN.md section 3 C18", TRUST + " SchedModel is the specification.", "runtime monitoring: exhaustive small-scope state-machine conformance + in-graph trace vs model"),
    "C03": dict(
        category="exploration",
        text=("Model equality on generated executions: for thousands of random dataflow programs x tick histories the set of "
              "(node, time) user-code runs, every input snapshot (valid/modified/last-modified/value) and every written value "
              "logged from inside the instrumented nodes of the real engine must equal an independent executable model, in "
              "both directions (missing and extra runs). Evidence lists runs compared and how many closed gates / passive-only "
              "ticks / timer+input coincidences were exercised."),
        design_ref="DESIGN.md section 3 C03",
        note="Trusts vp/model.py as reading of the documented semantics, the g++-12 -O1 tree build with harness-side shims, and truthful harness nodes.",
        technique="runtime monitoring: instrumented-node trace vs executable reference model (offline checker)",
    ),
    "C19": _c("exploration",
              "Overload families (subsets of a 25-signature pool) are registered as data on a reset OperatorRegistry in every permutation (<= 4 candidates) or sampled orders and resolved against argument tuples from 15 schemas. The outcome must be identical in every order, consistent with the singleton resolutions of the same candidates (no match iff none matches alone; unique minimum rank wins; tie => ambiguity error), agree with an independent unifier (match decision, one binding per variable, output == substitution) and never select a candidate that is strictly subsumed by another matching one.",
              "DESIGN.md section 3 C19", TRUST, "runtime monitoring: conformance of the real resolver against an independent unifier + permutation metamorphic test", engine="hgunit"),
    "C20": _c("exploration",
              "Three-stage chain per (shape, history): source -> mirror + dense_record R1 (+ two in-graph capture_delta/apply_delta copies with mirrors); replay(R1) -> mirror + record R2; replay(R2) -> mirror + record R3, GlobalState carried by the harness. A structural differ compares every reproduction tick with the original (values, added/removed/modified parts, flags, canonical delta modulo ordering) and the recorded buffers entry by entry; the only tolerated deviations are the three recorded known findings, each recognised by its own predicate.",
              "DESIGN.md section 3 C20", TRUST, "runtime monitoring: record/replay chain differential + buffer comparison"),
}


def main():
    checks = []
    for pid in ALL:
        if pid not in CHECKS:
            continue
        c = CHECKS[pid]
        checks.append({
            "property_id": pid,
            "quick_cmd": f"./check {pid} --tier quick",
            "thorough_cmd": f"./check {pid} --tier thorough",
            "evidence_file": f"evidence/{pid}.json",
            "replay_cmd_template": f"./check {pid} --replay {{path}}",
            "engine": c.get("engine", "hgdrive"),
            "level_claimed": {"category": c["category"], "text": c["text"] + EXT.get(pid, ""), "design_ref": c["design_ref"]},
            "level_note": c["note"],
            "technique": c["technique"],
        })
    na = [{"property_id": p, "reason": "check not built yet in this session (runtime-monitoring harness under construction); see DESIGN.md section 3 for the planned monitor"}
          for p in ALL if p not in CHECKS]
    m = {
        "version": 1,
        "setup_cmd": "/venv/bin/python build/build.py all --quiet",
        "hooks": {
            "guard": "HGRAPH_VERIF_HOOKS (compile definition; the builder adds it when env HGRAPH_VERIF=1, which every check sets)",
            "enable": "HGRAPH_VERIF=1 /venv/bin/python build/build.py all  (g++ -DHGRAPH_VERIF_HOOKS over /repo's working tree)",
            "baseline_off_cmd": "cd /repo && /venv/bin/python -m pytest -ra -q -p no:cacheprovider --timeout=900 --continue-on-collection-errors",
            "source_commits": ["8d6f157"],
            "add_only": True,
        },
        "engines": [
            {"name": "hgunit", "path": "harness/hgunit.cpp", "serves_properties": ["C18", "C19"],
             "kind_free_text": "C++ unit drivers over header-level state machines of the tree (NodeScheduler on a bare state; data-driven OperatorRegistry families)"},
            {"name": "hgrt", "path": "harness/hgrt.cpp", "serves_properties": ["C16", "C17"],
             "kind_free_text": "C++ real-time/threaded driver: producer threads, controller thread, hook-point delay injection, write-through phase trace"},
            {"name": "hgdrive", "path": "harness/hgdrive.cpp", "serves_properties": sorted(k for k in CHECKS if k not in ("C19", "C16", "C17")),
             "kind_free_text": "C++ simulation driver linked against the tree compiled from /repo; interprets generated programs, logs lifecycle + instrumented-node traces; Python offline monitors (vp/)"},
        ],
        "checks": checks,
        "not_applicable": na,
        "notes": "All checks rebuild the tree from /repo's working tree (content-hash incremental) before running. Exit 0 held / 1 VIOLATION / 2 INCONCLUSIVE.",
    }
    with open(os.path.join(VERIF, "MANIFEST.json"), "w") as f:
        json.dump(m, f, indent=1)


if __name__ == "__main__":
    main()
