"""Regenerates MANIFEST.json from the table below (keeps it valid at all times)."""
import json, os

VERIF = os.path.dirname(os.path.dirname(os.path.abspath(__file__)))
ALL = [f"C{k:02d}" for k in range(1, 21)]

CHECKS = {
    "C03": dict(
        category="exploration",
        text=("Model equality on generated executions: for thousands of random dataflow programs x tick histories the set of "
              "(node, time) user-code runs, every input snapshot (valid/modified/last-modified/value) and every written value "
              "logged from inside the instrumented nodes of the real engine must equal an independent executable model, in "
              "both directions (missing and extra runs). Evidence lists runs compared and how many closed gates / passive-only "
              "ticks / timer+input coincidences were exercised."),
        design_ref="DESIGN.md section 3 C03",
        note="Trusts vp/model.py as reading of the documented semantics, the g++-12 -O1 tree build with harness-side shims, and truthful harness nodes.",
        technique="runtime monitoring: instrumented-node trace vs executable reference model (offline checker)",
    ),
}


def main():
    checks = []
    for pid in ALL:
        if pid not in CHECKS:
            continue
        c = CHECKS[pid]
        checks.append({
            "property_id": pid,
            "quick_cmd": f"./check {pid} --tier quick",
            "thorough_cmd": f"./check {pid} --tier thorough",
            "evidence_file": f"evidence/{pid}.json",
            "replay_cmd_template": f"./check {pid} --replay {{path}}",
            "engine": c.get("engine", "hgdrive"),
            "level_claimed": {"category": c["category"], "text": c["text"], "design_ref": c["design_ref"]},
            "level_note": c["note"],
            "technique": c["technique"],
        })
    na = [{"property_id": p, "reason": "check not built yet in this session (runtime-monitoring harness under construction); see DESIGN.md section 3 for the planned monitor"}
          for p in ALL if p not in CHECKS]
    m = {
        "version": 1,
        "setup_cmd": "/venv/bin/python build/build.py all --quiet",
        "hooks": {
            "guard": "HGRAPH_VERIF_HOOKS (compile definition; the builder adds it when env HGRAPH_VERIF=1, which every check sets)",
            "enable": "HGRAPH_VERIF=1 /venv/bin/python build/build.py all  (g++ -DHGRAPH_VERIF_HOOKS over /repo's working tree)",
            "baseline_off_cmd": "cd /repo && /venv/bin/python -m pytest -ra -q -p no:cacheprovider --timeout=900 --continue-on-collection-errors",
            "source_commits": [],
            "add_only": True,
        },
        "engines": [
            {"name": "hgdrive", "path": "harness/hgdrive.cpp", "serves_properties": sorted(CHECKS),
             "kind_free_text": "C++ simulation driver linked against the tree compiled from /repo; interprets generated programs, logs lifecycle + instrumented-node traces; Python offline monitors (vp/)"},
        ],
        "checks": checks,
        "not_applicable": na,
        "notes": "All checks rebuild the tree from /repo's working tree (content-hash incremental) before running. Exit 0 held / 1 VIOLATION / 2 INCONCLUSIVE.",
    }
    with open(os.path.join(VERIF, "MANIFEST.json"), "w") as f:
        json.dump(m, f, indent=1)


if __name__ == "__main__":
    main()
