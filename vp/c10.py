"""C10 - map_ runs one isolated instance per key and mirrors the key set (per key-epoch standalone model)."""
from __future__ import annotations
import copy, json
from .runner import Result, Violation, scaled
from .gen_core import ProgGen, UID, gen_script
from .gen_coll import parse_dumps, write_log
from .prog import Case, S
from . import model as M

PROPERTY = "C10"
LEVEL = "exploration"
HARNESS = "hgdrive"
SANITIZE = "asan"      # thorough tier: same batch under -fsanitize=address,undefined
RULE = ("random mapped functions (stateless, stateful acc/count, key-consuming, self-scheduling delay/ticker with instance-"
        "relative timers, with a broadcast argument) over random key histories of a TSD<Int,TS<Int>> (add, update, remove, "
        "re-add in a later cycle, many keys in one cycle, clear, slot reuse, growth to 60 keys). Each key epoch [added, removed) "
        "is simulated alone by the reference model on that key's element stream from the epoch start with fresh state; oracle: "
        "per-instance user-code runs and values == the standalone model, map output per key == the standalone output stream, "
        "output keys == keys whose child output is valid, removed == keys that left, one child start and stop per epoch. "
        "Non-trivial: >= 3 epochs of which one is a re-add; distinct by case text. Failure isolation: keyed maps with per-key "
        "error capture are run with and without a fault plan on a node of the mapped function; instances and output streams of "
        "keys that never failed == the fault-free twin")
ASSUMPTIONS = ["an instance's key is recovered from the element values it reads (values encode their key) or from its key input",
               "vp/model.py standalone simulation defines 'the mapped function run alone'; boundary inputs already valid at "
               "instance start are sampled (read as ticked) at that cycle, per the documented sampled-start rule",
               "g++-12 -O1 build of the working tree with harness-side shims"]
FLOORS = {"explicit_key_set_epochs": {"quick": 100, "thorough": 2500}, "explicit_keys_mapped_before_their_element_exists": {"quick": 60, "thorough": 1000}, "dictionary_repoints_with_surviving_instances": {"quick": 60, "thorough": 900}, "epochs_checked": {"quick": 1200, "thorough": 20000}, "readd_epochs": {"quick": 150, "thorough": 2500},
          "instance_runs_compared": {"quick": 8000, "thorough": 120000}, "output_ticks_compared": {"quick": 2000, "thorough": 35000},
          "timer_runs_in_instances": {"quick": 300, "thorough": 5000}, "map_key_throws": {"quick": 50, "thorough": 800}, "two_dictionary_epochs": {"quick": 80, "thorough": 1200},
          "key_left_one_dictionary_only": {"quick": 40, "thorough": 600},
          "inner_maps_created_over_keys_added_in_different_cycles": {"quick": 20, "thorough": 300},
          "map_other_key_runs_compared": {"quick": 700, "thorough": 10000}}
BATCH = 15


def gen_key_history(rng, start, end, universe, snapshots=False):
    """Returns cscript for a TSD<Int,TS<Int>> whose values encode key*1000+seq; never erases and re-adds a key in one cycle."""
    live = set()
    seq = {}
    out = []
    times = sorted(rng.sample(range(start, end), min(end - start, rng.choice([5, 9, 14, 20]))))
    if times and rng.random() < 0.5:
        t0 = rng.choice(times)
        times = sorted(set(times) | {t for t in (t0 + 1, t0 + 2) if t < end})
    for t in times:
        ops = []
        touched = set()
        if snapshots and len(live) >= 2 and rng.random() < 0.25:
            # snapshot-style re-publication: the dictionary is cleared and the surviving keys are written again in the SAME cycle
            # (a key removed and re-inserted within one cycle keeps its instance); the keys left out are really gone
            gone = set(rng.sample(sorted(live), rng.choice([1, 1, 2]) if len(live) > 2 else 1))
            ops.append("c")
            for k in sorted(live - gone, key=lambda _: rng.random()):
                seq[k] = seq.get(k, 0) + 1
                ops.append(f"[{k}]={k * 1000 + seq[k] % 1000}")
            live -= gone
            out.append(f"{t}|" + ",".join(ops))
            continue
        n = rng.choice([1, 1, 2, 3, 6]) if universe <= 12 else rng.choice([3, 10, 25])
        for _ in range(n):
            r = rng.random()
            if r < 0.65 or not live:
                k = rng.randrange(universe)
                if k in touched and k not in live:
                    continue            # erased earlier in this cycle: no re-add inside one cycle
                seq[k] = seq.get(k, 0) + 1
                ops.append(f"[{k}]={k * 1000 + seq[k] % 1000}")
                live.add(k)
                touched.add(k)
            elif r < 0.93:
                cands = [k for k in live if k not in touched]
                if not cands:
                    continue
                k = rng.choice(cands)
                ops.append(f"x[{k}]")
                live.discard(k)
                touched.add(k)
            else:
                if any(k in touched for k in live):
                    continue
                ops.append("c")
                touched |= live
                live = set()
        if ops:
            out.append(f"{t}|" + ",".join(ops))
    return out


def gen_two_dict_history(rng, start, end, universe):
    """Joint history of two dictionaries: keys live in both, one of them drops a key in a cycle in which the union changes
    for an UNRELATED key, then stays quiet for a few cycles while the other dictionary keeps ticking the surviving element."""
    A, B = {}, {}
    liveA, liveB, seq = set(), set(), {}

    def put(d, live, t, k):
        seq[k] = seq.get(k, 0) + 1
        d.setdefault(t, []).append(f"[{k}]={k * 1000 + seq[k] % 1000}")
        live.add(k)

    t = start
    for k in rng.sample(range(universe), min(universe, rng.choice([2, 3, 4]))):
        put(A, liveA, t, k)
        put(B, liveB, t + rng.choice([0, 0, 1]), k)
    t += 2
    while t < end - 4:
        both = sorted(liveA & liveB)
        r = rng.random()
        if both and r < 0.6:
            k = rng.choice(both)
            drop, dl, keep, kl = (B, liveB, A, liveA) if rng.random() < 0.5 else (A, liveA, B, liveB)
            drop.setdefault(t, []).append(f"x[{k}]")
            dl.discard(k)
            fresh = [q for q in range(universe) if q not in liveA and q not in liveB and q != k]
            if fresh and rng.random() < 0.8:
                put(rng.choice([A, B]) if False else keep, kl, t, rng.choice(fresh))      # the union gains an unrelated key
            quiet = rng.choice([2, 3, 5])
            for dt in range(1, quiet + 1):
                if t + dt < end and rng.random() < 0.7:
                    put(keep, kl, t + dt, k)                      # the surviving element keeps ticking
            t += quiet + 1
            if rng.random() < 0.7 and t < end:
                put(drop, dl, t, k)                                # and the key comes back later
                t += 1
        else:
            d, live = (A, liveA) if rng.random() < 0.5 else (B, liveB)
            k = rng.randrange(universe)
            if k in live and rng.random() < 0.3:
                d.setdefault(t, []).append(f"x[{k}]")
                live.discard(k)
            else:
                put(d, live, t, k)
            t += rng.choice([1, 1, 2])
    return [f"{t}|" + ",".join(ops) for t, ops in sorted(A.items())], [f"{t}|" + ",".join(ops) for t, ops in sorted(B.items())]


def gen_case10(rng, name, idx):
    start, end = 0, rng.choice([20, 30, 45])
    c = Case(name, start, end)
    uid = UID(100)
    big = idx % 12 == 11
    kind = rng.choice(["fn1", "fn1", "fn2", "fnk1", "fnk2"])
    c.cscripts[1] = gen_key_history(rng, start, end, rng.choice([3, 5, 8]) if not big else 60,
                                    snapshots=(kind != "fnk2" and not big and rng.random() < 0.35))
    c.meta["kind"] = kind
    main = [S("d", "csrc", shape="tsd", uid=1)]
    if kind == "fnk2":
        # two multiplexed dictionaries with differing key sets (the instance exists while its key is in either)
        c.cscripts[2] = gen_key_history(rng, start, end, rng.choice([3, 5, 8]) if not big else 60)
        if rng.random() < 0.6:
            c.cscripts[1], c.cscripts[2] = gen_two_dict_history(rng, start, end, rng.choice([4, 6, 9]))
        main.append(S("d2", "csrc", shape="tsd", uid=2))
    if kind == "fn2":
        c.scripts[5] = gen_script(rng, start, end, density=rng.choice([1, 3, 6]))
        main.append(S("b", "src", uid=5, mode=0))
    # the mapped function: entry pass nodes identify the instance, then a generated body
    subs = rng.random() < 0.3 and kind != "fnk2"      # (two-dictionary functions keep their element readers in one flat body)
    g = ProgGen(rng, c, uid, allow_sub=subs, allow_fb=rng.random() < 0.2, allow_sched=False, max_depth=2)
    params = {"fn1": ["p0"], "fn2": ["p0", "p1"], "fnk1": ["p0", "p1"], "fnk2": ["p0", "p1", "p2"]}[kind]
    elem = "p1" if kind == "fnk1" else "p0"         # fnk2: the entry node reads the key itself
    entry = [S("e_", "pass", elem, uid=90)]
    body_params = ["e_"] + ([p for p in params if p != elem])
    if kind == "fnk2":
        body_params = ["p1", "p2", "e_"]
    body = g.body("f", body_params, rng.choice([1, 2, 4, 6]) + (2 if subs else 0), 1 if subs else 5, True)
    if kind == "fnk2":
        # whether the END of one element stream (the key left one dictionary only) wakes consumers that accept an unset input
        # is not defined by the property and differs between direct and list-shaped inputs: such consumers never read the
        # elements directly in these programs (consumers that need a value are silent either way)
        for _ in range(30):
            if not any(st.op in ("gate", "halfgate", "list2", "allvalid2", "sched") and any(a.lstrip("~") in ("p1", "p2") for a in st.args)
                       for st in body):
                break
            body = g.body("f", body_params, rng.choice([1, 2, 4, 6]), 5, True)
        else:
            body = [S("fz_", "add2", "p1", "p2", uid=uid()), S("", "RET", "fz_")]
    for st in body:
        if st.op == "src":
            st.kw["rel"] = 1
    if kind == "fnk2" and body and body[-1].op == "RET" and body[-1].args[0] in ("p1", "p2"):
        # an instance that returns one dictionary's element unchanged loses its output when the key leaves that dictionary
        # only; the standalone oracle does not track output invalidation, so such functions return a copy instead
        body[-1:] = [S("ret_", "pass", body[-1].args[0], uid=uid.n + 50), S("", "RET", "ret_")]
    c.graphs["fn0"] = entry + body
    c.meta["entry_uid"] = 90
    args = ["d"] + (["b"] if kind == "fn2" else []) + (["d2"] if kind == "fnk2" else [])
    main.append(S("m", "map", *args, fn=f"{kind}:0"))
    main.append(S("", "cmirror", "m", uid=11))
    c.graphs["main"] = main
    return c


def gen_repoint_map_case(rng, name, idx):
    """The mapped dictionary reaches map_ through a REFERENCE (a selection between two dictionary sources holding the same keys in
    the same slots): on a re-point the per-key instances survive and have to be re-bound to the other dictionary's elements -
    each sees the new element's current value as a tick, follows only the new dictionary afterwards, and keeps its state."""
    for _ in range(50):
        c = gen_case10(rng, name, 0)
        if c.meta["kind"] == "fn1":
            break
    start, end = c.start, c.end
    nk = rng.choice([2, 3, 5])
    order = rng.sample(range(1, nk + 1), nk)
    seq = {(u, k): 0 for u in (1, 2) for k in order}

    def val(u, k):
        seq[(u, k)] += 1
        return k * 1000 + (500 if u == 2 else 0) + seq[(u, k)] % 500
    for u in (1, 2):
        sc = [f"{start}|" + ",".join(f"[{k}]={val(u, k)}" for k in order)]
        for t in sorted(rng.sample(range(start + 1, end), rng.choice([4, 8, 14]))):
            sc.append(f"{t}|" + ",".join(f"[{k}]={val(u, k)}" for k in rng.sample(order, rng.choice([1, 1, 2]))))
        c.cscripts[u] = sc
    v = rng.choice([0, 1])
    cs = [(start, v)]
    for t in sorted(rng.sample(range(start + 1, end), rng.choice([2, 4, 7]))):
        if rng.random() < 0.8:
            v = 1 - v
        cs.append((t, v))
    c.scripts[3] = cs
    c.graphs["main"] = [S("a", "csrc", shape="tsd", uid=1), S("b", "csrc", shape="tsd", uid=2), S("c", "src", uid=3, mode=0),
                        S("r", "ite", "c", "a", "b", uid=4), S("m", "map", "r", fn="fn1:0"), S("", "cmirror", "m", uid=11)]
    c.meta["repoint"] = 1
    return c


def repoint_write_log(case, run):
    """What the instances see through the reference, as one dictionary history: the selected dictionary's writes, and at a re-point
    every key with the newly selected dictionary's current value."""
    wls = {u: dict(write_log(run).get(u, [])) for u in (1, 2)}
    cond = dict(case.scripts[3])
    cur = {1: {}, 2: {}}
    sel, out, repoints = None, {}, 0
    for t in range(case.start, case.end):
        for u in (1, 2):
            for op in wls[u].get(t, []):
                cur[u][int(op[1:op.index("]")])] = int(op[op.index("=") + 1:])
        new = sel
        if t in cond:
            new = 1 if cond[t] != 0 else 2
        if new is None:
            continue
        if new != sel:
            out[t] = [f"[{k}]={v}" for k, v in cur[new].items()]
            repoints += sel is not None
            sel = new
        elif t in wls[sel]:
            out[t] = list(wls[sel][t])
    return out, repoints


MECH_F33 = "map-output-key-set-shows-unpublished-key-without-added-delta"


def f33_witness(name):
    """Constructed witness of the known finding F33: the KEY SET of a map_ output (keys_) while a child's result is not valid yet.
    The mapped function delays its element by three steps, so every new key lives for three cycles before its element is
    published. Read through keys_() the key is in the set's VALUE from the cycle the child is created, with an EMPTY added delta,
    and the set does not tick when the element is published (the dictionary itself reports the key as added only then)."""
    from .prog import Case
    c = Case(name, 0, 20)
    c.cscripts[1] = ["1|[1]=100", "3|[2]=200", "8|[1]=101", "12|x[1]"]
    c.graphs["fn0"] = [S("e", "pass", "p0", uid=90), S("dl", "delay", "e", uid=91, k=3), S("", "RET", "dl")]
    c.graphs["main"] = [S("d", "csrc", shape="tsd", uid=1), S("m", "map", "d", fn="fn1:0"), S("ks", "nkeys", "m", uid=30, nest=0),
                        S("", "cmirror", "m", uid=11)]
    c.meta.update(kind="f33_witness")
    return c


def check_f33(case, tr):
    res = Result(signature=case.text().split("\n", 1)[1])
    run = tr.runs[0]
    if tr.build_error or run.error:
        res.violations.append(Violation(f"build/run failed: {tr.build_error or run.error}"))
        return res
    prev = set()
    for t, d, _ in parse_dumps(run).get(30, []):
        vals, add, rem = set(d["vals"]), set(d["add"]), set(d["rem"])
        if (prev | add) - rem != vals:
            ghost = sorted(vals - ((prev | add) - rem))
            if ghost and not (((prev | add) - rem) - vals):
                res.violations.append(Violation(f"t={t}: the key set of a map_ output read through keys_() holds {sorted(vals)} after a tick whose "
                                                f"delta is +{sorted(add)} -{sorted(rem)} on {sorted(prev)}: keys {ghost} (children whose result is "
                                                f"not valid yet) appear without ever being reported as added", MECH_F33))
            else:
                res.violations.append(Violation(f"t={t}: key set of the map output {sorted(vals)} != previous {sorted(prev)} + added {sorted(add)} - "
                                                f"removed {sorted(rem)}"))
            break
        prev = vals
    res.counters = {"map_key_set_projection_ticks": len(parse_dumps(run).get(30, []))}
    res.nontrivial = True
    return res


def gen_explicit_keys_case(rng, name):
    """map_ with an EXPLICIT key set (__keys__): the children's lifetime follows the key set, the dictionary only feeds elements. Keys
    enter the set before their element exists (the child starts without input), after it (the element is sampled), leave while
    the dictionary still holds the element, return (fresh state); the dictionary holds further keys that are never mapped."""
    for _ in range(50):
        c = gen_case10(rng, name, 0)
        if c.meta["kind"] == "fn1":
            break
    start, end = c.start, c.end
    universe = list(range(1, rng.choice([3, 4, 6]) + 1))
    D, K, seq = {}, set(), {}
    dsc, ksc = [], []
    for t in sorted(rng.sample(range(start, end), min(end - start, rng.choice([8, 14, 20])))):
        dops, kops, touched = [], [], set()
        for _ in range(rng.choice([1, 1, 2, 3])):
            k = rng.choice(universe)
            if k in touched:
                continue
            touched.add(k)
            r = rng.random()
            if r < 0.5:
                seq[k] = seq.get(k, 0) + 1
                D[k] = k * 1000 + seq[k] % 1000
                dops.append(f"[{k}]={D[k]}")
            elif r < 0.75:
                if k in K:
                    K.discard(k)
                    kops.append(f"-{k}")
                else:
                    K.add(k)
                    kops.append(f"+{k}")
            elif k in D and k not in K:
                del D[k]
                dops.append(f"x[{k}]")          # (the dictionary never loses an element whose key is mapped)
        if dops:
            dsc.append(f"{t}|" + ",".join(dops))
        if kops:
            ksc.append(f"{t}|" + ",".join(kops))
    c.cscripts[1], c.cscripts[2] = dsc, ksc
    c.graphs["main"] = [S("d", "csrc", shape="tsd", uid=1), S("ks", "csrc", shape="tss", uid=2), S("m", "map", "d", fn="fn1:0", keys="ks"),
                        S("", "cmirror", "m", uid=11)]
    c.meta["explicit_keys"] = 1
    return c


def explicit_key_epochs(wl_dict, wl_keys, end):
    """key -> epochs {start, stop, ticks}: an instance lives while its key is in the explicit key set; its element stream is the
    dictionary's element under that key (its current value counts as a tick when the instance is created)."""
    D, live, out = {}, {}, {}
    for t in sorted(set(wl_dict) | set(wl_keys)):
        written = set()
        for op in wl_dict.get(t, []):
            if op.startswith("x["):
                D.pop(int(op[2:op.index("]")]), None)
            elif op != "c":
                k = int(op[1:op.index("]")])
                D[k] = int(op[op.index("=") + 1:])
                written.add(k)
        for op in wl_keys.get(t, []):
            k = int(op[1:])
            if op[0] == "+" and k not in live:
                live[k] = {"key": k, "start": t, "stop": None, "ticks": []}
                out.setdefault(k, []).append(live[k])
                if k in D:
                    live[k]["ticks"].append((t, D[k]))
                    written.discard(k)
            elif op[0] == "-" and k in live:
                live.pop(k)["stop"] = t
        for k in written:
            if k in live and not (live[k]["ticks"] and live[k]["ticks"][-1][0] == t):
                live[k]["ticks"].append((t, D[k]))
    return out


def gen_nested_map_case(rng, name):
    """A map_ whose instances each run an INNER map_ over a shared dictionary handed to them as a whole: an inner map is created
    whenever an outer key appears (late, or again after a removal) and then has to pick up every key the shared dictionary
    holds at that moment, whenever those keys were added."""
    start, end = 0, rng.choice([20, 30, 45])
    c = Case(name, start, end)
    c.cscripts[1] = gen_key_history(rng, start, end, rng.choice([2, 3, 5]))
    shared = gen_key_history(rng, start, end, rng.choice([3, 5, 8]))
    if rng.random() < 0.5:
        shared = [e for e in shared if e.split("|")[1] != "c"]
    c.cscripts[2] = shared
    c.graphs["fn0"] = [S("r", "map", "p1", "p0", fn="fn2:1"), S("", "RET", "r")]
    c.graphs["fn1"] = [S("o", "add2", "p0", "p1", uid=100), S("", "RET", "o")]
    main = [S("d", "csrc", shape="tsd", uid=1), S("sh", "csrc", shape="tsd", uid=2)]
    sh = "sh"
    for j in range(rng.choice([0, 0, 1, 2, 4])):
        # the dictionary handed over whole (pass_through) comes out of a chain of copy nodes: the map has to rank after the end of
        # that chain although the argument is tagged
        main.append(S(f"sh{j}", "ccopy", sh, uid=20 + j))
        sh = f"sh{j}"
    main += [S("m", "map", "d", sh, fn="fnd:0", passthrough=1), S("", "cmirror", "m", uid=11)]
    c.graphs["main"] = main
    c.meta["kind"] = "nested_map"
    c.meta["passthrough_chain"] = sh != "sh"
    return c


def check_nested_map(case, tr):
    res = Result(signature=case.text().split("\n", 1)[1])
    run = tr.runs[0]
    if tr.build_error or run.error:
        res.violations.append(Violation(f"build/run failed: {tr.build_error or run.error}"))
        return res
    wl = write_log(run)
    w1, w2 = dict(wl.get(1, [])), dict(wl.get(2, []))
    mirror = {t: d for t, d, _ in parse_dumps(run).get(11, [])}

    def apply(state, ops):
        for op in ops:
            if op == "c":
                state.clear()
            elif op.startswith("x["):
                state.pop(int(op[2:op.index("]")]), None)
            else:
                state[int(op[1:op.index("]")])] = int(op[op.index("=") + 1:])

    outer, shared, prev = {}, {}, {}
    V, cmp_, late, multi = [], 0, 0, 0
    added_at = {}
    for t in range(case.start, case.end):
        new_outer = set()
        if t in w1:
            before = set(outer)
            apply(outer, w1[t])
            new_outer = set(outer) - before
        if t in w2:
            before = set(shared)
            apply(shared, w2[t])
            for k in set(shared) - before:
                added_at[k] = t
            for k in before - set(shared):
                added_at.pop(k, None)
        for a in new_outer:
            if shared and t > case.start:
                late += 1
                if len({added_at[k] for k in shared}) >= 2:
                    multi += 1          # the shared keys alive at that moment were added in different cycles
        exp = {a: {k: (3 * v + 5 * x + 1) % M.WRAP for k, v in shared.items()} for a, x in outer.items() if shared}
        d = mirror.get(t)
        if d is None:
            if exp != prev:
                V.append(f"t={t}: the nested map output did not tick although it must change from {str(prev)[:100]} to {str(exp)[:100]}")
            prev = exp
            continue
        got = {int(a): {int(k): int(c["val"]) for k, c in v["items"].items() if c["v"]} for a, v in d["items"].items()}
        got = {a: inner for a, inner in got.items() if inner}
        cmp_ += 1
        if got != exp:
            bad = next((a for a in set(got) | set(exp) if got.get(a) != exp.get(a)), None)
            V.append(f"t={t}: outer key {bad}: inner map output {str(got.get(bad))[:120]} != one instance per key of the shared dictionary "
                     f"{str(exp.get(bad))[:120]}")
        prev = exp
    for m in V[:5]:
        res.violations.append(Violation(m))
    res.counters = {"nested_map_ticks_compared": cmp_, "inner_maps_created_over_nonempty_dict": late,
                    "inner_maps_created_over_keys_added_in_different_cycles": multi}
    res.nontrivial = late >= 1
    return res


def generate(rng, tier, seed):
    n = scaled(200 if tier == "quick" else 3000)
    cases = [gen_case10(rng, f"c10_{seed}_{k}", k) for k in range(n)]
    cases += [gen_nested_map_case(rng, f"c10n_{seed}_{k}") for k in range(n // 5)]
    cases += [gen_repoint_map_case(rng, f"c10r_{seed}_{k}", k) for k in range(n // 4)]
    cases.append(f33_witness(f"c10_{seed}_witnessF33"))
    cases += [gen_explicit_keys_case(rng, f"c10k_{seed}_{k}") for k in range(n // 4)]
    # failure isolation between keys: the keyed-map fault pairs of C15 (fault-free twin + per-key captured faults)
    from .c15 import gen_map_pair
    k = got = 0
    while got < (40 if tier == "quick" else 600):
        pr = gen_map_pair(rng, f"c10f_{seed}_{k}")
        k += 1
        if pr:
            cases += list(pr)
            got += 1
    return cases


def epochs_from_writes(wl, end):
    """key -> list of dict(start, stop, ticks=[(t, v)])"""
    live = {}
    out = {}
    for t in sorted(wl):
        gone_now = {}                  # removed earlier in THIS cycle: an insert of the same key revives the same instance
        for op in wl[t]:
            if op == "c":
                for k, e in live.items():
                    e["stop"] = t
                    gone_now[k] = e
                live = {}
            elif op.startswith("x["):
                k = int(op[2:op.index("]")])
                if k in live:
                    gone_now[k] = live.pop(k)
                    gone_now[k]["stop"] = t
            else:
                k = int(op[1:op.index("]")])
                v = int(op[op.index("=") + 1:])
                if k not in live and k in gone_now and gone_now[k]["start"] < t:
                    live[k] = gone_now.pop(k)
                    live[k]["stop"] = None
                if k not in live:
                    live[k] = {"key": k, "start": t, "stop": None, "ticks": []}
                    out.setdefault(k, []).append(live[k])
                e = live[k]
                if e["ticks"] and e["ticks"][-1][0] == t:
                    e["ticks"][-1] = (t, v)
                else:
                    e["ticks"].append((t, v))
    return out


def union_epochs(wl1, wl2, end):
    """Two multiplexed dictionaries: an instance lives while its key is in either; inside an epoch each element stream
    carries the writes of its dictionary and an 'INV' mark where the key left that dictionary (the other still holding it)."""
    INF = 10 ** 9
    e1, e2 = epochs_from_writes(wl1, end), epochs_from_writes(wl2, end)
    out = {}
    for k in set(e1) | set(e2):
        ivs = sorted([(e["start"], INF if e["stop"] is None else e["stop"], 1, e) for e in e1.get(k, [])] +
                     [(e["start"], INF if e["stop"] is None else e["stop"], 2, e) for e in e2.get(k, [])], key=lambda x: (x[0], x[2]))
        cur = None
        for st, sp, which, e in ivs:
            if cur is None or st > cur["stop"]:
                cur = {"key": k, "start": st, "stop": sp, "ticks": [], "ticks2": []}
                out.setdefault(k, []).append(cur)
            else:
                cur["stop"] = max(cur["stop"], sp)
            lst = cur["ticks"] if which == 1 else cur["ticks2"]
            lst += list(e["ticks"])
            if sp < INF:
                lst.append((sp, "INV"))
        for ep in out.get(k, []):
            for name in ("ticks", "ticks2"):
                ep[name] = sorted((x for x in ep[name] if not (x[1] == "INV" and x[0] >= ep["stop"])), key=lambda x: x[0])
            if ep["stop"] >= INF:
                ep["stop"] = None
    return out


def standalone(case, epoch, bticks, emulate=False, inv_notifies=True, nested_unmodified=False):
    """Model of the mapped function run alone on one key epoch."""
    t0 = epoch["start"]
    t1 = epoch["stop"] if epoch["stop"] is not None else case.end
    c = Case("solo", t0, t1)
    c.scripts = {u: list(sc) for u, sc in case.scripts.items()}
    c.scripts[1001] = list(epoch["ticks"])
    main = [S("el", "src", uid=1001, mode=1)]
    kind = case.meta["kind"]
    if kind == "fn1":
        args = ["el"]
    elif kind == "fn2":
        # broadcast: ticks from the epoch start on; a value that is already there is sampled at the epoch start
        sc = [(t, v) for t, v in bticks if t >= t0]
        before = [(t, v) for t, v in bticks if t < t0]
        if before and not (sc and sc[0][0] == t0):
            sc = [(t0, before[-1][1])] + sc
        c.scripts[1002] = sc
        main.append(S("bc", "src", uid=1002, mode=1))
        args = ["el", "bc"]
    elif kind == "fnk2":
        c.scripts[1003] = [(t0, epoch["key"])]
        c.scripts[1002] = list(epoch["ticks2"])
        main.append(S("ky", "src", uid=1003, mode=1))
        main.append(S("el2", "src", uid=1002, mode=1))
        args = ["ky", "el", "el2"]
    else:
        c.scripts[1003] = [(t0, epoch["key"])]
        main.append(S("ky", "src", uid=1003, mode=1))
        args = ["ky", "el"]
    for gname, sts in case.graphs.items():
        if gname.startswith("sub"):
            c.graphs[gname] = copy.deepcopy(sts)
    c.graphs["sub900"] = copy.deepcopy(case.graphs["fn0"])
    main.append(S("o", "nested", *args, sid=900))
    main.append(S("", "rec", "o", uid=1004))
    c.graphs["main"] = main
    flat = M.flatten(c)
    si = None
    if nested_unmodified:
        # known finding F18: values present when the instance starts (ticked earlier in that cycle, or - the broadcast argument -
        # only sampled) are not ticks for nodes behind a nested boundary inside the instance
        before = [t for t, v in bticks if t < t0]
        si = {1001: None, 1003: None, 1002: (before[-1] if (kind == "fn2" and before and not any(t == t0 for t, v in bticks)) else None)}
    mr = M.simulate(flat, emulate_sampled_start=emulate, inv_notifies=inv_notifies, sampled_inputs=si)
    mr.used_nested_unmodified = mr.stats.get("nested_sampled_unmodified", 0) > 0
    return mr


def check(case, tr):
    res = Result(signature=case.text().split("\n", 1)[1])
    if tr.build_error:
        res.violations.append(Violation(f"valid program rejected at build: {tr.build_error}"))
        return res
    if case.meta.get("how") == "map":
        from .c15 import check_map
        return check_map(case, tr)
    if case.meta.get("kind") == "nested_map":
        return check_nested_map(case, tr)
    if case.meta.get("kind") == "f33_witness":
        return check_f33(case, tr)
    run = tr.runs[0]
    if run.error:
        res.violations.append(Violation(f"run failed: {run.error[:300]}"))
        return res
    V = []
    known = []
    known3 = []
    wl = dict(write_log(run).get(1, []))
    repoints = 0
    if case.meta.get("repoint"):
        wl, repoints = repoint_write_log(case, run)
    eps = epochs_from_writes(wl, case.end)
    if case.meta.get("explicit_keys"):
        eps = explicit_key_epochs(wl, dict(write_log(run).get(2, [])), case.end)
    if case.meta["kind"] == "fnk2":
        eps = union_epochs(wl, dict(write_log(run).get(2, [])), case.end)
    bticks = []
    inst_runs = {}            # gid -> {(uid, t): (out, [vals])}
    gstart, gstop, gparent = {}, {}, {}
    tnow = None
    for seq, kind, tk in run.events:
        if kind == "C<" and tk[0] == "0":
            tnow = int(tk[1])
        elif kind == "G+":
            gparent[int(tk[0])] = int(tk[1])
            gstart[int(tk[0])] = tnow if tnow is not None else case.start
        elif kind == "G->":
            gstop[int(tk[0])] = tnow
    for ue in run.uevals():
        if ue.uid == 5:
            bticks.append((ue.t, ue.out))
        if gparent.get(ue.gid, -1) >= 0:
            top = ue.gid
            while gparent.get(top, 0) > 0:          # nested graphs inside the mapped function belong to the key's instance
                top = gparent[top]
            d = inst_runs.setdefault(top, {})
            if (ue.uid, ue.t) in d:
                V.append(f"instance graph {ue.gid}: uid {ue.uid} ran twice at t={ue.t}")
            d[(ue.uid, ue.t)] = (ue.out, [(x[0], x[3]) for x in ue.ins])
    # identify each child instance: key from the entry node's first read, epoch from its start time
    entry = case.meta["entry_uid"]
    inst_of = {}
    for gid, runs in inst_runs.items():
        firsts = sorted((t, v) for (u, t), (o, v) in runs.items() if u == entry)
        if not firsts:
            continue
        key = firsts[0][1][0][1] // (1 if case.meta["kind"] == "fnk2" else 1000)
        inst_of[(key, gstart.get(gid))] = gid
    if case.meta.get("explicit_keys"):
        # instances whose element never arrives cannot be told apart by what they read: they are matched to the epochs without any
        # element tick that start in the same cycle (such instances behave identically - the function does not read the key)
        named = set(inst_of.values())
        anon = {}
        for gid in inst_runs:
            if gid not in named and gparent.get(gid) == 0:
                anon.setdefault(gstart.get(gid), []).append(gid)
        for gid in gstart:
            if gid not in named and gid not in inst_runs and gparent.get(gid) == 0:
                inst_runs[gid] = {}
                anon.setdefault(gstart.get(gid), []).append(gid)
        # epochs with a definite end first (an instance stopped in exactly that cycle), the open-ended ones take what is left
        todo = sorted(((key, ep) for key, lst in eps.items() for ep in lst), key=lambda x: (x[1]["stop"] is None, x[0], x[1]["start"]))
        for key, ep in todo:
            if (key, ep["start"]) not in inst_of and not ep["ticks"] and anon.get(ep["start"]):
                pool = anon[ep["start"]]
                same_stop = [g for g in pool if gstop.get(g) == ep["stop"]] if ep["stop"] is not None else []
                g = (same_stop or pool)[0]
                pool.remove(g)
                inst_of[(key, ep["start"])] = g
    n_epochs = readds = runs_cmp = out_cmp = timer_runs = phantom = two_dict = partial_leave = 0
    exp_out = {}              # key -> list of (t, v) expected output ticks over all epochs, with epoch marks
    for key, lst in eps.items():
        for j, ep in enumerate(lst):
            n_epochs += 1
            if j > 0:
                readds += 1
            mr = standalone(case, ep, bticks)
            gid = inst_of.get((key, ep["start"]))
            if gid is None:
                if any(u not in (1001, 1002, 1003, 1004) for (u, t) in mr.runs):
                    V.append(f"key {key} epoch starting t={ep['start']}: no child instance found (expected runs {sorted(mr.runs)[:4]})")
                continue
            got = inst_runs[gid]
            exp = {(u, t): (o, [(x[0], x[3]) for x in ins]) for (u, t), (o, ins) in mr.runs.items() if u not in (1001, 1002, 1003, 1004)}
            runs_cmp += len(exp)
            timer_runs += sum(1 for (u, t) in exp if not any(t == tt for tt, _ in ep["ticks"] + ep.get("ticks2", [])))
            two_dict += 1 if ep.get("ticks2") and ep["ticks"] else 0
            partial_leave += sum(1 for _, v in ep["ticks"] + ep.get("ticks2", []) if v == "INV")
            if got != exp and case.meta["kind"] == "fnk2":
                # the property is silent on whether the end of one element stream (key left one dictionary) wakes the
                # instance's consumers of that element: accept both
                mr1 = standalone(case, ep, bticks, inv_notifies=False)
                exp1 = {(u, t): (o, [(x[0], x[3]) for x in ins]) for (u, t), (o, ins) in mr1.runs.items() if u not in (1001, 1002, 1003, 1004)}
                if got == exp1:
                    mr, exp = mr1, exp1
            if got != exp:
                for emu, nun in ((True, False), (False, True), (True, True)):
                    mr2 = standalone(case, ep, bticks, emulate=emu, nested_unmodified=nun)
                    exp2 = {(u, t): (o, [(x[0], x[3]) for x in ins]) for (u, t), (o, ins) in mr2.runs.items() if u not in (1001, 1002, 1003, 1004)}
                    if got == exp2 and (mr2.sampled or mr2.used_nested_unmodified):
                        if mr2.sampled:
                            known.append(f"key {key} epoch starting t={ep['start']}: all-Unchecked node(s) {mr2.sampled[:3]} ran at instance start on an unset boundary source")
                        if mr2.used_nested_unmodified:
                            known3.append(f"key {key} epoch starting t={ep['start']}: nodes behind a nested boundary inside the new instance do not "
                                          f"see the values present at its start as ticks (inlined in the instance they do)")
                        mr, exp = mr2, exp2
                        break
            if got != exp:
                missing = sorted(set(exp) - set(got))[:4]
                extra = sorted(set(got) - set(exp))[:4]
                diff = [(k, got[k], exp[k]) for k in sorted(set(got) & set(exp)) if got[k] != exp[k]][:2]
                V.append(f"key {key} epoch [{ep['start']},{ep['stop']}): instance differs from the function run alone: missing runs {missing}, "
                         f"extra runs {extra}, value differences (uid,t),got,expected {diff}")
            stop_t = gstop.get(gid)
            want_stop = ep["stop"]
            if want_stop is not None and stop_t != want_stop:
                V.append(f"key {key} epoch [{ep['start']},{ep['stop']}): child graph stopped at t={stop_t}")
            outs = [(t, ins[0][3]) for (u, t), (o, ins) in sorted(mr.runs.items(), key=lambda kv: kv[0][1]) if u == 1004]
            exp_out.setdefault(key, []).append((ep, outs))
    children = [g for g, p in gparent.items() if p == 0]
    if len(children) != n_epochs:
        V.append(f"{len(children)} child graphs were started for {n_epochs} key epochs")
    # the map output, tick by tick
    mirror = {t: d for t, d, _ in parse_dumps(run).get(11, [])}
    for t in sorted(mirror):
        d = mirror[t]
        exp_items, exp_mod, exp_rem, exp_add = {}, set(), set(), set()
        for key, lst in exp_out.items():
            for ep, outs in lst:
                stop = ep["stop"] if ep["stop"] is not None else case.end + 1
                past = [(tt, v) for tt, v in outs if tt <= t]
                if ep["start"] <= t < stop and past:
                    exp_items[str(key)] = past[-1][1]
                    if past[-1][0] == t:
                        exp_mod.add(str(key))
                    if len(past) == 1 and past[0][0] == t:
                        exp_add.add(str(key))
                if stop == t and [x for x in outs if x[0] < t]:
                    exp_rem.add(str(key))
        got_items = {k: int(c["val"]) for k, c in d["items"].items() if c["v"]}
        ghost = [k for k, c in d["items"].items() if not c["v"]]
        phantom += len(ghost)      # live-but-unpublished elements (documented 'phantom slots'): not map elements
        out_cmp += 1
        if got_items != exp_items:
            V.append(f"map output at t={t}: {dict(sorted(got_items.items())[:6])} != expected {dict(sorted(exp_items.items())[:6])}")
        # a key removed and re-added in consecutive cycles etc.: compare delta parts
        readd_same = exp_rem & set(exp_items)
        if set(d["rem"]) != exp_rem - readd_same and set(d["rem"]) != exp_rem:
            V.append(f"map output at t={t}: removed {sorted(d['rem'])} != keys that left {sorted(exp_rem)}")
        if set(d["modk"]) != exp_mod:
            V.append(f"map output at t={t}: modified keys {sorted(d['modk'])} != keys whose instance ticked {sorted(exp_mod)}")
    for msg in V[:6]:
        res.violations.append(Violation(msg))
    if known3:
        res.violations.append(Violation(known3[0], "nested-in-dynamic-child-sampled-input-not-modified"))
    if known:
        res.violations.append(Violation(known[0], "nested-start-samples-unset-source"))
    res.counters = {"epochs_checked": n_epochs, "readd_epochs": readds, "instance_runs_compared": runs_cmp,
                    "output_ticks_compared": out_cmp, "timer_runs_in_instances": timer_runs, "phantom_slots_seen": phantom,
                    "two_dictionary_epochs": two_dict, "key_left_one_dictionary_only": partial_leave}
    res.nontrivial = n_epochs >= 3 and readds >= 1
    if case.meta.get("explicit_keys"):
        res.counters["explicit_key_set_epochs"] = n_epochs
        res.counters["explicit_keys_mapped_before_their_element_exists"] = sum(
            1 for lst in eps.values() for ep in lst if not ep["ticks"] or ep["ticks"][0][0] > ep["start"])
        res.nontrivial = n_epochs >= 2
    if case.meta.get("repoint"):
        res.counters["dictionary_repoints_with_surviving_instances"] = repoints
        res.counters["instances_followed_across_repoints"] = n_epochs if repoints else 0
        res.nontrivial = repoints >= 1
    return res
