"""Generator of collection mutation histories (scripts) for the hgdrive collection shapes."""
from __future__ import annotations
import json
from .prog import Case, S
from .collmodel import Node, SHAPES


# Clearing a window is generated only where the per-tick flags are the subject (C04, C05): the engine refuses to RECORD a
# cleared window ("TSW clear ticks are not representable by the legacy scalar delta" - an explicit error, not a silent loss).
WINDOW_CLEARS = False
WHOLE_SET_ASSIGN = False        # C04 / C05 / C20: a set assigned as a whole (copy_value_from), also inside dictionaries and bundles
DYNLIST_CHILD_INVALIDATE = True   # elements of a dynamic list may be invalidated (and written again in the same cycle)
CONTAINER_INVALIDATE = False     # C04 only: explicit invalidation of a whole list / bundle / dictionary endpoint (op "I")


def gen_op(rng, node, effective, universe=6, allow_invalidate=False):
    """One op string for `node` (model state is NOT mutated). None if nothing sensible."""
    k = node.kind
    if k == "ts":
        if allow_invalidate and node.val is not None and rng.random() < 0.12:
            return "i"
        return f"={rng.randint(0, 99)}"
    if k == "tss":
        r = rng.random()
        if WHOLE_SET_ASSIGN and r < 0.3:
            # whole-value assignment; often the empty set or exactly what the set already holds (no storage operation runs)
            q = rng.random()
            new = set() if q < 0.35 else set(node.val) if q < 0.55 else {v for v in range(universe) if rng.random() < 0.4}
            return ":" + ";".join(str(v) for v in sorted(new))
        if r < 0.5:
            cands = [v for v in range(universe) if v not in node.val] if effective else list(range(universe))
            return f"+{rng.choice(cands)}" if cands else (f"-{rng.choice(sorted(node.val))}" if node.val else None)
        if r < 0.92:
            cands = sorted(node.val) if effective else list(range(universe))
            return f"-{rng.choice(cands)}" if cands else f"+{rng.randrange(universe)}"
        return "c" if (node.val or not effective) else f"+{rng.randrange(universe)}"
    if k == "tsw":
        if WINDOW_CLEARS and node.ever and rng.random() < 0.12:
            return "c"                      # clear (only a window that has been pushed to)
        return f"^{rng.randint(0, 99)}"
    if k == "tsd":
        keys = [str(i) if node.shape[1] == "int" else (chr(ord('a') + i) if universe <= 26 else f"k{i}") for i in range(universe)]
        live = [str(x) for x in node.children]
        r = rng.random()
        if r < 0.62 or not live:
            key = rng.choice(keys)
            ck = int(key) if node.shape[1] == "int" else key
            child = node.children.get(ck) or Node(node.shape[2])
            cop = gen_op(rng, child, effective, universe, allow_invalidate)
            return f"[{key}]{cop}" if cop else None
        if r < 0.95:
            cands = live if effective else keys
            return f"x[{rng.choice(cands)}]"
        return "c"
    if k == "tsl" and node.shape[1] == 0:
        # dynamic list: append at the end or rewrite an existing element (contiguous growth)
        n = len(node.children)
        i = n if (n == 0 or (n < max(3, universe) and rng.random() < 0.35)) else rng.randrange(n)
        child = node.children[i] if i < n else Node(node.shape[2])
        cop = gen_op(rng, child, effective, universe, DYNLIST_CHILD_INVALIDATE and allow_invalidate and i < n)
        return f"[{i}]{cop}" if cop else None
    if k == "tsl":
        i = rng.randrange(len(node.children))
        cop = gen_op(rng, node.children[i], effective, universe, allow_invalidate)
        return f"[{i}]{cop}" if cop else None
    if k == "tsb":
        i = rng.randrange(len(node.children))
        cop = gen_op(rng, node.children[i], effective, universe, allow_invalidate)
        return f".{node.names[i]}{cop}" if cop else None
    return None


def gen_cscript(rng, shape_name, start, end, *, effective=False, allow_invalidate=False, big=False):
    node = Node(SHAPES[shape_name])
    universe = rng.choice([3, 6, 6, 12]) if not big else rng.choice([40, 90, 200])
    times = sorted(rng.sample(range(start, end), min(end - start, rng.choice([3, 6, 10, 16, 25]))))
    if times and rng.random() < 0.5:        # runs of consecutive smallest steps
        t0 = rng.choice(times)
        times = sorted(set(times) | {t for t in (t0 + 1, t0 + 2, t0 + 3) if t < end})
    out = []
    if shape_name in ("tss32", "tsd32", "tss", "tsd") and not big and rng.random() < (0.6 if shape_name.endswith("32") else 0.15):
        # capacity-boundary histories: fill to exactly 8 / 16 / 32 live keys, then cycles that remove one key and add a NEW one
        # (the removed slot is still pending when the insert finds the table full and makes it grow), removals followed by
        # re-adds, shrinking and growing again
        def key_op(kind, k):
            if shape_name.startswith("tss"):
                return ("+%d" if kind == "add" else "-%d") % k
            return (f"[{k}]={rng.randint(0, 99)}" if kind == "add" else f"x[{k}]")
        live, nxt, t = [], 100, start
        target = rng.choice([8, 16, 32])
        ops = []
        while len(live) < target:
            live.append(nxt)
            ops.append(key_op("add", nxt))
            nxt += 1
            if len(ops) >= rng.choice([3, 8, 40]) or len(live) == target:
                for op in ops:
                    node.apply(op, t)
                out.append(f"{t}|" + ",".join(ops))
                ops, t = [], t + 1
                if t >= end - 4:
                    break
        while t < end - 1:
            ops = []
            for _ in range(rng.choice([1, 1, 2, 3])):
                if live:
                    k = live.pop(rng.randrange(len(live)))
                    ops.append(key_op("rem", k))
            for _ in range(rng.choice([1, 1, 2, 4])):
                live.append(nxt)
                ops.append(key_op("add", nxt))
                nxt += 1
            if rng.random() < 0.3:
                rng.shuffle(ops)
            good = []
            for op in ops:
                node.apply(op, t)
                good.append(op)
            out.append(f"{t}|" + ",".join(good))
            t += rng.choice([1, 1, 2])
        return out
    for t in times:
        nops = rng.choice([1, 1, 2, 3, 5]) if not big else rng.choice([5, 20, 40])
        if shape_name == "tsw":
            nops = 1          # the engine allows one window tick per evaluation time
        ops = []
        container = node.kind in ("tsl", "tsb", "tsd")
        if CONTAINER_INVALIDATE and allow_invalidate and container and node.valid() and rng.random() < 0.1:
            # the whole endpoint is invalidated, alone in its cycle (what a write and an invalidation in ONE cycle leave behind is
            # not pinned down by the property)
            node.apply("I", t)
            out.append(f"{t}|I")
            continue
        elem_kinds = {}
        for _ in range(nops):
            dynlist = node.kind == "tsl" and node.shape[1] == 0
            op = gen_op(rng, node, effective, universe, allow_invalidate and (not container or dynlist))
            if op is None:
                continue
            if dynlist:
                # an element is either written or invalidated in one cycle, never both (what a write and an invalidation of one
                # element in ONE cycle leave in the list's delta is the known finding F32 and its relatives: constructed witness only)
                idx, kind = op[1:op.index("]")], ("i" if op.endswith("]i") else "w")
                if elem_kinds.setdefault(idx, kind) != kind or (kind == "i" and sum(1 for o in ops if o == op)):
                    continue
            node.apply(op, t)
            ops.append(op)
        if ops:
            out.append(f"{t}|" + ",".join(ops))
    return out


def gen_coll_case(rng, name, *, shapes=None, probes=False, effective=False, allow_invalidate=False, copies=0, big=False):
    start = rng.choice([0, 0, 4])
    end = start + rng.choice([20, 35, 50])
    c = Case(name, start, end)
    uid = 0

    def nu():
        nonlocal uid
        uid += 1
        return uid

    st = []
    clk = nu()
    c.scripts[clk] = [(t, t) for t in range(start, end)]
    st.append(S("clk", "src", uid=clk, mode=rng.choice([0, 1])))
    c.meta["sources"] = []
    names = shapes or list(SHAPES)
    for k in range(rng.choice([1, 2, 3])):
        sh = rng.choice(names)
        su = nu()
        c.cscripts[su] = gen_cscript(rng, sh, start, end, effective=effective, allow_invalidate=allow_invalidate and (sh == "ts" or (CONTAINER_INVALIDATE and sh in ("tsl", "tsb", "tsd", "dl", "lb", "bb", "bl", "qq"))),
                                     big=big)
        st.append(S(f"c{k}", "csrc", shape=sh, uid=su))
        entry = {"uid": su, "shape": sh, "mirrors": [], "probes": [], "copies": []}
        if probes:
            p1 = nu()
            st.append(S("", "cprobe", f"c{k}", "clk", uid=p1))
            entry["probes"].append(p1)
        m = nu()
        st.append(S("", "cmirror", f"c{k}", uid=m))
        entry["mirrors"].append(m)
        prev = f"c{k}"
        for j in range(copies):
            cu, mu = nu(), nu()
            st.append(S(f"c{k}_{j}", "ccopy", prev, uid=cu))
            st.append(S("", "cmirror", f"c{k}_{j}", uid=mu))
            entry["copies"].append({"copy": cu, "mirror": mu})
            prev = f"c{k}_{j}"
        if probes:
            # a second probe ranked later (after the mirror / copies) must agree with the first
            p2 = nu()
            st.append(S("", "cprobe", prev if not copies else f"c{k}", "clk", uid=p2))
            entry["probes"].append(p2)
        c.meta["sources"].append(entry)
    c.graphs["main"] = st
    return c


def parse_dumps(run, kinds=("c.mirror", "c.probe")):
    """uid -> [(t, dump dict)] in trace order."""
    out = {}
    for seq, kind, tk in run.events:
        if kind in kinds:
            out.setdefault(int(tk[0]), []).append((int(tk[3]), json.loads(tk[4].replace("_", " ")), kind))
    return out


def write_log(run):
    """uid -> [(t, [ops])] actually executed by the scripted sources (from the trace, not the plan)."""
    out = {}
    for seq, kind, tk in run.events:
        if kind == "c.write":
            out.setdefault(int(tk[0]), []).append((int(tk[3]), tk[4].split(",")))
    return out
