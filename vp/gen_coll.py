"""Generator of collection mutation histories (scripts) for the hgdrive collection shapes."""
from __future__ import annotations
import json
from .prog import Case, S
from .collmodel import Node, SHAPES


def gen_op(rng, node, effective, universe=6, allow_invalidate=False):
    """One op string for `node` (model state is NOT mutated). None if nothing sensible."""
    k = node.kind
    if k == "ts":
        if allow_invalidate and node.val is not None and rng.random() < 0.12:
            return "i"
        return f"={rng.randint(0, 99)}"
    if k == "tss":
        r = rng.random()
        if r < 0.5:
            cands = [v for v in range(universe) if v not in node.val] if effective else list(range(universe))
            return f"+{rng.choice(cands)}" if cands else (f"-{rng.choice(sorted(node.val))}" if node.val else None)
        if r < 0.92:
            cands = sorted(node.val) if effective else list(range(universe))
            return f"-{rng.choice(cands)}" if cands else f"+{rng.randrange(universe)}"
        return "c" if (node.val or not effective) else f"+{rng.randrange(universe)}"
    if k == "tsw":
        return f"^{rng.randint(0, 99)}"
    if k == "tsd":
        keys = [str(i) if node.shape[1] == "int" else (chr(ord('a') + i) if universe <= 26 else f"k{i}") for i in range(universe)]
        live = [str(x) for x in node.children]
        r = rng.random()
        if r < 0.62 or not live:
            key = rng.choice(keys)
            ck = int(key) if node.shape[1] == "int" else key
            child = node.children.get(ck) or Node(node.shape[2])
            cop = gen_op(rng, child, effective, universe, allow_invalidate)
            return f"[{key}]{cop}" if cop else None
        if r < 0.95:
            cands = live if effective else keys
            return f"x[{rng.choice(cands)}]"
        return "c"
    if k == "tsl":
        i = rng.randrange(len(node.children))
        cop = gen_op(rng, node.children[i], effective, universe, allow_invalidate)
        return f"[{i}]{cop}" if cop else None
    if k == "tsb":
        i = rng.randrange(len(node.children))
        cop = gen_op(rng, node.children[i], effective, universe, allow_invalidate)
        return f".{node.names[i]}{cop}" if cop else None
    return None


def gen_cscript(rng, shape_name, start, end, *, effective=False, allow_invalidate=False, big=False):
    node = Node(SHAPES[shape_name])
    universe = rng.choice([3, 6, 6, 12]) if not big else rng.choice([40, 90, 200])
    times = sorted(rng.sample(range(start, end), min(end - start, rng.choice([3, 6, 10, 16, 25]))))
    if times and rng.random() < 0.5:        # runs of consecutive smallest steps
        t0 = rng.choice(times)
        times = sorted(set(times) | {t for t in (t0 + 1, t0 + 2, t0 + 3) if t < end})
    out = []
    for t in times:
        nops = rng.choice([1, 1, 2, 3, 5]) if not big else rng.choice([5, 20, 40])
        if shape_name == "tsw":
            nops = 1          # the engine allows one window tick per evaluation time
        ops = []
        for _ in range(nops):
            op = gen_op(rng, node, effective, universe, allow_invalidate)
            if op is None:
                continue
            node.apply(op, t)
            ops.append(op)
        if ops:
            out.append(f"{t}|" + ",".join(ops))
    return out


def gen_coll_case(rng, name, *, shapes=None, probes=False, effective=False, allow_invalidate=False, copies=0, big=False):
    start = rng.choice([0, 0, 4])
    end = start + rng.choice([20, 35, 50])
    c = Case(name, start, end)
    uid = 0

    def nu():
        nonlocal uid
        uid += 1
        return uid

    st = []
    clk = nu()
    c.scripts[clk] = [(t, t) for t in range(start, end)]
    st.append(S("clk", "src", uid=clk, mode=rng.choice([0, 1])))
    c.meta["sources"] = []
    names = shapes or list(SHAPES)
    for k in range(rng.choice([1, 2, 3])):
        sh = rng.choice(names)
        su = nu()
        c.cscripts[su] = gen_cscript(rng, sh, start, end, effective=effective, allow_invalidate=allow_invalidate and sh == "ts", big=big)
        st.append(S(f"c{k}", "csrc", shape=sh, uid=su))
        entry = {"uid": su, "shape": sh, "mirrors": [], "probes": [], "copies": []}
        if probes:
            p1 = nu()
            st.append(S("", "cprobe", f"c{k}", "clk", uid=p1))
            entry["probes"].append(p1)
        m = nu()
        st.append(S("", "cmirror", f"c{k}", uid=m))
        entry["mirrors"].append(m)
        prev = f"c{k}"
        for j in range(copies):
            cu, mu = nu(), nu()
            st.append(S(f"c{k}_{j}", "ccopy", prev, uid=cu))
            st.append(S("", "cmirror", f"c{k}_{j}", uid=mu))
            entry["copies"].append({"copy": cu, "mirror": mu})
            prev = f"c{k}_{j}"
        if probes:
            # a second probe ranked later (after the mirror / copies) must agree with the first
            p2 = nu()
            st.append(S("", "cprobe", prev if not copies else f"c{k}", "clk", uid=p2))
            entry["probes"].append(p2)
        c.meta["sources"].append(entry)
    c.graphs["main"] = st
    return c


def parse_dumps(run, kinds=("c.mirror", "c.probe")):
    """uid -> [(t, dump dict)] in trace order."""
    out = {}
    for seq, kind, tk in run.events:
        if kind in kinds:
            out.setdefault(int(tk[0]), []).append((int(tk[3]), json.loads(tk[4].replace("_", " ")), kind))
    return out


def write_log(run):
    """uid -> [(t, [ops])] actually executed by the scripted sources (from the trace, not the plan)."""
    out = {}
    for seq, kind, tk in run.events:
        if kind == "c.write":
            out.setdefault(int(tk[0]), []).append((int(tk[3]), tk[4].split(",")))
    return out
