"""Shadow model of collection time-series for the hgdrive shapes: value, validity, last-modified time and the
per-cycle delta, driven by the same mutation scripts the scripted sources execute.

Shapes are described by nested tuples:
   ("ts",) ("tss",) ("tsw", period, min_period) ("tsd", keytype, child) ("tsl", n, child) ("tsb", [(name, child), ...])
"""
from __future__ import annotations

NEVER = -1

VB = ("tsb", [("x", ("ts",)), ("s", ("tss",))])
SHAPES = {
    "ts": ("ts",),
    "tss": ("tss",),
    "tsd": ("tsd", "int", ("ts",)),
    "tsl": ("tsl", 3, ("ts",)),
    "tsb": VB,
    "tsw": ("tsw", 3, 2),
    "dss": ("tsd", "int", ("tss",)),
    "dsb": ("tsd", "str", VB),
    "lb": ("tsl", 2, VB),
    "dd": ("tsd", "int", ("tsd", "int", ("ts",))),
    "bb": ("tsb", [("q", ("tsb", [("b", ("ts",)), ("a", ("ts",))])), ("l", ("ts",))]),
    "bl": ("tsb", [("g", ("tsl", 2, ("ts",))), ("l", ("ts",))]),
    "qq": ("tsl", 2, ("tsl", 2, ("ts",))),
    "tss32": ("tss",),
    "tsd32": ("tsd", "int", ("ts",)),
    "dl": ("tsl", 0, ("ts",)),            # dynamic list: grows on demand (size 0 = no fixed size)
}
KIND = {"ts": 0, "tss": 1, "tsd": 2, "tsl": 3, "tsw": 4, "tsb": 5}


class Node:
    """One endpoint of the shadow model."""

    def __init__(self, shape):
        self.shape = shape
        self.kind = shape[0]
        self.lmt = NEVER
        self.wrote_at = set()          # cycles in which this endpoint (or a descendant) was written
        if self.kind == "ts":
            self.val = None
        elif self.kind == "tss":
            self.val = set()
            self.added, self.removed, self.dt = set(), set(), NEVER
        elif self.kind == "tsw":
            self.val = []
            self.count = 0
            self.ever = False          # pushed at least once (clearing does not invalidate)
            self.evicted = {}          # cycle -> value that fell out of the window in that cycle
            self.cleared_at = set()    # cycles in which the window was cleared
        elif self.kind == "tsd":
            self.children = {}
            self.added, self.removed, self.modk, self.dt = set(), set(), set(), NEVER
            self.removed_vals = {}
            self.limbo, self.start_keys, self.readded = {}, set(), set()
        elif self.kind == "tsl":
            self.children = [Node(shape[2]) for _ in range(shape[1])]
        elif self.kind == "tsb":
            self.children = [Node(s) for _, s in shape[1]]
            self.names = [n for n, _ in shape[1]]

    # ---- per-cycle delta bookkeeping -------------------------------------------------------
    def _roll(self, t):
        if self.kind in ("tss", "tsd") and self.dt != t:
            self.added, self.removed = set(), set()
            if self.kind == "tsd":
                self.modk = set()
                self.removed_vals = {}
                self.limbo = {}                      # children erased in this cycle (still constructed)
                self.start_keys = set(self.children)
                self.readded = set()
            self.dt = t

    def touch(self, t):
        self.lmt = t
        self.wrote_at.add(t)

    # ---- mutation -------------------------------------------------------------------------------
    def _wipe(self):
        """Cascade of an explicit invalidation: this endpoint and everything below it holds no value any more."""
        self.lmt = NEVER
        self.inval = True
        if self.kind == "ts":
            self.val = None
        elif self.kind == "tsd":
            for c in self.children.values():
                c._wipe()
        elif self.kind in ("tsl", "tsb"):
            for c in self.children:
                c._wipe()

    def apply(self, op, t):
        """Apply one op; returns True when the op wrote this endpoint (ticked it)."""
        k = self.kind
        if op == "I" and k in ("tsl", "tsb", "tsd"):
            # explicit invalidation of the whole endpoint: it ticks once (consumers are told), reads invalid from then on, its
            # children read invalid with no modification time; dictionary keys stay
            if k == "tsd":
                self._roll(t)
            self._wipe()
            self.touch(t)
            return True
        self.inval = False
        if k == "ts":
            if op[0] == "=":
                self.val = int(op[1:])
            elif op[0] == "i":
                self.val = None
            self.touch(t)
            return True
        if k == "tss":
            self._roll(t)
            if op[0] == "+":
                v = int(op[1:])
                if v not in self.val:
                    self.val.add(v)
                    if v in self.removed:
                        self.removed.discard(v)
                    else:
                        self.added.add(v)
            elif op[0] == "-":
                v = int(op[1:])
                if v in self.val:
                    self.val.discard(v)
                    if v in self.added:
                        self.added.discard(v)
                    else:
                        self.removed.add(v)
            elif op[0] == "c":
                for v in list(self.val):
                    self.val.discard(v)
                    if v in self.added:
                        self.added.discard(v)
                    else:
                        self.removed.add(v)
            elif op[0] == ":":
                # whole-value assignment: the set becomes exactly the given elements (net effect: the new ones are added, the
                # missing ones removed); assigning what it already holds still ticks the endpoint
                new = {int(x) for x in op[1:].split(";") if x}
                for v in sorted(new - self.val):
                    self.apply(f"+{v}", t)
                for v in sorted(self.val - new):
                    self.apply(f"-{v}", t)
            self.touch(t)
            return True
        if k == "tsw":
            if op[0] == "c":
                self.val, self.count = [], 0
                self.cleared_at.add(t)
                self.touch(t)
                return True
            self.val.append(int(op[1:]))
            self.count += 1
            self.ever = True
            if len(self.val) > self.shape[1]:
                self.evicted[t] = self.val[0]
            self.val = self.val[-self.shape[1]:]
            self.touch(t)
            return True
        if k == "tsd":
            self._roll(t)
            if op[0] == "c":
                for key in list(self.children):
                    self._erase(key)
                self.touch(t)
                return True
            lb, rb = op.index("["), op.index("]")
            key = op[lb + 1:rb]
            if self.shape[1] == "int":
                key = int(key)
            if op[0] == "x":
                self._erase(key)
                self.touch(t)
                return True
            if key not in self.children:
                if key in self.limbo:
                    # erased earlier in this cycle: the insertion resurrects the same child (contents included)
                    self.children[key] = self.limbo.pop(key)
                    self.removed.discard(key)
                    self.removed_vals.pop(key, None)
                    self.readded.add(key)
                else:
                    self.children[key] = Node(self.shape[2])
            self.children[key].apply(op[rb + 1:], t)
            self.touch(t)
            return True
        if k == "tsl":
            lb, rb = op.index("["), op.index("]")
            i = int(op[lb + 1:rb])
            while self.shape[1] == 0 and i >= len(self.children):
                self.children.append(Node(self.shape[2]))          # a dynamic list grows up to the written index
            cop = op[rb + 1:]
            hist = self.__dict__.setdefault("_cycle_ops", {}).setdefault(t, {}).setdefault(i, [])
            if cop == "i" and self.children[i].kind == "ts":
                # an ELEMENT invalidated on its own: it holds no value and no modification time any more (it reads not modified
                # even in this cycle); the list is told and ticks
                self.children[i]._wipe()
                hist.append("i")
            else:
                if hist[-2:] == ["w", "i"]:
                    # ticked, invalidated and written AGAIN in one cycle: the element notifies the list a second time (F32)
                    self.__dict__.setdefault("renotified", set()).add(t)
                self.children[i].apply(cop, t)
                hist.append("w")
            self.touch(t)
            return True
        if k == "tsb":
            name = op[1]
            self.children[self.names.index(name)].apply(op[2:], t)
            self.touch(t)
            return True
        raise ValueError(op)

    def _erase(self, key):
        if key not in self.children:
            return
        ch = self.children.pop(key)
        self.limbo[key] = ch
        if key in self.start_keys:
            self.removed.add(key)
            self.removed_vals[key] = ch

    def delta_sets(self, t):
        """(added, removed, modified) key sets of cycle t as a consumer must see them."""
        if self.dt != t:
            return set(), set(), set()
        live = set(self.children)
        added = {k for k in live if k not in self.start_keys}
        removed = {k for k in self.start_keys if k not in live}
        modified = {k for k in live if t in self.children[k].wrote_at}
        return added, removed, modified

    # ---- observation ------------------------------------------------------------------------------
    def valid(self):
        k = self.kind
        if k == "ts":
            return self.val is not None
        if k in ("tss", "tsd"):
            return self.lmt != NEVER and not getattr(self, "inval", False)
        if k == "tsw":
            return self.ever
        if k == "tsl" and self.shape[1] == 0 and self.children and not any(c.valid() for c in self.children):
            # a dynamic list that has elements stays valid once it has been written, also when every element lost its value
            return self.lmt != NEVER and not getattr(self, "inval", False)
        return any(c.valid() for c in self.children)

    def all_valid(self):
        k = self.kind
        if k in ("tsl", "tsb"):
            return bool(self.children) and all(c.valid() for c in self.children)     # (a dynamic list may have no element yet)
        if k == "tsw":
            return self.count >= self.shape[2]       # the minimum count gates all_valid
        return self.valid()

    def value(self):
        k = self.kind
        if k == "ts":
            return self.val
        if k == "tss":
            return frozenset(self.val)
        if k == "tsw":
            return tuple(self.val)
        if k == "tsd":
            return {key: c.value() for key, c in self.children.items()}
        return [c.value() for c in self.children]


def dump_value(d):
    """Convert a harness endpoint dump (parsed JSON) into the same nested value form as Node.value()."""
    k = d["k"]
    if k == 0:
        return int(d["val"]) if d["v"] and d["val"] not in ("<none>",) else None
    if k == 1:
        return frozenset(int(x) for x in d["vals"])
    if k == 4:
        return tuple(int(x) for x in d["vals"])
    if k == 2:
        return {_key(kk): dump_value(c) for kk, c in d["items"].items()}
    return [dump_value(c) for c in d["ch"]]


def _key(s):
    try:
        return int(s)
    except ValueError:
        return s
