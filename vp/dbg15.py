import json, sys, os, subprocess, copy
from .runner import case_from_json, ensure_build, SCRATCH
from .trace import parse_trace
d = json.load(open(sys.argv[1]))
c = case_from_json(d["case"])
exe = ensure_build("hgdrive")
ok = copy.deepcopy(c); ok.faults = []; ok.name = c.name.replace("_bad", "_ok")
cp, tp = os.path.join(SCRATCH, "dbg.case"), os.path.join(SCRATCH, "dbg.trace")
open(cp, "w").write(ok.text() + c.text())
subprocess.run([exe, cp, tp])
trs = parse_trace(tp)
print(c.text())
print(d.get("violation", {}).get("what"))
filt = set(sys.argv[2:])
for nm in (ok.name, c.name):
    print("-----", nm)
    for seq, k, tk in trs[nm].runs[0].events:
        if (k.startswith("u.") and k not in ("u.start", "u.stop", "u.req") and (not filt or tk[0] in filt)) or (k == "C<" and tk[0] == "0") or k.startswith("X"):
            print(k, " ".join(tk))
