"""C16 - push queue: accepted values are delivered once, in order, within capacity (boundary-history checker)."""
from __future__ import annotations
import bisect, json, os, random, time
from .runner import Inconclusive, ensure_build, REPLAYS, write_evidence, sig_hash, scaled
from .rt import Scenario, run_scenarios

PROPERTY = "C16"
LEVEL = "exploration"
RULE = ("real-time runs of a push source feeding a recording sink: 1-6 producer threads x 20-600 uniquely numbered messages x "
        "capacities {unbounded, 1, 2, 5} x policies {queue, burst, conflating} x try_send / send_blocking x pacing profiles "
        "(spin, yield, microsecond sleeps, bursts, random) x stop at a random instant / after n deliveries / after draining x "
        "seeded delays injected at the hook points of the admission / wake / pop / re-arm protocol. The history of every send "
        "(call/return timestamps, result) and every delivery is checked offline. Non-trivial: >= 2 producers or a bounded "
        "queue that filled up; distinct by scenario text")
ASSUMPTIONS = ["send histories are recorded at the client boundary with one steady clock; delivery timestamps are taken inside the sink",
               "bounded progress replaces 'eventually': with producers finished and the run continuing, everything accepted must be "
               "delivered within 2.5 s", "hook points (HGRAPH_VERIF_HOOKS) only log and sleep outside critical sections",
               "g++-12 -O1 build of the working tree with harness-side shims"]
FLOORS = {"sends_checked": {"quick": 8000, "thorough": 150000}, "deliveries_checked": {"quick": 5000, "thorough": 100000},
          "refusals_justified": {"quick": 300, "thorough": 5000}, "scenarios_queue_filled": {"quick": 15, "thorough": 250},
          "late_sends_refused": {"quick": 150, "thorough": 2500}, "sends_while_loop_waiting": {"quick": 200, "thorough": 4000},
          "conflated_noop_deltas_accepted": {"quick": 300, "thorough": 5000}, "multi_source_graphs": {"quick": 10, "thorough": 200}}
HOOKS = ["rt.mark.before_lock", "rt.mark.before_notify", "ps.send.after_admission", "ps.pop.after_unlock", "ps.eval.after_emit",
         "rt.wait.enter", "rt.wait.leave", "rt.stop.before_lock", "rt.stop.before_notify"]


def gen(rng, k, seed):
    policy = rng.choice(["queue", "queue", "queue", "burst", "conflate"])
    kv = dict(kind="push", policy=policy, cap=rng.choice([0, 0, 1, 2, 5]), producers=rng.choice([1, 2, 3, 4, 6]),
              msgs=rng.choice([20, 50, 120, 300, 600]), blocking=rng.choice([0, 0, 1]),
              pacing=rng.choice(["spin", "yield", "sleep:20", "sleep:200", "burst:10:300", "rand", "rand"]),
              stop=rng.choice(["drain", "drain", "drain", f"afterms:{rng.choice([1, 3, 8, 20])}", f"aftermsgs:{rng.choice([5, 30, 100])}"]),
              late=3, end_ms=4000, seed=rng.randrange(1 << 30))
    if policy == "conflate":
        kv["cap"] = 0
    if rng.random() < 0.6:
        ds = []
        total = kv["producers"] * kv["msgs"]
        for h in rng.sample(HOOKS, rng.choice([1, 2, 3])):
            us, every = rng.choice([20, 100, 400, 1500]), rng.choice([1, 3, 7])
            # keep the total injected delay well below the bounded-progress deadline (the delay must not become the verdict)
            while total * us / every > 250000:
                every *= 4
            ds.append(f"{h}:{us}:{every}")
        kv["delays"] = ",".join(ds)
    if rng.random() < 0.2:
        kv["slice_us"] = rng.choice([200, 2000])
    if policy != "conflate" and kv["producers"] >= 2 and rng.random() < 0.3:
        kv["sources"] = rng.choice([2, 2, 3])          # several push sources share the executor's single wake-up flag
        if rng.random() < 0.7:
            # ... each with a capacity of its own (same value type, different bounds, unbounded next to bounded)
            kv["producers"] = max(kv["producers"], kv["sources"])
            caps = [rng.choice([0, 1, 2, 3, 5]) for _ in range(kv["sources"])]
            if len(set(caps)) == 1:
                caps[-1] = (caps[0] + rng.choice([1, 2])) % 6
            kv["caps"] = ",".join(str(x) for x in caps)
    return Scenario(f"c16_{seed}_{k}", kv)


def gen_conflating_dict(rng, k, seed):
    """Conflating source over a dictionary: effective updates interleaved with accepted deltas that change nothing."""
    kv = dict(kind="cpush", producers=rng.choice([1, 2, 3]), msgs=rng.choice([20, 50, 120]),
              pacing=rng.choice(["spin", "yield", "sleep:20", "sleep:200", "rand", "rand"]), end_ms=4000, seed=rng.randrange(1 << 30))
    if rng.random() < 0.5:
        kv["delays"] = ",".join(f"{h}:{rng.choice([20, 100, 400])}:{rng.choice([1, 3, 7])}" for h in rng.sample(HOOKS, rng.choice([1, 2])))
    return Scenario(f"c16_{seed}_cd{k}", kv)


def check_conflating_dict(sc, tr, rc):
    V, C = [], {}
    if tr is None or tr.run is None:
        return [f"no complete trace (rc={rc})"], C, "inconclusive"
    if tr.run[2] != "ok":
        V.append(f"run failed: {tr.errors[:2]}")
    accepted = {s[2] for s in tr.sends if s[5]}
    refused = [s for s in tr.sends if not s[5]]
    stop_call = tr.stop[0] if tr.stop else None
    for s in refused:
        if stop_call is None or s[4] < stop_call:
            V.append(f"send {s[2]} was refused although the conflating source neither fills up nor had been stopped")
            break
    expect = {}
    for tid, mid, op, key, val in tr.cdeltas:        # per key only one producer thread writes: program order == trace order
        if mid in accepted and op == "set":
            expect[key] = val
    state = {}
    for et, ts, items in tr.dvalues:
        state.update(items)
    C["conflated_updates_accepted"] = sum(1 for c in tr.cdeltas if c[1] in accepted and c[2] == "set")
    C["conflated_noop_deltas_accepted"] = sum(1 for c in tr.cdeltas if c[1] in accepted and c[2] != "set")
    C["conflated_ticks"] = len(tr.dvalues)
    times = [et for et, _, _ in tr.dvalues]
    if any(not a < b for a, b in zip(times, times[1:])):
        V.append("conflated deliveries are not in strictly increasing engine cycles")
    if state != expect:
        lost = {k: v for k, v in expect.items() if state.get(k) != v}
        V.append(f"{len(lost)} key(s) never reached the sink with their last accepted update although the run continued for 150 ms "
                 f"after the last send: e.g. {dict(list(lost.items())[:3])} (sink has {dict((k, state.get(k)) for k in list(lost)[:3])})")
    return V, C, "violation" if V else "held"


def check_lifecycle(tr):
    """Nodes start in index order and stop in the reverse order, whatever the queues hold when the run stops."""
    out = []
    starts = [i for k, i in tr.lifecycle if k == "start"]
    stops = [i for k, i in tr.lifecycle if k == "stop"]
    if starts and starts != sorted(starts):
        out.append(f"nodes started in the order {starts}, not in evaluation order")
    if stops and stops != sorted(stops, reverse=True):
        out.append(f"nodes stopped in the order {stops} (started {starts}): not the reverse of the start order")
    if starts and tr.run is not None and sorted(stops) != sorted(starts):
        out.append(f"started nodes {starts} but stopped {stops}")
    return out


def check(sc, tr, rc):
    if sc.kv.get("kind") == "cpush":
        return check_conflating_dict(sc, tr, rc)
    if tr is not None and tr.run is not None and getattr(tr, "lifecycle", None) and sc.kv.get("kind", "push") == "push":
        lv = check_lifecycle(tr)
        V, C, verdict = _check_push(sc, tr, rc)
        C["stop_orders_checked"] = 1
        pend = [d[3] for d in tr.deliveries]
        C["stops_with_values_still_queued"] = 1 if (tr.stop and len({x for d in tr.deliveries for x in d[4]}) < sum(1 for s in tr.sends if s[5] == 1 and s[1] != "late")) else 0
        if lv:
            return V + lv, C, "violation"
        return V, C, verdict
    return _check_push(sc, tr, rc)


def _check_push(sc, tr, rc):
    nsrc = int(sc.kv.get("sources", 1))
    if nsrc > 1 and tr is not None and tr.run is not None:
        # several push sources in ONE graph: each source is a queue of its own (its producers are those with p % sources == s)
        import copy
        Vall, Call, verdict = [], {}, "held"
        for src in range(nsrc):
            t2 = copy.copy(tr)
            t2.sends = [x for x in tr.sends if x[1] == "late" and src == 0 or (x[1] != "late" and ((x[2] // 1000000) - 1) % nsrc == src)]
            t2.deliveries = [d for d in tr.deliveries if d[5] == src]
            sc2 = sc
            if sc.kv.get("caps"):
                sc2 = copy.copy(sc)
                sc2.kv = dict(sc.kv, cap=int(str(sc.kv["caps"]).split(",")[src]))       # every source has its OWN capacity
            V, C, v = check_single(sc2, t2, rc)
            Vall += [f"source {src}: {m}" for m in V]
            for k, val in C.items():
                Call[k] = Call.get(k, 0) + val
            if v == "violation":
                verdict = "violation"
            elif v == "inconclusive" and verdict == "held":
                verdict = "inconclusive"
        Call["multi_source_graphs"] = 1
        return Vall, Call, verdict
    return check_single(sc, tr, rc)


def check_single(sc, tr, rc):
    V, C = [], {}
    kv = sc.kv
    policy, cap = kv["policy"], int(kv["cap"])
    if tr is None:
        return [f"no trace (rc={rc})"], C, "inconclusive"
    if tr.run is None:
        # the run never returned: decide on the phase log
        if tr.stop is not None:
            V.append(f"run() did not return although request_stop() returned at {tr.stop[1]} ns; last loop phases: "
                     f"{[h[1] for h in tr.hooks if h[1].startswith('rt.wait')][-4:]}")
            return V, C, "violation"
        return [f"run did not finish (rc={rc}) and no stop was requested"], C, "inconclusive"
    if tr.run[2] != "ok":
        V.append(f"run failed: {tr.errors[:2]}")
    sends = [s for s in tr.sends if s[1] != "late"]
    late = [s for s in tr.sends if s[1] == "late"]
    accepted = {s[2]: s for s in sends if s[5] == 1}
    delivered = [(i, d) for d in tr.deliveries for i in d[4]]
    ids = [i for i, _ in delivered]
    C["sends_checked"] = len(sends)
    C["deliveries_checked"] = len(ids)
    # exactly once, only accepted values
    seen = set()
    for i in ids:
        if i not in accepted:
            V.append(f"value {i} was delivered but its send was never accepted")
        if i in seen and policy != "conflate":
            V.append(f"value {i} was delivered twice")
        seen.add(i)
    # per-producer order (acceptance order == program order per producer): delivered subsequence is a prefix (queue/burst)
    by_prod = {}
    for s in sends:
        if s[5] == 1:
            by_prod.setdefault(s[2] // 1000000, []).append(s[2])
    dl_prod = {}
    for i in ids:
        dl_prod.setdefault(i // 1000000, []).append(i)
    for p, acc in by_prod.items():
        got = dl_prod.get(p, [])
        if policy == "conflate":
            if got != sorted(got):
                V.append(f"producer {p}: conflated deliveries out of order {got[:8]}")
            continue
        if got != acc[:len(got)]:
            k = next((j for j, (a, b) in enumerate(zip(got, acc)) if a != b), min(len(got), len(acc)))
            V.append(f"producer {p}: delivered sequence is not a prefix of the accepted sequence (position {k}: delivered "
                     f"{got[k:k + 3]}, accepted {acc[k:k + 3]})")
    # real-time order across producers: ret(A) < call(B) and B delivered => A delivered before B
    if policy != "conflate":
        pos = {i: n for n, i in enumerate(ids)}
        acc_sorted = sorted(accepted.values(), key=lambda s: s[4])          # by return time
        rets = [s[4] for s in acc_sorted]
        # for each delivered B: every accepted A with ret < call(B) must be delivered earlier
        max_pos_prefix = []
        worst = -1
        undelivered_prefix = []
        for s in acc_sorted:
            max_pos_prefix.append(None)
        prefix_undelivered = None
        prefix_maxpos = -1
        pm, pu = [], []
        for s in acc_sorted:
            if s[2] in pos:
                prefix_maxpos = max(prefix_maxpos, pos[s[2]])
            elif prefix_undelivered is None:
                prefix_undelivered = s[2]
            pm.append(prefix_maxpos)
            pu.append(prefix_undelivered)
        for b in accepted.values():
            if b[2] not in pos:
                continue
            k = bisect.bisect_left(rets, b[3]) - 1           # accepted sends that returned before B was called
            if k >= 0:
                if pu[k] is not None:
                    V.append(f"value {b[2]} was delivered although value {pu[k]}, accepted before {b[2]} was even sent, never was")
                    break
                if pm[k] > pos[b[2]]:
                    V.append(f"value {b[2]} overtook a value whose send had returned before {b[2]} was sent")
                    break
    # one value per cycle, strictly increasing evaluation times
    et = [d[0] for d in tr.deliveries]
    for a, b in zip(et, et[1:]):
        if not a < b:
            V.append(f"delivery evaluation times not strictly increasing: {a} then {b}")
            break
    if policy == "queue":
        for d in tr.deliveries:
            if len(d[4]) != 1:
                V.append(f"queue policy delivered {len(d[4])} values in one cycle")
                break
    # capacity
    filled = False
    if cap > 0:
        for d in tr.deliveries:
            if d[3] > cap:
                V.append(f"{d[3]} accepted-but-undelivered values with capacity {cap}")
                break
            if d[3] >= cap - 0:
                filled = True
    # refusals are justified: stop requested before the send returned, or the queue may have been full
    stop_call = tr.stop[0] if tr.stop else None
    run_ret = tr.run[1]
    if tr.stop is not None and tr.stop[0] >= tr.run[0]:
        lag_ms = (run_ret - tr.stop[1]) / 1e6
        after = [d for d in tr.deliveries if d[2] > tr.stop[1]]
        if lag_ms > 1500 and len(after) <= 1:
            V.append(f"run() returned {lag_ms:.0f} ms after request_stop() had returned with no further cycles in between (bounded "
                     f"progress: 1500 ms): the stop request was missed by the waiting loop")
    acc_calls = sorted(s[3] for s in accepted.values())
    deliv_ts = sorted(d[2] for d in tr.deliveries for _ in d[4])
    refused = [s for s in sends if s[5] == 0]
    just = 0
    last_cycle_wall = max((d[2] for d in tr.deliveries), default=None)
    for s in refused:
        stopped = (stop_call is not None and stop_call <= s[4]) or run_ret <= s[4]
        if stopped:
            just += 1
            continue
        if last_cycle_wall is not None and s[4] >= last_cycle_wall and s[4] - last_cycle_wall < 1.5e9:
            # the run reached its END TIME on its own (a loaded machine can get there with producers still busy): the engine's own
            # shutdown refuses sends before run() returns. Sound as a justification only because no cycle ran after the refusal AND
            # the loop was still delivering less than 1.5 s before it (a loop that sat idle with producers parked until the end
            # time - a lost wake-up, rt2-C17 - is still reported); a refusal followed by further deliveries is reported too
            # (thorough tier, seed 7, c16_7_544)
            just += 1
            C["refusals_at_engine_end_time"] = C.get("refusals_at_engine_end_time", 0) + 1
            continue
        if s[1] == "block":
            V.append(f"send_blocking of {s[2]} failed although no stop had been requested before it returned")
            continue
        if cap == 0:
            V.append(f"try_send of {s[2]} was refused on an unbounded queue that had not been stopped")
            continue
        possibly_in = bisect.bisect_right(acc_calls, s[4])            # accepted sends that may have been admitted by then
        surely_out = bisect.bisect_left(deliv_ts, s[3])               # deliveries logged before the call started
        if possibly_in - surely_out < cap:
            V.append(f"try_send of {s[2]} was refused although at most {possibly_in - surely_out} values could have been pending (capacity {cap})")
        else:
            just += 1
            filled = True
    C["refusals_justified"] = just
    C["scenarios_queue_filled"] = 1 if filled else 0
    # nothing is accepted after stop
    for s in late:
        if s[5] == 1:
            V.append(f"send of {s[2]} issued after run() returned was accepted")
    C["late_sends_refused"] = sum(1 for s in late if s[5] == 0)
    for s in sends:
        if s[5] == 1 and s[3] > run_ret:
            V.append(f"send of {s[2]} called after run() returned was accepted")
    # drain mode: everything accepted is delivered (bounded progress)
    # (a run that reached its end time before the controller asked for the stop did not 'continue until the drain deadline')
    drained = kv["stop"] == "drain" and stop_call is not None and stop_call <= run_ret
    if kv["stop"] == "drain" and not drained:
        C["drain_cut_by_end_time"] = 1
    if drained:
        # the drain deadline is a bounded-PROGRESS bound, not a speed limit: when the loop was still delivering (or producers were
        # still being admitted) shortly before the stop, the machine was slow, and the scenario says nothing about lost values -
        # it is counted and not judged. A lost wake-up shows as a loop that sat idle for >= 1.5 s with accepted values pending.
        progress = [d[2] for d in tr.deliveries if d[2] <= stop_call] + [s[4] for s in accepted.values() if s[4] <= stop_call]
        if progress and (stop_call - max(progress)) < 1.5e9:
            left = [i for i in accepted if i not in {x for d in tr.deliveries for x in d[4]}]
            if left and policy != "conflate":
                C["drain_deadline_hit_while_still_delivering"] = 1
                drained = False
            elif policy == "conflate":
                C["conflating_drain_stopped_while_still_active"] = 1
    if drained and policy != "conflate":
        missing = [i for i in accepted if i not in seen]
        if missing:
            V.append(f"{len(missing)} accepted values (e.g. {sorted(missing)[:4]}) were not delivered although the run continued after the last send "
                     f"until the drain deadline")
    if drained and policy == "conflate" and accepted and ids:
        nsrc = max(1, int(kv.get("sources", 1)))
        for src in range(nsrc):
            mine = {p: acc[-1] for p, acc in by_prod.items() if (p - 1) % nsrc == src}
            # the value the source is left with is the last accepted one: a producer's last value that no other producer's last
            # accepted send can have followed (its call began after this one had returned)
            lasts = {v for p, v in mine.items()
                     if not any(q != p and accepted[w][3] > accepted[v][4] for q, w in mine.items())}
            got = [i for d in tr.deliveries if d[5] == src for i in d[4]]
            if lasts and (not got or got[-1] not in lasts):
                V.append(f"conflating source {src}: last delivered value {got[-1] if got else None} is not the latest accepted value of any of its "
                         f"producers {sorted(lasts)} although the run continued until the drain deadline")
    # interleaving classes observed (evidence)
    waits = sorted((h[2], h[1]) for h in tr.hooks if h[1] in ("rt.wait.enter", "rt.wait.leave"))
    enter_ts = [t for t, p in waits if p == "rt.wait.enter"]
    leave_ts = [t for t, p in waits if p == "rt.wait.leave"]
    in_wait = 0
    for s in accepted.values():
        k = bisect.bisect_right(enter_ts, s[3]) - 1
        if k >= 0 and (k >= len(leave_ts) or leave_ts[k] > s[3]):
            in_wait += 1
    C["sends_while_loop_waiting"] = in_wait
    return V, C, "violation" if V else "held"


def main(tier, seed, replay):
    t0 = time.time()
    try:
        exe = ensure_build("hgrt")
    except Inconclusive as e:
        print(f"INCONCLUSIVE property={PROPERTY} reason={e}")
        return 2
    rng = random.Random(f"C16/{seed}/{tier}")
    n = scaled(150 if tier == "quick" else 2500)
    if replay:
        rp = json.load(open(replay))
        scs = [Scenario(rp["scenario"]["name"], rp["scenario"]["kv"])]
    else:
        scs = [gen(rng, k, seed) for k in range(n)] + [gen_conflating_dict(rng, k, seed) for k in range(n // 6)]
    results = run_scenarios(exe, scs, f"C16.{tier}.{seed}", workers=8 if tier == "quick" else 12)
    counters, hard, inconc = {}, [], []
    nontriv = set()
    samples = []
    for sc, tr, rc, err, secs in results:
        V, C, verdict = check(sc, tr, rc)
        for k, v in C.items():
            counters[k] = counters.get(k, 0) + v
        if verdict == "inconclusive":
            inconc.append(f"{sc.name}: {V[0]}")
        elif V:
            sc.observed = getattr(tr, "raw", "")
            hard.append((sc, V))
        if int(sc.kv["producers"]) >= 2 or C.get("scenarios_queue_filled"):
            nontriv.add(sig_hash(sc.text()))
        if len(samples) < 3 and C.get("deliveries_checked", 0) > 10:
            samples.append({"scenario": sc.text(), "counters": C, "seconds": round(secs, 3)})
    if not replay and (tier == "thorough" or os.environ.get("VERIF_TSAN") == "1"):
        # same scenario generator under -fsanitize=thread: data races in the queue / wait-notify protocol
        from .rt import tsan_pass
        try:
            sub = scs[: (40 if tier == "quick" else 400)]
            runs, reports, lock_order = tsan_pass(sub, f"%s.{tier}.{seed}" % PROPERTY)
            counters["tsan_scenarios_completed"] = runs
            counters["tsan_reports"] = len(reports)
            counters["tsan_lock_order_reports"] = lock_order
            for rep in reports[:5]:
                hard.append((sub[0], [f"ThreadSanitizer: {rep['kind']} in {' <- '.join(f.split(' ', 1)[-1][:90] for f in rep['frames'][:3])}",
                                      rep["text"]]))
            if runs < len(sub) // 2:
                inconc.append(f"only {runs} of {len(sub)} scenarios completed under ThreadSanitizer")
        except Inconclusive as e:
            inconc.append(f"tsan build: {e}")
    wall = time.time() - t0
    coverage = {"evaluations": len(results), "distinct_nontrivial": len(nontriv), "rule": RULE, "samples": samples or [{"scenario": scs[0].text()}],
                "monitor_counters": counters, "inconclusive_notes": inconc[:5]}
    if not replay:
        write_evidence(PROPERTY, tier, seed, LEVEL, coverage, ASSUMPTIONS, wall, len(hard))
    if hard:
        os.makedirs(os.path.join(REPLAYS, PROPERTY), exist_ok=True)
        for sc, V in hard[:5]:
            path = os.path.join(REPLAYS, PROPERTY, f"{sc.name}.json")
            json.dump({"property": PROPERTY, "scenario": {"name": sc.name, "kv": sc.kv}, "violation": {"what": V[0], "all": V[:10]},
                       "observed_trace": getattr(sc, "observed", "").splitlines()}, open(path, "w"), indent=1)
            print(f"VIOLATION property={PROPERTY} replay={path}")
            for m in V[:3]:
                print(f"  {m}")
        print(f"{PROPERTY}: {len(hard)} violating scenario(s) of {len(results)} ({wall:.1f}s)")
        return 1
    low = [k for k, fl in FLOORS.items() if counters.get(k, 0) < fl[tier]] if not replay else []
    if len(inconc) > max(2, len(results) // 20) or low:
        print(f"INCONCLUSIVE property={PROPERTY} " + "; ".join(inconc[:3] + [f"counter {k}={counters.get(k, 0)} below floor" for k in low]))
        return 2
    print(f"{PROPERTY}: held on {len(results)} real-time scenarios ({wall:.1f}s) counters={json.dumps(counters)}")
    return 0
