"""Executable reference model of the documented dataflow semantics for the hgdrive vocabulary.

Deliberately knows nothing about ranks, slots, caches or cursors (the one exception is the
optional *stale-wake emulation* used only to classify known finding F2, see SchedModel).

  flatten(case)  -> Flat      program -> list of node instances with resolved input references
  simulate(flat) -> ModelRun  cycle times, user-code runs (uid,t)->(out, inputs), requests
"""
from __future__ import annotations
from dataclasses import dataclass, field

NEVER = -1
WRAP = 1000003
INF = 10 ** 15


# ----------------------------------------------------------------------------------------------
# Node-scheduler model (property C18). Pure specification of the pending set.
# ----------------------------------------------------------------------------------------------
class SchedModel:
    def __init__(self):
        self.events = set()      # {(time, tag)}  tag "" = untagged
        self.tags = {}           # tag -> time

    def copy(self):
        s = SchedModel()
        s.events = set(self.events)
        s.tags = dict(self.tags)
        return s

    def earliest(self):
        return min(self.events)[0] if self.events else None

    def schedule(self, when, tag, now, started=True):
        if started:
            if when <= now:
                return False
        elif when < now:
            return False
        if tag:
            if tag in self.tags:
                self.events.discard((self.tags[tag], tag))
            self.tags[tag] = when
        self.prev_first = self.earliest()      # (used by the stale-slot emulation only)
        self.events.add((when, tag or ""))
        return True

    def un_schedule(self, tag=None):
        if tag:
            if tag in self.tags:
                self.events.discard((self.tags[tag], tag))
                del self.tags[tag]
            return
        if not self.events:
            return
        ev = min(self.events)
        self.events.discard(ev)
        self.tags.pop(ev[1], None)

    def pop_tag(self, tag):
        if tag not in self.tags:
            return NEVER
        when = self.tags.pop(tag)
        self.events.discard((when, tag))
        return when

    def reset(self):
        self.events.clear()
        self.tags.clear()

    def consume(self, now):
        for ev in [e for e in self.events if e[0] <= now]:
            self.events.discard(ev)
            if ev[1]:
                self.tags.pop(ev[1], None)

    def queries(self, now):
        e = self.earliest()
        return (e if e is not None else NEVER, 1 if self.events else 0, 1 if (e is not None and e == now) else 0,
                1 if "a" in self.tags else 0, self.tags.get("a", NEVER), 1 if "b" in self.tags else 0, self.tags.get("b", NEVER))


def parse_sched_op(tok):
    tag = ""
    if "@" in tok:
        tok, tag = tok.split("@", 1)
    op = tok[0]
    arg = int(tok[1:]) if len(tok) > 1 else 0
    return op, arg, tag


# ----------------------------------------------------------------------------------------------
# Flattening
# ----------------------------------------------------------------------------------------------
@dataclass
class Ref:
    target: object            # Inst | Alias
    passive: bool = False
    via: tuple = ()           # path of the last nested/try call whose return port this reference was taken from


class Alias:
    """delayed_binding placeholder."""
    def __init__(self):
        self.to = None


@dataclass
class Inst:
    id: int
    op: str
    uid: object
    kw: dict
    ins: list                 # [Ref]
    path: tuple = ()
    fb_source: object = None  # for op == 'fb': Ref of the bound producer
    group: tuple = ()         # nesting groups (call-site ids) this instance lives in


ACTIVE_EXCEPT = {"sample": {1}, "sample3": {1}, "pairall": {1, 2}, "pairany": {1, 2}}
UNCHECKED = {"gate": {0, 1}, "halfgate": {1}, "sched": {0}}
SCHEDULER_OPS = {"src", "ticker", "beacon", "delay", "sched"}


@dataclass
class Flat:
    insts: list
    case: object
    order: list = None


class FlattenError(Exception):
    pass


def _resolve(ref):
    seen = 0
    t = ref.target
    while isinstance(t, Alias):
        if t.to is None:
            raise FlattenError("unbound delayed binding")
        ref = Ref(t.to.target, ref.passive or t.to.passive, t.to.via or ref.via)
        t = ref.target
        seen += 1
        if seen > 100:
            raise FlattenError("alias cycle")
    return ref


def flatten(case, nested_drops_passive=False) -> Flat:
    """nested_drops_passive: known finding F29 emulation - a passive() marker on an ARGUMENT of a nested call is lost (the inner
    consumers of that parameter are woken by its ticks); inline the marker reaches every consumer of the parameter."""
    insts = []

    def new(op, uid, kw, ins, path):
        i = Inst(len(insts), op, uid, kw, ins, path, group=path)
        insts.append(i)
        return i

    intern = {}

    def run_graph(gname, params, path):
        env = {f"p{k}": p for k, p in enumerate(params)}
        ret = None

        def get(name):
            passive = False
            if name.startswith("~"):
                passive = True
                name = name[1:]
            r = env[name]
            return Ref(r.target, r.passive or passive, r.via)

        for st in case.graphs[gname]:
            op = st.op
            if op == "RET":
                ret = get(st.args[0])
                continue
            if op == "bind":
                env[st.args[0]].target.fb_source = get(st.args[1])
                continue
            if op == "delayed":
                env[st.dst] = Ref(Alias())
                continue
            if op == "bindd":
                env[st.args[0]].target.to = get(st.args[1])
                continue
            if op == "rank":
                continue
            if op in ("inline", "nested", "try"):
                sid = int(st.kw["sid"])
                args = [get(a) for a in st.args]
                if nested_drops_passive and op == "nested":
                    args = [Ref(r.target, False, r.via) for r in args]
                # nested_<G> with equal inputs and scalars is interned; so is every node wired inline.
                key = None
                sub_path = path + ((op, sid, len(insts)),)
                r = run_graph(f"sub{sid}", args, sub_path)
                if op == "nested" and r is not None:
                    r = Ref(r.target, r.passive, sub_path)
                if op == "try":
                    # the try_except node itself: its result bundle depends on everything inside and on the arguments
                    r = Ref(new("trynode", None, {}, ([r] if r is not None else []) + args, sub_path))
                if st.dst:
                    env[st.dst] = r
                continue
            ins = [get(a) for a in st.args]
            uid = st.uid()
            if op == "ite":
                tb = new("tobool", uid, {}, [ins[0]], path)
                i = new("ite", None, {}, [Ref(tb), ins[1], ins[2]], path)
                if st.dst:
                    env[st.dst] = Ref(i)
                continue
            if op == "icmp":
                # stdlib if_cmp: a three-way reference selection (same instance kind as if_then_else, one more value input)
                tb = new("tocmp", uid, {}, [ins[0]], path)
                i = new("ite", None, {}, [Ref(tb), ins[1], ins[2], ins[3]], path)
                if st.dst:
                    env[st.dst] = Ref(i)
                continue
            i = new(op, uid, dict(st.kw), ins, path)
            if st.dst:
                env[st.dst] = Ref(i)
        return ret

    run_graph("main", [], ())
    for i in insts:
        i.ins = [_resolve(r) for r in i.ins]
        if i.fb_source is not None:
            i.fb_source = _resolve(i.fb_source)
    f = Flat(insts, case)
    f.order = topo(f)
    return f


def topo(flat):
    n = len(flat.insts)
    indeg = [0] * n
    out = [[] for _ in range(n)]
    for i in flat.insts:
        for r in i.ins:
            out[r.target.id].append(i.id)
            indeg[i.id] += 1
    ready = [k for k in range(n) if indeg[k] == 0]
    order = []
    while ready:
        k = ready.pop(0)
        order.append(k)
        for m in out[k]:
            indeg[m] -= 1
            if indeg[m] == 0:
                ready.append(m)
    if len(order) != n:
        raise FlattenError("cycle")
    return order


# ----------------------------------------------------------------------------------------------
# Simulation
# ----------------------------------------------------------------------------------------------
@dataclass
class NodeState:
    val: object = None
    valid: bool = False
    lmt: int = NEVER
    st: object = 0
    pos: int = 0
    base: int = 0
    sched: SchedModel = None
    slot: object = None            # emulated graph slot (stale-wake emulation only)
    evalno: int = 0
    queue: dict = None             # fb: time -> value
    started: bool = False


@dataclass
class ModelRun:
    cycles: list = field(default_factory=list)
    runs: dict = field(default_factory=dict)          # (uid, t) -> (out, [(valid, modified, lmt, val)])
    requests: list = field(default_factory=list)      # (uid, t_made, t_when)
    sched_q: dict = field(default_factory=dict)       # (uid, evalno, k) -> queries tuple   (k = op index, -1 = pre)
    sampled: list = field(default_factory=list)       # (uid, t) runs that exist only through the sampled-start emulation
    stale: list = field(default_factory=list)
    boundary_refs: list = field(default_factory=list)  # (uid of the selector, t): F22 emulation published an empty reference
    stale_armed: list = field(default_factory=list)   # (uid, t, slot): emulated graph slot left armed at a cancelled time         # (uid, t) runs that exist only through the stale-slot emulation
    terminated_by: object = None                      # (uid, phase, occ) when an uncaptured fault ended the run
    writes: dict = field(default_factory=dict)        # inst id -> [(t, val)]
    stats: dict = field(default_factory=dict)
    next_after: dict = field(default_factory=dict)    # cycle time -> earliest pending wake-up afterwards (INF = none)


OPAQUE_OPS = {"csrc", "cmirror", "cprobe", "ccopy", "crecord", "creplay", "map", "switch", "reduce", "gs", "err", "recerr",
              "tryout", "tryerr", "trynode"}
ALL_UNCHECKED_OPS = {"gate", "sched", "allvalid2"}   # ops whose valid_inputs selector is empty


def innermost_nested(path):
    """Index (exclusive end) of the innermost 'nested' call-site in an instance path, or 0."""
    for k in range(len(path), 0, -1):
        if path[k - 1][0] == "nested":
            return k
    return 0


def sampled_start_insts(flat):
    """Known finding F3 emulation: a node of a nested child graph whose validity gate is empty (all inputs
    Unchecked) and that has an active boundary input is scheduled when the child starts, even though the
    boundary source holds no value."""
    out = []
    for i in flat.insts:
        if i.op not in ALL_UNCHECKED_OPS:
            continue
        k = innermost_nested(i.path)
        if k == 0:
            continue
        mine = i.path[:k]
        for r in i.ins:
            if r.passive:
                continue
            tp = r.target.path
            if tp[:k] != mine and r.via[:k] != mine:
                # produced outside this nested graph and not handed over by a nested call inside it (whose output node is
                # the direct producer then): a boundary input
                out.append(i.id)
                break
    return out


def simulate(flat: Flat, emulate_stale=False, emulate_sampled_start=False, preset=None, ref_invalid_notify=True,
             captured=(), inv_notifies=True, sampled_inputs=None, emulate_boundary_ref=False) -> ModelRun:
    """sampled_inputs (known finding F18 emulation): {source uid: original last-modified time} of boundary sources whose first
    script entry at the start time is a SAMPLE of a value they already held. Consumers in the started graph itself see it as a
    tick; consumers inside a nested graph below it are run too but read it as not modified, with its original time.
    captured: uids whose evaluation errors are captured (exception_time_series): a planned eval fault abandons that one
    evaluation (no output, no state change, no new requests), the run continues and pending wake-ups stay pending."""
    case = flat.case
    start, end = case.start, case.end
    insts = flat.insts
    S = [NodeState() for _ in insts]
    R = ModelRun()
    fault_counts = {}

    def fault(uid, phase):
        if uid is None:
            return False
        k = (uid, phase)
        fault_counts[k] = fault_counts.get(k, 0) + 1
        return (uid, phase, fault_counts[k]) in faults

    faults = set((int(u), p, int(o)) for u, p, o in case.faults)

    def sampled_kind(i, r, t):
        """F18 emulation: how reader i sees a boundary source that is only SAMPLED at the start time - 'inner': the reader sits
        in a nested graph below the started graph (it runs, the value reads as not modified); 'via': the reader obtained the
        source as the pass-through result of a nested call (it is not woken at all); None: an ordinary tick."""
        if not sampled_inputs or t != start or r.target.uid not in sampled_inputs:
            return None
        nv = [p for p in r.via if p[0] == "nested"]
        if len(nv) >= 2 and [p for p in i.path if p[0] == "nested"] == nv[:-1]:
            # only a reader living in the graph the pass-through call returns into: a reader further down (the port handed on
            # into another nested call) is scheduled by that call's own start because the value is valid -> 'inner'
            R.stats["nested_sampled_unmodified"] = R.stats.get("nested_sampled_unmodified", 0) + 1
            return "via"
        kn = innermost_nested(i.path)
        if len([p for p in i.path[:kn] if p[0] == "nested"]) >= 2 and r.target.path[:kn] != i.path[:kn]:
            return "inner"
        return None

    def script_at(i, s, k):
        sc = case.scripts.get(i.uid, [])
        t, v = sc[k]
        return (s.base + t if int(i.kw.get("rel", 0)) else t), v

    def request(i, s, now, when, started=True, tag=""):
        R.requests.append((i.uid, now, when))
        ok = s.sched.schedule(when, tag, now, started)
        if ok:
            prev = s.sched.prev_first
            new = s.sched.earliest()
            if prev is None or new < prev:
                # graph.schedule_node(next): slot replaced when consumed/current or earlier
                if s.slot is None or s.slot <= now or new < s.slot:
                    s.slot = new
        return ok

    def run_sched_ops(i, s, now, evalno, started):
        R.sched_q[(i.uid, evalno, -1)] = s.sched.queries(now)
        ops = case.sched.get(i.uid, {}).get(evalno, [])
        for k, tok in enumerate(ops):
            op, arg, tag = parse_sched_op(tok)
            if op == "s":
                request(i, s, now, now + arg, started, tag)
            elif op == "S":
                request(i, s, now, arg, started, tag)
            elif op == "u":
                s.sched.un_schedule(tag or None)
            elif op == "p":
                s.sched.pop_tag(tag)
            elif op == "r":
                s.sched.reset()
            R.sched_q[(i.uid, evalno, k)] = s.sched.queries(now)

    for k, v in (preset or {}).items():
        S[k].val, S[k].valid, S[k].lmt = v, True, start - 1

    # ---- start phase (index order == topological order for start-side effects that matter) ----
    for k in flat.order:
        i, s = insts[k], S[k]
        if i.op in SCHEDULER_OPS:
            s.sched = SchedModel()
        s.started = True
        if i.uid is not None and i.op not in ("const", "fb"):
            if fault(i.uid, "start"):
                R.terminated_by = (i.uid, "start")
                return R
        if i.op == "src":
            s.base = start
            sc = case.scripts.get(i.uid, [])
            pos = 0
            while pos < len(sc) and script_at(i, s, pos)[0] < start:
                pos += 1
            s.pos = pos
            if int(i.kw.get("mode", 0)) == 1:
                for q in range(pos, len(sc)):
                    request(i, s, start, script_at(i, s, q)[0], started=False)
            elif pos < len(sc):
                request(i, s, start, script_at(i, s, pos)[0], started=False)
        elif i.op in ("ticker", "beacon"):
            s.st = 0
            if int(i.kw.get("count", 1)) > 0:
                request(i, s, start, start, started=False)
        elif i.op == "sched":
            s.evalno = 0
            run_sched_ops(i, s, start, 0, started=False)
            if emulate_stale and s.slot is not None and all(ev[0] != s.slot for ev in s.sched.events):
                R.stale_armed.append((i.uid, start, s.slot))     # cancelled again within the start hook
        elif i.op == "const":
            s.queue = {start: int(i.kw.get("v", 0))}
        elif i.op == "fb":
            s.queue = {}
            if "init" in i.kw:
                s.queue[start] = int(i.kw["init"])

    forced = {}
    if emulate_sampled_start:
        for k in sampled_start_insts(flat):
            forced[k] = {start}
    for pk in (preset or {}):
        # a value that is already there when a nested graph starts is sampled by the nested graph's consumers of it
        for i in insts:
            kn = innermost_nested(i.path)
            if kn and any(r.target.id == pk and not r.passive and r.target.path[:kn] != i.path[:kn] for r in i.ins):
                forced.setdefault(i.id, set()).add(start)
            if i.op == "fb" and i.fb_source is not None and i.fb_source.target.id == pk and kn \
                    and i.fb_source.target.path[:kn] != i.path[:kn]:
                S[i.id].queue[start + 1] = preset[pk]      # the capturing side of a feedback is such a consumer too

    def wake_time(k):
        i, s = insts[k], S[k]
        if forced.get(k):
            w0 = min(forced[k])
            base = wake_time0(k)
            return w0 if base is None else min(w0, base)
        return wake_time0(k)

    def wake_time0(k):
        i, s = insts[k], S[k]
        if i.op in ("const", "fb"):
            return min(s.queue) if s.queue else None
        if s.sched is None:
            return None
        if emulate_stale:
            return s.slot if (s.slot is not None) else None
        return s.sched.earliest()

    t_prev = None
    guard = 0
    while True:
        guard += 1
        if guard > 100000:
            raise RuntimeError("model: runaway")
        cands = []
        for k in range(len(insts)):
            w = wake_time(k)
            if w is None or w < start:
                continue
            if t_prev is None or w > t_prev:
                cands.append(w)
        if not cands:
            break
        t = min(cands)
        if t >= end:
            break
        R.cycles.append(t)
        ticked = set()
        notified = set()      # sources that lost their value this cycle: consumers are woken, nothing reads as modified
        for k in flat.order:
            i, s = insts[k], S[k]
            if i.op == "ite":
                # Reference selection: reading through the reference == reading the currently selected target.
                # s.st = desired input index from the condition (0 none), s.pos = effective input index,
                # s.base = identity (inst id) of the finally resolved non-reference target (-1 none).
                c = S[i.ins[0].target.id]
                sels = tuple(range(1, len(i.ins)))            # (1, 2) for if_then_else, (1, 2, 3) for if_cmp
                if i.ins[0].target.id in ticked:
                    s.st = (1 if c.val != 0 else 2) if len(i.ins) == 3 else (1 if c.val < 0 else 2 if c.val == 0 else 3)
                eff = s.pos
                if s.st in sels:
                    cand = i.ins[s.st].target
                    # a selected input that is itself a reference with nothing published yet leaves the output reference as is
                    if not (cand.op == "ite" and S[cand.id].pos == 0):
                        eff = s.st
                    elif emulate_boundary_ref and s.pos != 0:
                        # known finding F22 emulation: the unset reference reaches this selection through a nested-graph
                        # boundary (its producer lives outside the graph of the selecting node): inside the child it reads
                        # as a VALID, EMPTY reference, which is published - the readers are unbound for good
                        kn = innermost_nested(i.path)
                        if kn and cand.path[:kn] != i.path[:kn]:
                            if s.pos != s.st:
                                R.boundary_refs.append((i.ins[0].target.uid, t))
                            eff = s.st
                prev_final = s.base if s.pos else -1
                # the wanted input is an unset reference: the published reference VALUE stays what it was (it is not re-resolved
                # through the previously selected input, whose own retargets no longer reach this output)
                frozen = s.st in sels and eff != s.st and s.pos != 0
                s.pos = eff
                final = -1
                if frozen:
                    final = prev_final
                elif eff in sels:
                    cur = i.ins[eff].target
                    hops = 0
                    while cur.op == "ite" and S[cur.id].pos >= 1 and hops < 50:
                        cur = cur.ins[S[cur.id].pos].target
                        hops += 1
                    final = cur.id if cur.op != "ite" else -1
                s.base = final
                if final < 0:
                    s.valid = False
                if final >= 0:
                    retarget = final != prev_final
                    s.val, s.valid = S[final].val, S[final].valid
                    # a retarget AWAY from a valid target to one that holds no value: whether the readers are woken is not
                    # pinned down by the property (True: always, False: never, "old_ticked": only when the old target ticks in
                    # that very cycle - the readers are then told by the old target before they are re-bound)
                    inv_wake = prev_final >= 0 and S[prev_final].valid and (
                        ref_invalid_notify is True or (ref_invalid_notify == "old_ticked" and prev_final in ticked))
                    if (retarget and (S[final].valid or inv_wake)) or (final in ticked):
                        s.lmt = t
                        ticked.add(k)
                        R.stats["ref_retargets" if retarget else "ref_target_ticks"] = R.stats.get("ref_retargets" if retarget else "ref_target_ticks", 0) + 1
                    if retarget and not S[final].valid:
                        R.stats["ref_retarget_to_invalid"] = R.stats.get("ref_retarget_to_invalid", 0) + 1
                    if i.ins[0].target.id in ticked and not retarget:
                        R.stats["ref_republished_same"] = R.stats.get("ref_republished_same", 0) + 1
                    for q in sels:
                        o = i.ins[q].target.id
                        if o in ticked and o != final and q != eff:
                            R.stats["ref_unselected_ticks"] = R.stats.get("ref_unselected_ticks", 0) + 1
                continue
            if i.op in OPAQUE_OPS:
                continue          # operators the core model does not interpret (modelled by their own monitors)
            if i.op == "const" or i.op == "fb":
                if s.queue and t in s.queue:
                    v = s.queue.pop(t)
                    s.val, s.valid, s.lmt = v, True, t
                    ticked.add(k)
                    R.writes.setdefault(k, []).append((t, v))
                continue
            pending_due = s.sched is not None and s.sched.earliest() == t
            slot_due = emulate_stale and s.sched is not None and s.slot == t
            forced_due = t in forced.get(k, ())
            if forced_due:
                forced[k].discard(t)
            due = pending_due or slot_due or forced_due
            act_exc = ACTIVE_EXCEPT.get(i.op, set())
            active_tick = False
            for q, r in enumerate(i.ins):
                if r.passive or q in act_exc:
                    continue
                if (r.target.id in ticked or r.target.id in notified) and sampled_kind(i, r, t) != "via":
                    active_tick = True
            if active_tick and i.op in ("list2", "allvalid2") and any(sampled_kind(i, r, t) == "via" for r in i.ins):
                # F18 emulation, list-shaped inputs: with one element arriving through a nested pass-through the whole input is
                # not woken in the start cycle of the dynamic child, not even by the ticks of other elements that are nodes of
                # the child - but an element that IS a boundary input of the started child schedules its consumers through the
                # child's start (sampled initialisation), whatever the notifications do
                # (an element that is a feedback delivering its INITIAL value in that cycle wakes it as well: thorough tier, seed 0,
                # c12_0_2718)
                if not any(r.target.uid in sampled_inputs and r.target.id in ticked and sampled_kind(i, r, t) is None for r in i.ins) and \
                        not any(r.target.op == "fb" and r.target.id in ticked for r in i.ins):
                    active_tick = False
            if not (due or active_tick):
                if any(r.target.id in ticked for r in i.ins):
                    R.stats["passive_only_ticks"] = R.stats.get("passive_only_ticks", 0) + 1
                continue
            if emulate_stale and s.sched is not None:
                s.slot = t          # consumed / current
            # readiness gate
            unchecked = UNCHECKED.get(i.op, set())
            ready = True
            if i.op == "allvalid2":
                ready = all(S[r.target.id].valid for r in i.ins)
            elif i.op == "list2":
                ready = any(S[r.target.id].valid for r in i.ins)
            elif i.op == "pairall":
                # trigger + passive bundle {a, b} behind an all-valid gate; wired with one field only, b never holds a value
                ready = len(i.ins) == 3 and all(S[r.target.id].valid for r in i.ins)
            elif i.op == "pairany":
                ready = S[i.ins[0].target.id].valid and any(S[r.target.id].valid for r in i.ins[1:])
            else:
                for q, r in enumerate(i.ins):
                    if q in unchecked:
                        continue
                    if not S[r.target.id].valid:
                        ready = False
            ins_snap = [(1 if S[r.target.id].valid else 0, 1 if r.target.id in ticked else 0, S[r.target.id].lmt,
                         S[r.target.id].val if S[r.target.id].valid else None) for r in i.ins]
            for q, r in enumerate(i.ins):
                if sampled_kind(i, r, t) and ins_snap[q][1] and sampled_inputs[r.target.uid] is not None:
                    ins_snap[q] = (ins_snap[q][0], 0, sampled_inputs[r.target.uid], ins_snap[q][3])
                    R.stats["nested_sampled_unmodified"] = R.stats.get("nested_sampled_unmodified", 0) + 1
            out = None
            ran = False
            if forced_due and not pending_due and not active_tick:
                R.sampled.append((i.uid, t))
            if not ready:
                R.stats["gate_closed"] = R.stats.get("gate_closed", 0) + 1
            if due and active_tick:
                R.stats["timer_and_input"] = R.stats.get("timer_and_input", 0) + 1
            if ready:
                ran = True
                thrown = fault(i.uid, "eval")
                if thrown and i.uid not in captured:
                    R.terminated_by = (i.uid, "eval", t)
                    R.runs[(i.uid, t)] = ("THROW", ins_snap)
                    return R
                vals = [x[3] for x in ins_snap]
                op = i.op
                if thrown:
                    R.runs[(i.uid, t)] = ("THROW", ins_snap)
                    R.stats["captured_throws"] = R.stats.get("captured_throws", 0) + 1
                    if s.sched is not None and s.sched.events and not pending_due:
                        R.stats["captured_throw_with_pending_timer"] = R.stats.get("captured_throw_with_pending_timer", 0) + 1
                    op = "THROWN"
                if op == "THROWN":
                    pass
                elif op == "src":
                    sc = case.scripts.get(i.uid, [])
                    if s.pos < len(sc) and script_at(i, s, s.pos)[0] == t:
                        out = script_at(i, s, s.pos)[1]
                        if out == "INV":
                            # the source silently loses its value (an element input whose dictionary entry went away)
                            out, s.val, s.valid = None, None, False
                            if inv_notifies:
                                notified.add(k)
                        s.pos += 1
                        if int(i.kw.get("mode", 0)) == 0 and s.pos < len(sc):
                            request(i, s, t, script_at(i, s, s.pos)[0])
                elif op in ("ticker", "beacon"):       # (a beacon has no output: the logged beat number stands in for it)
                    out = s.st
                    s.st += 1
                    if s.st < int(i.kw.get("count", 1)):
                        request(i, s, t, t + int(i.kw.get("period", 1)))
                elif op in ("pass", "pairall", "pairany"):
                    out = vals[0]
                elif op == "tobool":
                    out = 1 if vals[0] != 0 else 0
                elif op == "tocmp":
                    out = vals[0] % 3 - 1
                elif op == "thrower":
                    out = vals[0] + 1
                elif op == "add2" or op == "allvalid2":
                    out = 3 * vals[0] + 5 * vals[1] + 1
                elif op == "add3":
                    out = 3 * vals[0] + 5 * vals[1] + 7 * vals[2] + 2
                elif op == "acc":
                    s.st += vals[0]
                    out = s.st
                elif op == "count":
                    s.st += 1
                    out = s.st
                elif op == "sample":
                    out = vals[1] * 2 + vals[0]
                elif op == "sample3":
                    out = vals[0] + 2 * vals[1] + 3 * vals[2]
                elif op == "gate" or op == "list2":
                    out = (vals[0] if vals[0] is not None else -1) * 3 + (vals[1] if vals[1] is not None else -1) * 5
                elif op == "halfgate":
                    out = vals[0] * 3 + (vals[1] if vals[1] is not None else -1) * 5
                elif op == "delay":
                    if pending_due:
                        out = s.st
                    if ins_snap[0][1]:
                        s.st = vals[0]
                        request(i, s, t, t + int(i.kw.get("k", 1)))
                elif op == "sched":
                    s.evalno += 1
                    run_sched_ops(i, s, t, s.evalno, True)
                    out = s.evalno
                elif op == "rec":
                    out = None
                else:
                    raise RuntimeError("model: op " + op)
                if out is not None and op not in ("src", "ticker", "beacon", "pass", "pairall", "pairany", "count", "delay", "sched", "tobool", "tocmp"):
                    out %= WRAP
                if op == "acc":
                    s.st = out
                if not thrown:
                    R.runs[(i.uid, t)] = (out, ins_snap[:1] if op in ("pairall", "pairany") else ins_snap)   # (the harness logs the trigger only)
                if slot_due and not pending_due and not active_tick:
                    R.stale.append((i.uid, t))

                if out is not None:
                    s.val, s.valid, s.lmt = out, True, t
                    ticked.add(k)
                    R.writes.setdefault(k, []).append((t, out))
            # scheduler bookkeeping after the evaluation (node.cpp): consume due events, re-arm
            if s.sched is not None:
                if pending_due:
                    s.sched.consume(t)
                e = s.sched.earliest()
                if emulate_stale:
                    if pending_due:
                        if e is not None and (s.slot is None or s.slot <= t or e < s.slot):
                            s.slot = e
                    elif e is not None:
                        if s.slot is None or s.slot <= t or e < s.slot:
                            s.slot = e
                    if s.slot is not None and s.slot > t and all(ev[0] != s.slot for ev in s.sched.events):
                        R.stale_armed.append((i.uid, t, s.slot))
        # feedback capture: producer ticked at t -> delivery at t+1
        for k, i in enumerate(insts):
            if i.op == "fb" and i.fb_source is not None and i.fb_source.target.id in ticked:
                if sampled_kind(i, i.fb_source, t) == "via":
                    continue        # F18 emulation: the capturing side is a reader like any other - not woken at the start
                S[k].queue[t + 1] = S[i.fb_source.target.id].val
        later = [w for w in (wake_time(k) for k in range(len(insts))) if w is not None and w > t]
        R.next_after[t] = min(later) if later else INF
        t_prev = t
    return R
