"""C11 - reduce equals the fold over exactly the currently valid elements (passive every-cycle probe of the result)."""
from __future__ import annotations
import functools
from .runner import Result, Violation, scaled
from .gen_coll import gen_cscript, parse_dumps, write_log
from .collmodel import Node, SHAPES
from .prog import Case, S

PROPERTY = "C11"
LEVEL = "exploration"
HARNESS = "hgdrive"
SANITIZE = "asan"      # thorough tier: same batch under -fsanitize=address,undefined
RULE = ("random key/element histories (adds, removes, updates, several per cycle, shrink to empty and regrow, growth to 130 "
        "keys across capacity boundaries) over TSD<Int,TS<Int>> and fixed TSL<TS<Int>,3>; combiners sum / max / xor as node, "
        "as registered operator (add_) and as sub-graph; marker combiner a+b+1000 restricted to <= 2 live elements to pin the "
        "zero rules; with and without zero. A passive probe samples the result every cycle. Oracle: invalid for empty without "
        "zero; zero for empty with zero; f(v, zero) for a singleton with zero; fold of the live elements otherwise (zero never "
        "involved). Non-trivial: the live count visits 0, 1 and >= 2; distinct by case text")
ASSUMPTIONS = ["element values and liveness are derived from the scripted source's write log (vp/collmodel.py)",
               "combiners sum/max/xor are associative and commutative, so the expected value is order-free",
               "g++-12 -O1 build of the working tree with harness-side shims"]
FLOORS = {"refmap_silent_repoints": {"quick": 60, "thorough": 1000}, "refmap_silent_repoints_of_a_single_element": {"quick": 10, "thorough": 150}, "cycles_checked": {"quick": 5000, "thorough": 80000}, "empty_states": {"quick": 200, "thorough": 3000},
          "singleton_states": {"quick": 300, "thorough": 5000}, "multi_states": {"quick": 1500, "thorough": 25000},
          "capacity_growth_cases": {"quick": 5, "thorough": 80}, "more_than_64_live_cases": {"quick": 8, "thorough": 150}, "keyed_vanishing_inner_keys": {"quick": 100, "thorough": 1500},
          "keyed_growth_with_vanishing_key": {"quick": 10, "thorough": 150}}
BATCH = 20
M_WRAP = 1000003

FOLDS = {"sum": lambda a, b: a + b, "add": lambda a, b: a + b, "max": max, "xor": lambda a, b: a ^ b,
         "mark": lambda a, b: a + b + 1000, "fn2:0": lambda a, b: a + b, "fn2:1": max}


def gen_case11(rng, name, k):
    start, end = 0, rng.choice([20, 35, 50])
    c = Case(name, start, end)
    shape = rng.choice(["tsd", "tsd", "tsd", "tsl"])
    fn = rng.choice(["sum", "max", "xor", "add", "mark", "fn2:0", "fn2:1"])
    big = (k % 8 == 7) and fn != "mark"
    if big:
        shape = "tsd"
    zero = rng.choice([None, None, 0, 7, -3])
    c.meta.update(shape=shape, fn=fn, zero=zero, big=big)
    c.scripts[9] = [(t, t) for t in range(start, end)]
    # values must not overflow / stay distinguishable
    sc = gen_cscript(rng, shape, start, end, big=big)
    if big and rng.random() < 0.7:
        # a ramp to 65..140 simultaneously live keys (the reduction tree crosses the 64- and 128-leaf capacity boundaries) early
        # in the run, followed by the random history (adds, updates and removals on a large tree)
        n = rng.choice([66, 70, 97, 129, 140])
        keys = list(range(n))
        rng.shuffle(keys)
        ramp, per = {}, rng.choice([n, 40, 25])
        for j, key in enumerate(keys):
            ramp.setdefault(start + j // per, []).append(f"[{key}]={rng.randint(1, 99)}")
        last = max(ramp)
        tail = [e for e in sc if int(e.split("|")[0]) > last and not e.split("|")[1].startswith("c")]
        sc = [f"{t}|" + ",".join(ops) for t, ops in sorted(ramp.items())] + tail
    if fn == "mark":
        # at most two live elements: restrict the key universe to {0, 1}
        sc2 = []
        for e in sc:
            t, ops = e.split("|")
            ops = [o for o in ops.split(",") if o == "c" or ("[0]" in o or "[1]" in o)]
            if ops:
                sc2.append(f"{t}|" + ",".join(ops))
        sc = sc2
    c.cscripts[1] = sc
    kw = {"fn": fn}
    if zero is not None:
        kw["zero"] = zero
    c.graphs["main"] = [S("clk", "src", uid=9, mode=1), S("d", "csrc", shape=shape, uid=1), S("r", "reduce", "d", **kw),
                        S("", "cprobe", "r", "clk", uid=20), S("", "rec", "r", uid=21)]
    c.graphs["fn0"] = [S("s", "sum2", "p0", "p1"), S("", "RET", "s")]
    c.graphs["fn1"] = [S("s", "max2", "p0", "p1"), S("", "RET", "s")]
    return c


def gen_keyed_case(rng, name):
    """A reduction whose VALUE is a dictionary: elements are dictionaries merged key-wise (sum). Inner keys vanish from the fold when
    the only element carrying them goes away or drops them - also in cycles that grow the tree over a capacity boundary."""
    start, end = 0, rng.choice([20, 35])
    c = Case(name, start, end)
    c.scripts[9] = [(t, t) for t in range(start, end)]
    live, sc, nxt = {}, [], 0
    for t in range(start, end):
        if rng.random() < 0.35:
            continue
        ops = []
        for _ in range(rng.choice([1, 1, 2, 3])):
            r = rng.random()
            if r < 0.45 or not live:
                k = nxt if rng.random() < 0.7 else rng.choice(sorted(live) or [nxt])
                nxt += 1 if k == nxt else 0
                ik = rng.randrange(6)
                ops.append(f"[{k}][{ik}]={rng.randint(1, 50)}")
                live.setdefault(k, set()).add(ik)
            elif r < 0.7:
                k = rng.choice(sorted(live))
                ops.append(f"x[{k}]")
                live.pop(k)
            elif r < 0.9:
                k = rng.choice(sorted(live))
                if live[k]:
                    ik = rng.choice(sorted(live[k]))
                    ops.append(f"[{k}]x[{ik}]")
                    live[k].discard(ik)
            else:
                k = rng.choice(sorted(live))
                ops.append(f"[{k}][{rng.randrange(6)}]={rng.randint(1, 50)}")
        # a key erased and written again in one cycle is not generated
        seen, good = set(), []
        for op in ops:
            k = op[2:op.index("]")] if op.startswith("x[") else op[1:op.index("]")]
            if (op.startswith("x[") and k in seen) or (not op.startswith("x[") and ("x", k) in seen):
                continue
            seen.add(("x", k) if op.startswith("x[") else k)
            good.append(op)
        if good:
            sc.append(f"{t}|" + ",".join(good))
    c.cscripts[1] = sc
    c.graphs["main"] = [S("clk", "src", uid=9, mode=1), S("d", "csrc", shape="dd", uid=1), S("r", "reduce", "d", fn="mergedd"),
                        S("", "cprobe", "r", "clk", uid=20)]
    c.meta.update(keyed=1, shape="dd", fn="mergedd", zero=None, big=False)
    return c


def check_keyed(case, tr):
    res = Result(signature=case.text().split("\n", 1)[1])
    run = tr.runs[0]
    if tr.build_error or run.error:
        res.violations.append(Violation(f"build/run failed: {tr.build_error or run.error}"))
        return res
    probe = {t: d for t, d, _ in parse_dumps(run).get(20, [])}
    wl = dict(write_log(run).get(1, []))
    node = Node(SHAPES["dd"])
    C = {"keyed_cycles_checked": 0, "keyed_vanishing_inner_keys": 0, "keyed_growth_with_vanishing_key": 0}
    prev_fold, prev_n = {}, 0
    for t in range(case.start, case.end):
        for op in wl.get(t, []):
            node.apply(op, t)
        fold = {}
        n = 0
        for ek, e in node.children.items():
            inner = {ik: c.val for ik, c in e.children.items() if c.val is not None}
            n += 1
            for ik, v in inner.items():
                fold[ik] = (fold.get(ik, 0) + v) % M_WRAP
        vanished = set(prev_fold) - set(fold)
        if vanished:
            C["keyed_vanishing_inner_keys"] += 1
            if n > prev_n:
                C["keyed_growth_with_vanishing_key"] += 1
        d = probe.get(t)
        if d is None:
            res.violations.append(Violation(f"probe not woken at t={t}"))
            continue
        C["keyed_cycles_checked"] += 1
        got = {int(k): int(c["val"]) for k, c in d.get("items", {}).items() if c["v"]} if d["v"] else {}
        if got != fold and len(res.violations) < 5:
            res.violations.append(Violation(f"t={t}: dictionary-valued reduction over {n} live elements reads {dict(sorted(got.items()))}, the "
                                            f"key-wise fold of the live elements is {dict(sorted(fold.items()))}"))
        prev_fold, prev_n = fold, n
    res.counters = C
    res.nontrivial = C["keyed_vanishing_inner_keys"] >= 1
    return res


def gen_live_zero_case(rng, name):
    """reduce(f, tsd, zero) whose zero is a LIVE time-series: it ticks, and it is re-pointed (a selection between two sources) while
    the collection is empty, holds one element, holds several. Oracle: the documented zero rules with the zero's current value."""
    start, end = 0, rng.choice([24, 36])
    c = Case(name, start, end)
    fn = rng.choice(["sum", "add", "fn2:0"])
    c.scripts[9] = [(t, t) for t in range(start, end)]
    for u in (31, 32):
        c.scripts[u] = [(0, u * 100)] + [(t, u * 100 + t) for t in sorted(rng.sample(range(1, end), rng.choice([2, 4, 7])))]
    val = rng.choice([0, 1])
    cs = [(0, val)]
    for t in sorted(rng.sample(range(2, end), rng.choice([3, 5, 8]))):
        val = 1 - val
        cs.append((t, val))
    c.scripts[33] = cs
    # the collection spends long stretches empty and with a single element
    sc, live = [], set()
    for t in sorted(rng.sample(range(1, end), rng.choice([5, 8, 12]))):
        r = rng.random()
        if live and r < 0.45:
            k = rng.choice(sorted(live))
            live.discard(k)
            sc.append(f"{t}|x[{k}]")
        elif r < 0.8 or not live:
            k = rng.randrange(3)
            live.add(k)
            sc.append(f"{t}|[{k}]={rng.randint(1, 40)}")
        else:
            sc.append(f"{t}|c")
            live.clear()
    c.cscripts[1] = sc
    c.graphs["main"] = [S("clk", "src", uid=9, mode=1), S("z1", "src", uid=31, mode=1), S("z2", "src", uid=32, mode=1), S("zc", "src", uid=33, mode=1),
                        S("zr", "ite", "zc", "z1", "z2", uid=34), S("d", "csrc", shape="tsd", uid=1), S("r", "reduce", "d", fn=fn, zts="zr"),
                        S("", "cprobe", "r", "clk", uid=20), S("", "rec", "r", uid=21)]
    c.graphs["fn0"] = [S("s", "sum2", "p0", "p1"), S("", "RET", "s")]
    c.meta.update(live_zero=1, shape="tsd", fn=fn, zero=None, big=False)
    return c


def check_live_zero(case, tr):
    res = Result(signature=case.text().split("\n", 1)[1])
    run = tr.runs[0]
    if tr.build_error or run.error:
        res.violations.append(Violation(f"build/run failed: {tr.build_error or run.error}"))
        return res
    probe = {t: d for t, d, _ in parse_dumps(run).get(20, [])}
    wl = dict(write_log(run).get(1, []))
    node = Node(SHAPES["tsd"])
    z = {31: None, 32: None}
    zs = {u: dict(case.scripts[u]) for u in (31, 32)}
    cond = dict(case.scripts[33])
    sel = None
    C = {"live_zero_cycles_checked": 0, "live_zero_repoints_while_empty": 0, "live_zero_repoints_with_one_element": 0, "live_zero_ticks_while_empty": 0}
    for t in range(case.start, case.end):
        for op in wl.get(t, []):
            node.apply(op, t)
        for u in (31, 32):
            if t in zs[u]:
                z[u] = zs[u][t]
        repoint = False
        if t in cond:
            new = 31 if cond[t] != 0 else 32
            repoint, sel = (sel is not None and new != sel), new
        vals = [c.val for c in node.children.values() if c.val is not None]
        zero = z[sel] if sel is not None else None
        if t == case.start or zero is None:
            continue
        if repoint and not vals:
            C["live_zero_repoints_while_empty"] += 1
        if repoint and len(vals) == 1:
            C["live_zero_repoints_with_one_element"] += 1
        if not vals and not repoint and t in zs[sel]:
            C["live_zero_ticks_while_empty"] += 1
        exp = zero if not vals else (vals[0] + zero if len(vals) == 1 else sum(vals))
        d = probe.get(t)
        if d is None:
            res.violations.append(Violation(f"probe not woken at t={t}"))
            continue
        C["live_zero_cycles_checked"] += 1
        got = int(d["val"]) if d["v"] else None
        if got != exp and len(res.violations) < 5:
            res.violations.append(Violation(f"t={t}: reduce with a live zero (currently {zero}{', re-pointed in this cycle' if repoint else ''}) over live values "
                                            f"{sorted(vals)} reads {'invalid' if got is None else got}, expected {exp}"))
    res.counters = C
    res.nontrivial = C["live_zero_repoints_while_empty"] >= 1
    return res


def gen_refmap_case(rng, name):
    """The reduced dictionary is the output of a map_ whose function returns a REFERENCE (a selection between the element and a
    value derived from it, switched by a broadcast flag): an element re-points to a source that is valid but does not tick in
    that cycle. Oracle: at every sampled cycle the result is the fold over what the elements currently read."""
    from .prog import Case
    end = rng.choice([24, 36])
    c = Case(name, 0, end)
    c.scripts[9] = [(t, t) for t in range(0, end)]
    fn = rng.choice(["sum", "fn2:1", "add"])
    v = rng.choice([0, 1])
    cs = [(0, v)]
    for t in sorted(rng.sample(range(1, end), rng.choice([3, 6, 9]))):
        v = 1 - v
        cs.append((t, v))
    c.scripts[5] = cs
    sc, live = [], set()
    nk = rng.choice([1, 2, 3, 5])
    for t in sorted(rng.sample(range(0, end), rng.choice([5, 8, 12]))):
        r = rng.random()
        if live and r < 0.2:
            k = rng.choice(sorted(live))
            live.discard(k)
            sc.append(f"{t}|x[{k}]")
        else:
            k = rng.randrange(nk)
            live.add(k)
            sc.append(f"{t}|[{k}]={rng.randint(1, 40)}")
    c.cscripts[1] = sc
    c.graphs["fn0"] = [S("x", "add2", "p0", "p0", uid=100), S("r", "ite", "p1", "x", "p0", uid=101), S("", "RET", "r")]
    c.graphs["fn1"] = [S("s", "sum2", "p0", "p1"), S("", "RET", "s")]
    zero = rng.choice([None, None, 7])
    red = S("r", "reduce", "m", fn=fn) if zero is None else S("r", "reduce", "m", fn=fn, zero=zero)
    c.graphs["main"] = [S("clk", "src", uid=9, mode=1), S("b", "src", uid=5, mode=1), S("d", "csrc", shape="tsd", uid=1),
                        S("m", "map", "d", "b", fn="fn2:0"), red, S("", "cprobe", "r", "clk", uid=20), S("", "rec", "r", uid=21)]
    c.meta.update(refmap=1, shape="tsd", fn=fn, zero=zero, big=False)
    return c


def check_refmap(case, tr):
    res = Result(signature=case.text().split("\n", 1)[1])
    run = tr.runs[0]
    if tr.build_error or run.error:
        res.violations.append(Violation(f"build/run failed: {tr.build_error or run.error}"))
        return res
    probe = {t: d for t, d, _ in parse_dumps(run).get(20, [])}
    wl = dict(write_log(run).get(1, []))
    node = Node(SHAPES["tsd"])
    flag = dict(case.scripts[5])
    zero = case.meta["zero"]
    b = None
    C = {"refmap_cycles_checked": 0, "refmap_silent_repoints": 0, "refmap_silent_repoints_of_a_single_element": 0}
    for t in range(case.start, case.end):
        for op in wl.get(t, []):
            node.apply(op, t)
        flipped = t in flag and b is not None and flag[t] != b
        if t in flag:
            b = flag[t]
        vals = [c.val for c in node.children.values() if c.val is not None]
        if flipped and vals and t not in wl:
            C["refmap_silent_repoints"] += 1
            if len(vals) == 1:
                C["refmap_silent_repoints_of_a_single_element"] += 1
        reads = [(8 * v + 1) if b else v for v in vals]
        if not reads:
            exp = zero
        elif len(reads) == 1:
            exp = reads[0] + zero if zero is not None else reads[0]
        else:
            exp = sum(reads)
        d = probe.get(t)
        if d is None or t == case.start:
            continue
        C["refmap_cycles_checked"] += 1
        got = int(d["val"]) if d["v"] else None
        if got != exp and len(res.violations) < 5:
            res.violations.append(Violation(f"t={t}: reduce over map_ elements that are references (flag {b}{', flipped in this cycle' if flipped else ''}; "
                                            f"elements currently read {sorted(reads)}) reads {'invalid' if got is None else got}, expected "
                                            f"{'invalid' if exp is None else exp}"))
    res.counters = C
    res.nontrivial = C["refmap_silent_repoints"] >= 1
    return res


def contiguous_history(rng, start, end, max_n=7, tail_shrink=False):
    """Key histories over the contiguous key range 0..n-1 (what an ordered reduction accepts): grow at the top, shrink from the top,
    update in place; sizes revisit earlier maxima and shrink right after a new maximum."""
    sc, n = [], 0
    ts = sorted(rng.sample(range(start + 1, end - 1), min(end - start - 2, rng.choice([5, 8, 12]))))
    for t in ts:
        ops = []
        r = rng.random()
        if n == 0 or (r < 0.4 and n < max_n):
            for _ in range(rng.choice([1, 1, 2, 3])):
                if n < max_n:
                    ops.append(f"[{n}]={rng.randint(1, 60)}")
                    n += 1
        elif r < 0.7:
            for _ in range(rng.choice([1, 1, 2])):
                if n > 0:
                    n -= 1
                    ops.append(f"x[{n}]")
        else:
            for k in rng.sample(range(n), rng.choice([1, min(2, n)])):
                ops.append(f"[{k}]={rng.randint(1, 60)}")
        if ops:
            sc.append(f"{t}|" + ",".join(ops))
    if tail_shrink and ts:
        # the last activity: a new maximum immediately followed by a shrink, nothing afterwards
        t = ts[-1] + 1
        grow = [f"[{n + j}]={rng.randint(1, 60)}" for j in range(rng.choice([1, 2]))]
        sc.append(f"{t}|" + ",".join(grow))
        n += len(grow)
        if t + 1 < end:
            sc.append(f"{t + 1}|x[{n - 1}]")
    return sc


def ORD(a, b):
    x = a * 3 + b
    return x % M_WRAP if x >= 0 else -((-x) % M_WRAP)      # C++ remainder truncates towards zero


def gen_ordered_case(rng, name):
    """reduce(f, tsd, zero, is_associative=False): a left fold in key order over the contiguous keys 0..n-1 starting from the
    zero - a separate implementation (a chain of combiner graphs rebuilt whenever the key count changes)."""
    start, end = 0, rng.choice([16, 24, 36])
    c = Case(name, start, end)
    fn = rng.choice(["ord", "fn2:2", "sum"])
    zero = rng.choice([0, 7, -3, 100])
    c.scripts[9] = [(t, t) for t in range(start, end)]
    c.cscripts[1] = contiguous_history(rng, start, end, tail_shrink=rng.random() < 0.4)
    c.graphs["main"] = [S("clk", "src", uid=9, mode=1), S("d", "csrc", shape="tsd", uid=1), S("r", "reduce", "d", fn=fn, zero=zero, assoc=0),
                        S("", "cprobe", "r", "clk", uid=20), S("", "rec", "r", uid=21)]
    c.graphs["fn2"] = [S("s", "ord2", "p0", "p1"), S("", "RET", "s")]
    c.meta.update(ordered=1, shape="tsd", fn=fn, zero=zero, big=False)
    return c


def check_ordered(case, tr):
    res = Result(signature=case.text().split("\n", 1)[1])
    run = tr.runs[0]
    if tr.build_error or run.error:
        res.violations.append(Violation(f"build/run failed: {tr.build_error or run.error}"))
        return res
    probe = {t: d for t, d, _ in parse_dumps(run).get(20, [])}
    wl = dict(write_log(run).get(1, []))
    node = Node(SHAPES["tsd"])
    f = (lambda a, b: (a + b)) if case.meta["fn"] == "sum" else ORD
    C = {"ordered_cycles_checked": 0, "ordered_shrinks_after_new_maximum": 0, "ordered_folds_of_3_or_more": 0}
    peak, prev_n = 0, 0
    for t in range(case.start, case.end):
        for op in wl.get(t, []):
            node.apply(op, t)
        keys = sorted(node.children)
        vals = [node.children[k].val for k in keys if node.children[k].val is not None]
        n = len(keys)
        if n < prev_n and prev_n == peak and C.get("_peak_t") == t - 1:
            C["ordered_shrinks_after_new_maximum"] += 1
        if n > peak:
            peak = n
            C["_peak_t"] = t
        prev_n = n
        d = probe.get(t)
        if d is None:
            res.violations.append(Violation(f"probe not woken at t={t}"))
            continue
        if t == case.start:
            continue            # the zero constant arrives in the first cycle
        exp = functools.reduce(f, vals, case.meta["zero"])
        C["ordered_cycles_checked"] += 1
        if len(vals) >= 3:
            C["ordered_folds_of_3_or_more"] += 1
        got = int(d["val"]) if d["v"] else None
        if got != exp and len(res.violations) < 5:
            res.violations.append(Violation(f"t={t}: ordered reduce({case.meta['fn']}, zero={case.meta['zero']}) over values {vals} (key order) reads "
                                            f"{'invalid' if got is None else got}, the left fold from the zero is {exp}"))
    C.pop("_peak_t", None)
    res.counters = C
    res.nontrivial = C["ordered_folds_of_3_or_more"] >= 1
    return res


def generate(rng, tier, seed):
    n = scaled(250 if tier == "quick" else 4000)
    return [gen_case11(rng, f"c11_{seed}_{k}", k) for k in range(n)] + [gen_keyed_case(rng, f"c11_{seed}_kd{k}") for k in range(n // 4)] + \
        [gen_ordered_case(rng, f"c11_{seed}_or{k}") for k in range(n // 4)] + \
        [gen_live_zero_case(rng, f"c11_{seed}_lz{k}") for k in range(n // 5)] + \
        [gen_refmap_case(rng, f"c11_{seed}_rm{k}") for k in range(n // 5)]


def expected(values, fn, zero):
    f = FOLDS[fn]
    if not values:
        return zero            # None = invalid
    if len(values) == 1:
        return values[0] if zero is None else f(values[0], zero)
    return functools.reduce(f, values)


def check(case, tr):
    res = Result(signature=case.text().split("\n", 1)[1])
    if tr.build_error:
        res.violations.append(Violation(f"valid program rejected at build: {tr.build_error}"))
        return res
    if case.meta.get("keyed"):
        return check_keyed(case, tr)
    if case.meta.get("ordered"):
        return check_ordered(case, tr)
    if case.meta.get("refmap"):
        return check_refmap(case, tr)
    if case.meta.get("live_zero"):
        return check_live_zero(case, tr)
    run = tr.runs[0]
    if run.error:
        res.violations.append(Violation(f"run failed: {run.error[:300]}"))
        return res
    probe = {t: d for t, d, _ in parse_dumps(run).get(20, [])}
    wl = dict(write_log(run).get(1, []))
    node = Node(SHAPES[case.meta["shape"]])
    fn, zero = case.meta["fn"], case.meta["zero"]
    C = {"cycles_checked": 0, "empty_states": 0, "singleton_states": 0, "multi_states": 0}
    maxlive = 0
    for t in range(case.start, case.end):
        if t in wl:
            for op in wl[t]:
                node.apply(op, t)
        if node.kind == "tsd":
            vals = [c.val for c in node.children.values() if c.val is not None]
        else:
            vals = [c.val for c in node.children if c.val is not None]
        maxlive = max(maxlive, len(vals))
        exp = expected(vals, fn, zero)
        d = probe.get(t)
        if d is None:
            res.violations.append(Violation(f"probe not woken at t={t}"))
            continue
        C["cycles_checked"] += 1
        C["empty_states" if not vals else "singleton_states" if len(vals) == 1 else "multi_states"] += 1
        got = int(d["val"]) if d["v"] else None
        if got != exp and len(res.violations) < 5:
            res.violations.append(Violation(
                f"t={t}: reduce({fn}, zero={zero}) over live values {sorted(vals)[:12]}{'...' if len(vals) > 12 else ''} reads "
                f"{'invalid' if got is None else got}, expected {'invalid' if exp is None else exp}"))
    C["capacity_growth_cases"] = 1 if maxlive >= 17 else 0     # crossed the 8- and 16-leaf capacity boundaries
    C["more_than_64_live_cases"] = 1 if maxlive > 64 else 0
    res.counters = C
    res.nontrivial = C["empty_states"] > 0 and C["singleton_states"] > 0 and C["multi_states"] > 0
    return res
