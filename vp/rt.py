"""Shared runner/parser for the real-time harness (hgrt): one scenario per process invocation batch, generous wall-clock
watchdog whose firing alone is never a verdict."""
from __future__ import annotations
import concurrent.futures as cf
import os, shutil, subprocess, time
from dataclasses import dataclass, field
from .runner import SCRATCH


@dataclass
class Scenario:
    name: str
    kv: dict

    def text(self):
        return f"name={self.name} " + " ".join(f"{k}={v}" for k, v in self.kv.items())


@dataclass
class ScTrace:
    name: str
    hooks: list = field(default_factory=list)        # (tid, phase, ts)
    sends: list = field(default_factory=list)        # (tid, op, id, call, ret, ok)
    deliveries: list = field(default_factory=list)   # (evaltime_us, wall_us, steady_ts, pending, [ids])
    timers: list = field(default_factory=list)       # (label, evaltime_us, wall_us, steady_ts, kind)
    requests: list = field(default_factory=list)     # (label, made_us, when_us, kind)
    stop: tuple | None = None                        # (call, ret)
    run: tuple | None = None                         # (start, returned, status, start_epoch_us, [wall_end_us])
    errors: list = field(default_factory=list)
    complete: bool = False
    lifecycle: list = field(default_factory=list)    # ("start"|"stop", node index) in the order observed (push scenario)
    cdeltas: list = field(default_factory=list)      # (tid, id, op, key, value)  conflating-dictionary scenario
    dvalues: list = field(default_factory=list)      # (evaltime_us, steady_ts, {key: value})


def parse(path):
    out, cur = {}, None
    if not os.path.exists(path):
        return out
    with open(path, errors="replace") as f:
        for line in f:
            tk = line.split()
            if not tk:
                continue
            k = tk[0]
            if k == "SC":
                cur = ScTrace(tk[1])
                out[cur.name] = cur
            elif cur is None:
                continue
            elif k == "ENDSC":
                cur.complete = True
                cur = None
            elif k == "H":
                cur.hooks.append((int(tk[1]), tk[2], int(tk[3])))
            elif k == "P":
                cur.sends.append((int(tk[1]), tk[2], int(tk[3]), int(tk[4]), int(tk[5]), int(tk[6])))
            elif k == "D":
                n = int(tk[5])
                src = int(tk[6 + n][1:]) if len(tk) > 6 + n and tk[6 + n].startswith("s") else 0
                cur.deliveries.append((int(tk[1]), int(tk[2]), int(tk[3]), int(tk[4]), [int(x) for x in tk[6:6 + n]], src))
            elif k == "T":
                cur.timers.append((tk[1], int(tk[2]), int(tk[3]), int(tk[4]), tk[5]))
            elif k == "R":
                cur.requests.append((tk[1], int(tk[2]), int(tk[3]), tk[4], int(tk[5]) if len(tk) > 5 else None))
            elif k == "LS":
                cur.lifecycle.append((tk[1], int(tk[2])))
            elif k == "STOP":
                cur.stop = (int(tk[1]), int(tk[2]))
            elif k == "RUN":
                cur.run = (int(tk[1]), int(tk[2]), tk[3], int(tk[4])) + ((int(tk[5]),) if len(tk) > 5 else ())
            elif k == "X":
                cur.errors.append(" ".join(tk[1:]))
            elif k == "CD":
                cur.cdeltas.append((int(tk[1]), int(tk[2]), tk[3], int(tk[4]), int(tk[5])))
            elif k == "DV":
                n = int(tk[3])
                cur.dvalues.append((int(tk[1]), int(tk[2]), {int(x.split("=")[0]): int(x.split("=")[1]) for x in tk[4:4 + n]}))
    return out


def _run_one(exe, sc, d, timeout, env):
    ip, tp = os.path.join(d, sc.name + ".sc"), os.path.join(d, sc.name + ".trace")
    with open(ip, "w") as f:
        f.write(sc.text() + "\n")
    t0 = time.time()
    try:
        r = subprocess.run([exe, ip, tp], capture_output=True, text=True, timeout=timeout, env={**os.environ, **(env or {})})
        rc, err = r.returncode, r.stderr[-3000:]
    except subprocess.TimeoutExpired:
        rc, err = "timeout", ""
    tr = parse(tp).get(sc.name)
    if tr is not None:
        try:
            with open(tp, errors="replace") as f:
                tr.raw = f.read(400000)      # kept with a violating scenario's replay file: real-time runs do not repeat exactly
        except OSError:
            tr.raw = ""
    return sc, tr, rc, err, time.time() - t0


def run_scenarios(exe, scenarios, tag, workers=8, timeout=40, env=None):
    d = os.path.join(SCRATCH, tag)
    shutil.rmtree(d, ignore_errors=True)
    os.makedirs(d, exist_ok=True)
    out = []
    with cf.ThreadPoolExecutor(workers) as ex:
        for res in ex.map(lambda s: _run_one(exe, s, d, timeout, env), scenarios):
            out.append(res)
    shutil.rmtree(d, ignore_errors=True)
    return out


def tsan_pass(scenarios, tag, workers=6):
    """Second oracle on the same kind of workload: the tree and harness compiled with -fsanitize=thread. Timing is distorted
    under the sanitizer, so the functional verdicts of these runs are ignored; only ThreadSanitizer reports that involve a
    frame of the code base count. Returns (runs, reports[{'kind','frames','text'}], lock_order_reports)."""
    import glob, re
    from .runner import ensure_build
    exe = ensure_build("hgrt", "tsan")
    d = os.path.join(SCRATCH, tag + ".tsanlog")
    shutil.rmtree(d, ignore_errors=True)
    os.makedirs(d, exist_ok=True)
    res = run_scenarios(exe, scenarios, tag + ".tsan", workers=workers, timeout=240,
                        env={"TSAN_OPTIONS": f"halt_on_error=0 report_signal_unsafe=0 log_path={d}/t"})
    seen, reports, lock_order = set(), [], 0
    for fn in glob.glob(os.path.join(d, "t.*")):
        for b in open(fn, errors="replace").read().split("=================="):
            if "WARNING: ThreadSanitizer" not in b:
                continue
            head = b.strip().splitlines()[0]
            frames = [re.sub(r"\(hgrt\+0x[0-9a-f]+\)", "", l.strip()) for l in b.splitlines()
                      if re.match(r"\s+#\d+ ", l) and ("/repo/" in l or "hgraph::" in l)]
            if not frames:
                continue
            if "lock-order-inversion" in head:
                lock_order += 1
                continue
            key = (head.split("(pid")[0], tuple(f.split(" ", 1)[-1][:120] for f in frames[:2]))
            if key in seen:
                continue
            seen.add(key)
            reports.append({"kind": head.split("(pid")[0].strip(), "frames": frames[:8], "text": b.strip()[:1500]})
    shutil.rmtree(d, ignore_errors=True)
    completed = sum(1 for r in res if r[1] is not None and r[1].complete)
    return completed, reports, lock_order
