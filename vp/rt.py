"""Shared runner/parser for the real-time harness (hgrt): one scenario per process invocation batch, generous wall-clock
watchdog whose firing alone is never a verdict."""
from __future__ import annotations
import concurrent.futures as cf
import os, shutil, subprocess, time
from dataclasses import dataclass, field
from .runner import SCRATCH


@dataclass
class Scenario:
    name: str
    kv: dict

    def text(self):
        return f"name={self.name} " + " ".join(f"{k}={v}" for k, v in self.kv.items())


@dataclass
class ScTrace:
    name: str
    hooks: list = field(default_factory=list)        # (tid, phase, ts)
    sends: list = field(default_factory=list)        # (tid, op, id, call, ret, ok)
    deliveries: list = field(default_factory=list)   # (evaltime_us, wall_us, steady_ts, pending, [ids])
    timers: list = field(default_factory=list)       # (label, evaltime_us, wall_us, steady_ts, kind)
    requests: list = field(default_factory=list)     # (label, made_us, when_us, kind)
    stop: tuple | None = None                        # (call, ret)
    run: tuple | None = None                         # (start, returned, status, start_epoch_us, [wall_end_us])
    errors: list = field(default_factory=list)
    complete: bool = False


def parse(path):
    out, cur = {}, None
    if not os.path.exists(path):
        return out
    with open(path, errors="replace") as f:
        for line in f:
            tk = line.split()
            if not tk:
                continue
            k = tk[0]
            if k == "SC":
                cur = ScTrace(tk[1])
                out[cur.name] = cur
            elif cur is None:
                continue
            elif k == "ENDSC":
                cur.complete = True
                cur = None
            elif k == "H":
                cur.hooks.append((int(tk[1]), tk[2], int(tk[3])))
            elif k == "P":
                cur.sends.append((int(tk[1]), tk[2], int(tk[3]), int(tk[4]), int(tk[5]), int(tk[6])))
            elif k == "D":
                n = int(tk[5])
                cur.deliveries.append((int(tk[1]), int(tk[2]), int(tk[3]), int(tk[4]), [int(x) for x in tk[6:6 + n]]))
            elif k == "T":
                cur.timers.append((tk[1], int(tk[2]), int(tk[3]), int(tk[4]), tk[5]))
            elif k == "R":
                cur.requests.append((tk[1], int(tk[2]), int(tk[3]), tk[4]))
            elif k == "STOP":
                cur.stop = (int(tk[1]), int(tk[2]))
            elif k == "RUN":
                cur.run = (int(tk[1]), int(tk[2]), tk[3], int(tk[4])) + ((int(tk[5]),) if len(tk) > 5 else ())
            elif k == "X":
                cur.errors.append(" ".join(tk[1:]))
    return out


def _run_one(exe, sc, d, timeout, env):
    ip, tp = os.path.join(d, sc.name + ".sc"), os.path.join(d, sc.name + ".trace")
    with open(ip, "w") as f:
        f.write(sc.text() + "\n")
    t0 = time.time()
    try:
        r = subprocess.run([exe, ip, tp], capture_output=True, text=True, timeout=timeout, env={**os.environ, **(env or {})})
        rc, err = r.returncode, r.stderr[-3000:]
    except subprocess.TimeoutExpired:
        rc, err = "timeout", ""
    tr = parse(tp).get(sc.name)
    return sc, tr, rc, err, time.time() - t0


def run_scenarios(exe, scenarios, tag, workers=8, timeout=40, env=None):
    d = os.path.join(SCRATCH, tag)
    shutil.rmtree(d, ignore_errors=True)
    os.makedirs(d, exist_ok=True)
    out = []
    with cf.ThreadPoolExecutor(workers) as ex:
        for res in ex.map(lambda s: _run_one(exe, s, d, timeout, env), scenarios):
            out.append(res)
    shutil.rmtree(d, ignore_errors=True)
    return out
