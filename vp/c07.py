"""C07 - simulation runs are reproducible and isolated: byte-identical traces across process histories, builder reuse,
wall-clock speed and concurrently running executors (+ ThreadSanitizer on the concurrent batch in the thorough tier)."""
from __future__ import annotations
import json, os, random, re, shutil, subprocess, time
from .runner import Inconclusive, ensure_build, SCRATCH, REPLAYS, write_evidence, case_to_json, sig_hash, scaled
from .gen_core import gen_case
from .gen_coll import gen_coll_case
from .prog import S

PROPERTY = "C07"
LEVEL = "exploration"
RULE = ("each generated case (dataflow programs with state, timers, feedback, nested graphs, GlobalState reader/writer nodes; "
        "collection sources with mirrors; keyed maps, switches and reductions with dynamic children; record->replay through "
        "GlobalState buffers) is executed in 6 contexts: alone in a fresh process (reference); at a "
        "random position of a shuffled sequence of all cases in one process; three runs from one reused GraphExecutorBuilder; "
        "with busy-waits injected into user code; concurrently with the other cases on 8 threads (graphs wired sequentially, "
        "executors run in parallel); concurrently again in a different shuffle. Oracle: the complete trace of the case "
        "(lifecycle events, user-code logs incl. GlobalState reads, endpoint dumps) is byte-identical in every context and "
        "across the reused-builder runs. Thorough tier repeats the concurrent batches under -fsanitize=thread: any report "
        "with an hgraph frame is a violation. Non-trivial: trace with >= 50 events; distinct by case text")
ASSUMPTIONS = ["traces contain no addresses: graph instances are numbered per run in start order",
               "building (wiring and GraphExecutorBuilder::make_executor, which compiles graph types into process-wide registries) is "
               "serialised by the harness in the threaded contexts, as the GIL does for Python callers; only run() and the release "
               "of executors overlap (concurrent building is not claimed by the code base: GraphRuntimeRegistry is unsynchronised)",
               "g++-12 -O1 (and -fsanitize=thread for the thorough tier) build of the working tree with harness-side shims"]
FLOORS = {"context_comparisons": {"quick": 500, "thorough": 4500}, "reused_builder_runs": {"quick": 100, "thorough": 1200},
          "concurrent_case_runs": {"quick": 150, "thorough": 2000}, "global_state_reads": {"quick": 350, "thorough": 3000}, "captured_error_values": {"quick": 15, "thorough": 120},
          "polymorphic_values_compared": {"quick": 60, "thorough": 400},
          "recordings_repeated_over_carried_state": {"quick": 10, "thorough": 60},
          "rebuilds_under_one_selected_context": {"quick": 6, "thorough": 40}}


def gen_cases(rng, n, seed):
    cases = []
    from .c10 import gen_case10
    from .c12 import gen_case12
    from .c11 import gen_case11
    from .c20 import gen_case20
    for k in range(n):
        r = k % 10
        if r == 9:
            # a polymorphic bundle family registered lazily (after whatever was wired before in this process) carried
            # through TS<abstract base>
            from .prog import Case
            c = Case(f"c07_{seed}_{k}", 0, 10)
            c.scripts[1] = [(t, rng.randint(1, 99)) for t in range(rng.choice([3, 6, 10]))]
            c.opts["poly"] = 1
            c.graphs["main"] = []
            c.meta["staged"] = 1            # (no reused-builder variant: eval_node builds its own executor)
        elif r == 8:
            # captured errors with differing levels of requested detail on the same node definitions
            from .c15 import gen_pair
            pr = None
            while pr is None:
                pr = gen_pair(rng, f"c07_{seed}_{k}")
            c = pr[1]
            c.name = f"c07_{seed}_{k}"
        elif r == 3:
            c = gen_coll_case(rng, f"c07_{seed}_{k}", probes=False, copies=1)
        elif r == 4:
            c = gen_case10(rng, f"c07_{seed}_{k}", k)          # keyed map: dynamic children
        elif r == 5:
            c = gen_case12(rng, f"c07_{seed}_{k}", k)          # switch: dynamic children
        elif r == 6:
            c = gen_case11(rng, f"c07_{seed}_{k}", k)          # reduce: combiner trees
        elif r == 7 and k % 20 == 17:
            # the SAME recording program run twice over a carried GlobalState (the second run starts from what the first one left
            # under its key): both layouts of the harness recorder must leave the same buffer after either run
            from .gen_coll import gen_cscript
            from .prog import Case
            sh = rng.choice(["ts", "tss", "tsd", "tsl", "tsb"])
            c = Case(f"c07_{seed}_{k}", 0, rng.choice([12, 20]))
            c.cscripts[1] = gen_cscript(rng, sh, 0, c.end)
            body = [S("d", "csrc", shape=sh, uid=1), S("", "crecord", "d", key="ra", sparse=1), S("", "crecord", "d", key="rb")]
            c.graphs["main"] = body
            c.graphs["main2"] = [S(st.dst, st.op, *st.args, **st.kw) for st in body]
            c.graphs["main3"] = [S(st.dst, st.op, *st.args, **st.kw) for st in body]
            c.opts["gsdump"] = "ra,rb"
            c.meta["staged"] = 1
            c.meta["rerecord"] = 1
        elif r == 7:
            c = gen_case20(rng, f"c07_{seed}_{k}")             # record -> replay through GlobalState buffers (staged runs)
            c.meta["staged"] = 1
        else:
            r = r % 3
            c = gen_case(rng, f"c07_{seed}_{k}", n_nodes=rng.choice([4, 8, 14]), allow_sched=(r == 1))
            # GlobalState readers/writers on a couple of ports
            main = c.graphs["main"]
            ports = [st.dst for st in main if st.dst and st.op in ("pass", "add2", "acc", "src", "ticker", "count", "sample")]
            uid = 1 + max([s.uid() or 0 for g in c.graphs.values() for s in g] + [0])
            for j in range(min(len(ports), rng.choice([1, 2, 3]))):
                main.append(S(f"g{j}", "gs", rng.choice(ports), uid=uid))
                main.append(S("", "rec", f"g{j}", uid=uid + 1))
                uid += 2
            if k % 3 == 0:
                # this case selects a GlobalContext on ITS thread for its whole wiring and run (and keeps it selected for a while):
                # the state it selected must stay invisible to the cases running on the other threads
                c.opts["gctx"] = rng.randint(1000, 9000)
                c.opts["busy"] = rng.choice([20000, 100000])
                c.meta["selects_context"] = 1
        c.opts["light"] = 0
        cases.append(c)
    return cases


def split_trace(path):
    """case name -> raw text of its section (without the CASE line)."""
    out, cur, name = {}, [], None
    with open(path, errors="replace") as f:
        for line in f:
            if line.startswith("CASE "):
                name = line.split()[1]
                cur = []
                continue
            if line.startswith("ENDCASE "):
                out[name] = "".join(cur)
                name = None
                continue
            if name is not None:
                cur.append(line)
    return out


def run_file(exe, cases, tag, threads=0, timeout=900, env=None):
    d = os.path.join(SCRATCH, tag)
    os.makedirs(d, exist_ok=True)
    cp, tp = os.path.join(d, "in.case"), os.path.join(d, "out.trace")
    with open(cp, "w") as f:
        for c in cases:
            f.write(c.text())
    args = [exe, cp, tp] + ([str(threads)] if threads else [])
    r = subprocess.run(args, capture_output=True, text=True, timeout=timeout, env={**os.environ, **(env or {})})
    if r.returncode != 0:
        return None, r.stderr[-3000:], r.returncode
    res = split_trace(tp)
    shutil.rmtree(d, ignore_errors=True)
    return res, r.stderr, 0


def runs_of(text):
    """split a case section into its RUN blocks (for the reused-builder context)."""
    parts = re.split(r"^RUN \d+\n", text, flags=re.M)
    head, blocks = parts[0], parts[1:]
    norm = [re.sub(r"^(RUN\.returned|RUN\.released) \d+", r"\1", b, flags=re.M) for b in blocks]
    return head, norm


def main(tier, seed, replay):
    t0 = time.time()
    try:
        exe = ensure_build("hgdrive")
    except Inconclusive as e:
        print(f"INCONCLUSIVE property={PROPERTY} reason={e}")
        return 2
    rng = random.Random(f"C07/{seed}/{tier}")
    n = scaled(240 if tier == "quick" else 1200)
    cases = gen_cases(rng, n, seed)
    tag = f"C07.{tier}.{seed}"
    V, inconc = [], []
    counters = {"context_comparisons": 0, "reused_builder_runs": 0, "concurrent_case_runs": 0, "global_state_reads": 0,
                "trace_bytes_compared": 0}
    # reference: each case alone in a fresh process (batches of 1, run 12 at a time)
    import concurrent.futures as cf
    ref = {}
    with cf.ThreadPoolExecutor(12) as ex:
        futs = {ex.submit(run_file, exe, [c], f"{tag}.ref{k}"): c for k, c in enumerate(cases)}
        for fu, c in futs.items():
            res, err, rc = fu.result()
            if res is None or c.name not in res:
                inconc.append(f"reference run of {c.name} failed rc={rc}: {err[-200:]}")
            else:
                ref[c.name] = res[c.name]
    by_name = {c.name: c for c in cases}
    counters["global_state_reads"] = sum(t.count("\nu.gs ") for t in ref.values())
    counters["captured_error_values"] = sum(t.count("\nu.err ") for t in ref.values())
    counters["polymorphic_values_compared"] = sum(t.count("\nPOLY ") for t in ref.values())
    counters["cases_selecting_a_global_context"] = sum(1 for c in cases if c.meta.get("selects_context"))

    for c in cases:
        if c.meta.get("rerecord") and c.name in ref:
            gs = {}
            for m in re.finditer(r"^GS (\d+) (\S+) (\S+)$", ref[c.name], flags=re.M):
                gs[(int(m.group(1)), m.group(2))] = m.group(3)
            for key in ("ra", "rb"):
                vals = [gs.get((st, key)) for st in (0, 1, 2)]
                if vals[0] is None:
                    continue
                counters["recordings_repeated_over_carried_state"] = counters.get("recordings_repeated_over_carried_state", 0) + 1
                if not (vals[0] == vals[1] == vals[2]):
                    V.append((c.name, f"the same recording program run three times over a carried GlobalState leaves different buffers under "
                                      f"'{key}' ({'sparse' if key == 'ra' else 'cycle-aligned'} layout): sizes {[len(v or '') for v in vals]}, e.g. "
                                      f"{(vals[0] or '')[:80]} | {(vals[1] or '')[:80]}"))

    def compare(ctx, got, names=None):
        for name in (names or ref):
            if name not in ref:
                continue
            if got is None or name not in got:
                V.append((name, f"context '{ctx}': no trace for the case"))
                continue
            counters["context_comparisons"] += 1
            counters["trace_bytes_compared"] += len(ref[name])
            if got[name] != ref[name]:
                a, b = ref[name].splitlines(), got[name].splitlines()
                k = next((i for i, (x, y) in enumerate(zip(a, b)) if x != y), min(len(a), len(b)))
                V.append((name, f"context '{ctx}': trace differs from the fresh-process run at event {k}: "
                                f"{(b[k] if k < len(b) else '<end>')[:160]!r} vs {(a[k] if k < len(a) else '<end>')[:160]!r}"))

    # one process, shuffled sequence
    order = list(cases)
    rng.shuffle(order)
    got, err, rc = run_file(exe, order, f"{tag}.seq")
    if got is None:
        inconc.append(f"sequential context failed rc={rc}: {err[-300:]}")
    else:
        compare("position in a shuffled sequence of other cases (one process)", got)
    # busy waits in user code (wall-clock speed)
    slow = []
    for c in cases[: max(8, n // 3)]:
        c2 = c.clone()
        c2.opts["busy"] = rng.choice([2000, 20000, 100000])
        slow.append(c2)
    got, err, rc = run_file(exe, slow, f"{tag}.busy")
    if got is None:
        inconc.append(f"busy context failed rc={rc}")
    else:
        compare("busy-waits injected into user code", got, [c.name for c in slow])
    # reused builder: three executors from one GraphExecutorBuilder
    rep = []
    for c in [c for c in cases[: max(8, n // 2)] if not c.meta.get("staged")]:
        c2 = c.clone()
        c2.opts["repeat"] = 3
        rep.append(c2)
    got, err, rc = run_file(exe, rep, f"{tag}.rep")
    if got is None:
        inconc.append(f"reuse context failed rc={rc}")
    else:
        for c in rep:
            if c.name not in got or c.name not in ref:
                continue
            head, blocks = runs_of(got[c.name])
            rhead, rblocks = runs_of(ref[c.name])
            counters["reused_builder_runs"] += len(blocks)
            for i, b in enumerate(blocks):
                counters["context_comparisons"] += 1
                if not rblocks or b != rblocks[0]:
                    a, bb = (rblocks[0] if rblocks else "").splitlines(), b.splitlines()
                    k = next((j for j, (x, y) in enumerate(zip(a, bb)) if x != y), min(len(a), len(bb)))
                    V.append((c.name, f"run #{i} from a reused GraphExecutorBuilder differs from a fresh run at event {k}: "
                                      f"{(bb[k] if k < len(bb) else '<end>')[:160]!r} vs {(a[k] if k < len(a) else '<end>')[:160]!r}"))
                    break
    # the same graph built and run TWICE under one selected GlobalContext: the user's state object stays theirs - the second build
    # sees it exactly as the first one did, and it still holds what the user put in
    reb = []
    for c in [c for c in cases if c.meta.get("selects_context") and not c.meta.get("staged")][: max(6, n // 8)]:
        c2 = c.clone()
        c2.opts["rebuild"] = 2
        reb.append(c2)
    got, err, rc = run_file(exe, reb, f"{tag}.reb") if reb else ({}, "", 0)
    if got is None:
        inconc.append(f"rebuild context failed rc={rc}")
    else:
        upto = lambda b: b.split("RUN.released", 1)[0]
        for c in reb:
            if c.name not in got or c.name not in ref:
                continue
            head, blocks = runs_of(got[c.name])
            rhead, rblocks = runs_of(ref[c.name])
            counters["rebuilds_under_one_selected_context"] = counters.get("rebuilds_under_one_selected_context", 0) + 1
            kept = re.findall(r"^GCTX\.kept (\d+) (\S+)", got[c.name], flags=re.M)
            if len(blocks) != 2 or not rblocks:
                V.append((c.name, f"built twice under one selected GlobalContext: {len(blocks)} run(s) instead of 2: "
                                  f"{[l for l in got[c.name].splitlines() if l.startswith('X.')][:2]}"))
                continue
            for i, b in enumerate(blocks):
                counters["context_comparisons"] += 1
                if upto(b) != upto(rblocks[0]):
                    a, bb = upto(rblocks[0]).splitlines(), upto(b).splitlines()
                    k = next((j for j, (x, y) in enumerate(zip(a, bb)) if x != y), min(len(a), len(bb)))
                    V.append((c.name, f"build #{i} under one selected GlobalContext runs differently from a fresh process at event {k}: "
                                      f"{(bb[k] if k < len(bb) else '<end>')[:160]!r} vs {(a[k] if k < len(a) else '<end>')[:160]!r}"))
                    break
            if [v for _, v in kept] != [str(c.opts["gctx"])] * 2:
                V.append((c.name, f"the state object selected through the GlobalContext held verif.k0={c.opts['gctx']} when it was handed in; "
                                  f"after build + run #0 / #1 it reads {[v for _, v in kept]}"))
    # concurrent executors
    for rnd in range(2):
        order = list(cases)
        rng.shuffle(order)
        got, err, rc = run_file(exe, order, f"{tag}.mt{rnd}", threads=8)
        if got is None:
            V.append((order[0].name, f"concurrent context crashed rc={rc}: {err[-300:]}"))
        else:
            counters["concurrent_case_runs"] += len(got)
            compare(f"8 executors running concurrently on threads (round {rnd})", got)
    tsan_reports = 0
    if tier == "thorough" or os.environ.get("VERIF_TSAN") == "1":
        try:
            texe = ensure_build("hgdrive", "tsan")
            for rnd in range(3):
                order = list(cases)
                rng.shuffle(order)
                logp = os.path.join(SCRATCH, f"{tag}.tsan{rnd}.log")
                got, err, rc = run_file(texe, order, f"{tag}.tsanmt{rnd}", threads=8, timeout=3600,
                                        env={"TSAN_OPTIONS": f"halt_on_error=0 report_signal_unsafe=0 log_path={logp}"})
                reports = []
                for fn in [f for f in os.listdir(SCRATCH) if f.startswith(os.path.basename(logp))]:
                    txt = open(os.path.join(SCRATCH, fn), errors="replace").read()
                    reports += [b for b in txt.split("==================") if "WARNING: ThreadSanitizer" in b]
                    os.unlink(os.path.join(SCRATCH, fn))
                seen = set()
                for b in reports:
                    if "lock-order-inversion" in b:
                        # potential deadlock between two type-system registry mutexes: both acquisition orders occur during
                        # wiring / executor construction, which this harness serialises (concurrent building is not claimed)
                        counters["tsan_lock_order_reports_in_building"] = counters.get("tsan_lock_order_reports_in_building", 0) + 1
                        continue
                    frames = re.findall(r"#\d+ (\S*hgraph\S*)", b)
                    if not frames:
                        continue
                    key = tuple(frames[:2])
                    if key in seen:
                        continue
                    seen.add(key)
                    tsan_reports += 1
                    V.append((order[0].name, f"ThreadSanitizer report while independent executors ran concurrently: {b.strip()[:600]}"))
                counters["tsan_concurrent_case_runs"] = counters.get("tsan_concurrent_case_runs", 0) + (len(got) if got else 0)
        except Inconclusive as e:
            inconc.append(str(e))
    wall = time.time() - t0
    nontriv = {sig_hash(by_name[nm].text()) for nm, t in ref.items() if t.count("\n") >= 50}
    coverage = {"evaluations": counters["context_comparisons"], "distinct_nontrivial": len(nontriv), "rule": RULE,
                "samples": [{"case": cases[0].name, "text": cases[0].text()[:1200], "trace_events": ref.get(cases[0].name, "").count("\n")}],
                "monitor_counters": counters, "cases": len(cases), "tsan_reports_with_hgraph_frames": tsan_reports,
                "inconclusive_notes": inconc[:5]}
    write_evidence(PROPERTY, tier, seed, LEVEL, coverage, ASSUMPTIONS, wall, len(V))
    if V:
        os.makedirs(os.path.join(REPLAYS, PROPERTY), exist_ok=True)
        for name, msg in V[:5]:
            path = os.path.join(REPLAYS, PROPERTY, f"{name}.json")
            json.dump({"property": PROPERTY, "case": case_to_json(by_name[name]), "case_text": by_name[name].text(), "violation": {"what": msg}},
                      open(path, "w"), indent=1)
            print(f"VIOLATION property={PROPERTY} replay={path}")
            print(f"  {msg}")
        print(f"{PROPERTY}: {len(V)} violation(s) ({wall:.1f}s)")
        return 1
    low = [k for k, fl in FLOORS.items() if counters.get(k, 0) < fl[tier]]
    if inconc or low:
        print(f"INCONCLUSIVE property={PROPERTY} " + "; ".join(inconc[:3] + [f"counter {k}={counters.get(k, 0)} below floor" for k in low]))
        return 2
    print(f"{PROPERTY}: held on {counters['context_comparisons']} context comparisons of {len(cases)} cases ({wall:.1f}s) counters={json.dumps(counters)}")
    return 0
