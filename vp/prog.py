"""Program / case representation shared by generators, the model and the monitors.

A case is data: a set of graph programs (main, sub<N>, fn<K>), scripts for sources, scheduler
op lists, a fault plan, a run window and options. `Case.text()` is the exact input of hgdrive.
"""
from __future__ import annotations
from dataclasses import dataclass, field


@dataclass
class Stmt:
    dst: str
    op: str
    args: list = field(default_factory=list)
    kw: dict = field(default_factory=dict)

    def text(self) -> str:
        parts = []
        if self.dst:
            parts += [self.dst, "="]
        parts.append(self.op)
        parts += [str(a) for a in self.args]
        parts += [f"{k}={v}" for k, v in self.kw.items()]
        return " ".join(parts)

    def uid(self):
        return int(self.kw["uid"]) if "uid" in self.kw else None


def S(dst, op, *args, **kw) -> Stmt:
    return Stmt(dst, op, list(args), dict(kw))


@dataclass
class Case:
    name: str
    start: int = 0
    end: int = 60
    opts: dict = field(default_factory=dict)
    scripts: dict = field(default_factory=dict)     # uid -> [(t, v)]
    cscripts: dict = field(default_factory=dict)    # uid -> ["t|ops", ...]
    sched: dict = field(default_factory=dict)       # uid -> {evalno: ["s5@a", "u", ...]}
    faults: list = field(default_factory=list)      # (uid, phase, occ)
    graphs: dict = field(default_factory=dict)      # name -> [Stmt]
    meta: dict = field(default_factory=dict)        # generator notes (not serialised)

    def text(self) -> str:
        out = [f"CASE {self.name}", f"WINDOW {self.start} {self.end}"]
        if self.opts:
            out.append("OPT " + " ".join(f"{k}={v}" for k, v in self.opts.items()))
        for uid, sc in self.scripts.items():
            out.append(f"SCRIPT {uid} " + " ".join(f"{t}:{v}" for t, v in sc))
        for uid, sc in self.cscripts.items():
            out.append(f"CSCRIPT {uid} " + " ".join(sc))
        for uid, by_eval in self.sched.items():
            for evalno, ops in by_eval.items():
                if ops:
                    out.append(f"SCHED {uid} {evalno} " + ";".join(ops))
        for uid, phase, occ in self.faults:
            out.append(f"FAULT {uid} {phase} {occ}")
        for gname, stmts in self.graphs.items():
            out.append(f"GRAPH {gname}")
            out += [s.text() for s in stmts]
            out.append("END")
        out.append("RUN")
        return "\n".join(out) + "\n"

    def clone(self, name=None) -> "Case":
        import copy
        c = copy.deepcopy(self)
        if name:
            c.name = name
        return c
