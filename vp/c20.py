"""C20 - recording a time-series and replaying it reproduces the same ticks (record -> replay -> record -> replay chain,
plus in-graph capture_delta/apply_delta round trips)."""
from __future__ import annotations
import json
from .runner import Result, Violation, scaled
from .gen_coll import gen_cscript, parse_dumps
from .collmodel import SHAPES
from .prog import Case, S

PROPERTY = "C20"
LEVEL = "exploration"
HARNESS = "hgdrive"
SANITIZE = "asan"      # thorough tier: same batch under -fsanitize=address,undefined
RULE = ("for each shape in {TS, TSS, TSD<Int,TS>, TSD<Int,TSS>, TSD<Str,TSB>, TSD<Int,TSD>, TSL<TS,3>, TSL<TSB,2>, TSB{TS,TSS}, "
        "TSW} and a random mutation history (gaps, removals, child-only ticks, cancelling mutations, invalidation-free): stage 1 "
        "source -> mirror + record R1 and two chained capture_delta/apply_delta copies each with a mirror; stage 2 replay(R1) -> "
        "mirror + record R2; stage 3 replay(R2) -> mirror + record R3 (GlobalState carried between stages by the harness). "
        "Oracle: every mirror sees the same ticks in the same cycles with identical value, added/removed/modified parts and "
        "canonical delta; R2 == R3 and R1 == R2 entry by entry. Non-trivial: >= 4 source ticks; distinct by case text")
ASSUMPTIONS = ["the harness copies the whole GlobalState of stage k into the builder of stage k+1 (GlobalStateView::copy_from)",
               "buffers are compared through ValueView::to_string()", "g++-12 -O1 build of the working tree with harness-side shims"]
FLOORS = {"recovery_folds_compared": {"quick": 600, "thorough": 9000}, "replayed_ticks_compared": {"quick": 3000, "thorough": 50000}, "copy_ticks_compared": {"quick": 3000, "thorough": 50000},
          "buffers_compared": {"quick": 200, "thorough": 3500}, "long_dense_recordings": {"quick": 15, "thorough": 250}}
BATCH = 20
MECH_EMPTY = "replay-drops-empty-structural-delta-tick"


def dense_then_gap(rng, sh, end):
    """Long recordings: a tick on EVERY cycle for 64..130 cycles, then the first skipped cycle(s), then more ticks (the dense
    recorder sizes its per-cycle validity information at the first gap, whatever the length recorded so far)."""
    from .collmodel import Node
    from .gen_coll import gen_op
    node, out = Node(SHAPES[sh]), []
    gap_at = rng.choice([64, 65, 66, 70, 100, 128, 129])
    gap_len = rng.choice([1, 1, 2, 5])
    for t in range(0, end):
        if gap_at <= t < gap_at + gap_len:
            continue
        if t > gap_at + gap_len and rng.random() < 0.3:
            continue
        ops = []
        for _ in range(rng.choice([1, 1, 2])):
            op = gen_op(rng, node, True, 6, False)
            if op:
                node.apply(op, t)
                ops.append(op)
            if sh == "tsw":
                break
        if ops:
            out.append(f"{t}|" + ",".join(ops))
    return out


def gen_case20(rng, name):
    start = 0 if rng.random() < 0.93 else rng.choice([2, 3, 5])
    end = start + rng.choice([15, 30, 45])
    long_run = start == 0 and rng.random() < 0.12
    if long_run:
        end = rng.choice([90, 140])
    c = Case(name, start, end)
    sh = rng.choice(list(SHAPES))
    c.meta["shape"] = sh
    c.cscripts[1] = dense_then_gap(rng, sh, end) if long_run else gen_cscript(rng, sh, start, end)
    c.meta["long_run"] = 1 if long_run else 0
    c.opts["gsdump"] = "r1,r2,r3"
    c.graphs["main"] = [S("d", "csrc", shape=sh, uid=1), S("", "cmirror", "d", uid=10), S("", "crecord", "d", key="r1"),
                        S("c1", "ccopy", "d", uid=20), S("", "cmirror", "c1", uid=21),
                        S("c2", "ccopy", "c1", uid=22), S("", "cmirror", "c2", uid=23)]
    c.graphs["main2"] = [S("d", "creplay", shape=sh, key="r1"), S("", "cmirror", "d", uid=11), S("", "crecord", "d", key="r2")]
    c.graphs["main3"] = [S("d", "creplay", shape=sh, key="r2"), S("", "cmirror", "d", uid=12), S("", "crecord", "d", key="r3")]
    if sh != "tsw" and rng.random() < 0.3:
        # the persistent "memory" backend: (absolute time, delta) entries appended under :memory:<id>.<key>, replayed at
        # their recorded times (a second implementation of record and of the replay read path)
        c.meta["backend"] = "memory"
        c.opts["gsdump"] = ",".join(f":memory:verif.rec.r{j}" for j in (1, 2, 3))
        for g in ("main", "main2", "main3"):
            for st in c.graphs[g]:
                if st.op == "crecord":
                    st.op = "srecord"
                    st.kw["rid"] = "verif.rec"
                elif st.op == "creplay":
                    st.op = "sreplay"
                    st.kw["rid"] = "verif.rec"
        # the recovery FOLD of the recording (what a component seeds its inputs from): at every instant the recorded series
        # ticked, folding the recorded deltas up to that instant yields the value the series really had then
        c.graphs["main"].append(S("", "clive", "d", uid=70))
        c.opts["fold"] = f"verif.rec.r1@70@{sh}"
    return c


def gen_branch_recorder(rng, name):
    """The "memory" recorder inside a switch_ branch that is left and re-entered while the recorded series keeps ticking: the
    record node is started again with its recording already holding ticks. Stage 2 replays the recording. Oracle: the replayed
    (time, value) stream equals the stream the recorder's input had in stage 1, over all activations of the branch."""
    end = rng.choice([20, 30, 40])
    c = Case(name, 0, end)
    ks = sorted(rng.sample(range(0, end - 2), rng.choice([3, 4, 6])))
    c.scripts[1] = [(t, 1 + (j % 2)) for j, t in enumerate(ks)]                     # key alternates 1, 2, 1, ...
    c.scripts[2] = [(t, 100 + t) for t in range(0, end) if rng.random() < 0.7]
    c.graphs["fn0"] = [S("e", "pass", "p0", uid=100), S("", "srecord", "e", key="out", rid="verif.br"), S("", "RET", "e")]
    c.graphs["fn1"] = [S("e", "count", "p0", uid=101), S("", "RET", "e")]
    c.graphs["main"] = [S("k", "src", uid=1, mode=1), S("a", "src", uid=2, mode=1), S("s", "switch", "k", "a", cases="1:fn1:0,2:fn1:1"),
                        S("", "rec", "s", uid=50)]
    c.graphs["main2"] = [S("d", "sreplay", shape="ts", key="out", rid="verif.br"), S("", "rec", "d", uid=60)]
    c.opts["gsdump"] = ":memory:verif.br.out"
    c.meta["kind"] = "branch_recorder"
    c.meta["shape"] = "ts"
    return c


def gen_late_replay(rng, name):
    """A recording made over [0, end) replayed (memory backend, absolute times) in a run that STARTS LATER: entries already in the
    past when the replay starts are history and are skipped; the replay reproduces exactly the ticks from its start on."""
    end = rng.choice([20, 30, 40])
    c = Case(name, 0, end)
    c.scripts[2] = [(t, 100 + t) for t in range(0, end) if rng.random() < 0.6] or [(1, 101)]
    s2 = rng.choice([t for t in range(1, end - 2)])
    c.opts["start2"] = s2
    c.graphs["main"] = [S("a", "src", uid=2, mode=1), S("e", "pass", "a", uid=100), S("", "srecord", "e", key="out", rid="verif.late")]
    c.graphs["main2"] = [S("d", "sreplay", shape="ts", key="out", rid="verif.late"), S("", "rec", "d", uid=60)]
    c.meta["kind"] = "late_replay"
    c.meta["shape"] = "ts"
    c.meta["start2"] = s2
    return c


def check_late_replay(case, tr):
    res = Result(signature=case.text().split("\n", 1)[1])
    if tr.build_error or len(tr.runs) < 2 or any(r.error for r in tr.runs):
        res.violations.append(Violation(f"staged run did not complete: {tr.build_error or [r.error for r in tr.runs]}"))
        return res
    s2 = case.meta["start2"]
    src = sorted((ue.t, ue.out) for ue in tr.runs[0].uevals() if ue.uid == 100)
    want = [x for x in src if x[0] >= s2]
    rep = sorted((ue.t, ue.ins[0][3]) for ue in tr.runs[1].uevals() if ue.uid == 60)
    if rep != want:
        res.violations.append(Violation(f"replay started at t={s2} of a recording made from t=0: replayed {rep[:6]}... ({len(rep)} ticks), the original "
                                        f"ticks from t={s2} on are {want[:6]}... ({len(want)} ticks); entries before the start: {len(src) - len(want)}"))
    res.counters = {"late_replay_ticks_compared": len(want), "late_replays_with_skipped_history": 1 if len(src) > len(want) else 0}
    res.nontrivial = len(src) > len(want) and len(want) >= 1
    return res


def check_branch_recorder(case, tr):
    res = Result(signature=case.text().split("\n", 1)[1])
    if tr.build_error or len(tr.runs) < 2 or any(r.error for r in tr.runs):
        res.violations.append(Violation(f"staged run did not complete: {tr.build_error or [r.error for r in tr.runs]}"))
        return res
    src = sorted((ue.t, ue.out) for ue in tr.runs[0].uevals() if ue.uid == 100)
    rep = sorted((ue.t, ue.ins[0][3]) for ue in tr.runs[1].uevals() if ue.uid == 60)
    activations = 0
    prev = None
    for t, v in case.scripts[1]:
        if v == 1 and prev != 1:
            activations += 1
        prev = v
    if rep != src:
        missing = [x for x in src if x not in rep][:5]
        extra = [x for x in rep if x not in src][:5]
        res.violations.append(Violation(f"replay of a recording made inside a branch that was active {activations} time(s): recorded input had "
                                        f"{len(src)} ticks, the replay {len(rep)}; missing {missing}, unexpected {extra}"))
    res.counters = {"branch_recorder_ticks_compared": len(src), "branch_recorder_reactivations": max(0, activations - 1)}
    res.nontrivial = activations >= 2 and len(src) >= 3
    return res


def generate(rng, tier, seed):
    n = scaled(300 if tier == "quick" else 5000)
    return [gen_case20(rng, f"c20_{seed}_{k}") for k in range(n)] + [gen_branch_recorder(rng, f"c20_{seed}_br{k}") for k in range(n // 6)] + \
        [gen_late_replay(rng, f"c20_{seed}_lr{k}") for k in range(n // 6)]


def empty_structural(d):
    """True when the tick carries no content at all (a 'scheduling only' tick on an already valid collection)."""
    k = d["k"]
    if k == 1:
        return not d["add"] and not d["rem"]
    if k == 2:
        return not d["add"] and not d["rem"] and all(empty_structural(d["items"][kk]) for kk in d["modk"] if kk in d["items"])
    if k in (3, 5):
        return all((not c["m"]) or empty_structural(c) for c in d["ch"]) if d["ch"] else True
    return False


MECH_NULLFIELD = "tsb-capture-fills-unticked-collection-field"
MECH_SHIFT = "dense-record-indexes-from-min-start-time"
COLL = (1, 2)


def empty_now(d):
    """The endpoint carries no content in this tick."""
    if not d["m"]:
        return True
    return empty_structural(d)


def canon(text):
    """Order-insensitive canonical form of a ValueView::to_string() rendering: [..] lists keep order, {k: v} maps and
    {a, b} sets are sorted."""
    text = text.replace("_", " ")
    pos = 0

    def ws():
        nonlocal pos
        while pos < len(text) and text[pos] == " ":
            pos += 1

    def value():
        nonlocal pos
        ws()
        if pos >= len(text):
            return ""
        c = text[pos]
        if c == "[":
            pos += 1
            items = []
            while True:
                ws()
                if pos < len(text) and text[pos] == "]":
                    pos += 1
                    break
                items.append(value())
                ws()
                if pos < len(text) and text[pos] == ",":
                    pos += 1
            return ("list", tuple(items))
        if c == "{":
            pos += 1
            entries = []
            is_map = False
            while True:
                ws()
                if pos < len(text) and text[pos] == "}":
                    pos += 1
                    break
                k = value()
                ws()
                if pos < len(text) and text[pos] == ":":
                    pos += 1
                    v = value()
                    entries.append((k, v))
                    is_map = True
                else:
                    entries.append((k, None))
                ws()
                if pos < len(text) and text[pos] == ",":
                    pos += 1
            return ("map" if is_map else "set", tuple(sorted(entries, key=repr)))
        start = pos
        while pos < len(text) and text[pos] not in ",:]}":
            pos += 1
        return text[start:pos].strip()

    try:
        return value()
    except Exception:
        return text


def is_empty(c):
    """Structural emptiness of a canonical delta rendering."""
    if isinstance(c, str):
        return c in ("<unset>", "<null>", "")
    kind, entries = c
    if kind == "set":
        return len(entries) == 0
    if kind == "map":
        return all(is_empty(v) for _, v in entries)
    return len(entries) == 0 and kind != "list"


def prune(c):
    """Drop structurally empty sub-entries (they are the part apply_delta de-duplicates, known finding F8)."""
    if isinstance(c, str):
        return c
    kind, entries = c
    if kind == "map":
        kept = tuple((k, prune(v)) for k, v in entries if not is_empty(v))
        return ("map", kept) if kept else "<unset>"
    if kind == "set":
        return c if entries else "<unset>"
    items = [prune(e) for e in entries]
    while items and items[-1] == "<unset>":
        items.pop()                      # a dropped trailing tick shortens the dense buffer
    return (kind, tuple(items))


class Differ:
    """Structural comparison of a reproduced endpoint dump with the original one. Two deviations are classified as the
    recorded known findings (and only these): an original tick whose (sub)delta is structurally empty is not reproduced
    (MECH_EMPTY); an un-ticked, never-valid collection field of a TSB is reproduced as a validating empty tick
    (MECH_NULLFIELD). Every other difference is returned unclassified."""

    def __init__(self):
        self.diverged = set()       # paths whose flags legitimately differ from now on
        self.out = []

    def tolerated(self, path):
        return any(path[:len(p)] == p or p[:len(path)] == path for p in self.diverged)

    def cmp(self, o, r, t, path=(), parent_kind=None):
        P = "/".join(map(str, path)) or "<root>"
        if o["k"] != r["k"]:
            self.out.append((None, f"{P} t={t}: kind differs"))
            return
        k = o["k"]
        flags_ok = True
        if o["m"] != r["m"]:
            if o["m"] and not r["m"] and empty_structural(o) and k in (1, 2, 3, 5):
                self.out.append((MECH_EMPTY, f"{P} t={t}: original ticked with an empty structural delta, reproduction did not tick"))
                self.diverged.add(path)
            elif r["m"] and not o["m"] and k in COLL and parent_kind == 5 and empty_structural(r) and not o["v"]:
                self.out.append((MECH_NULLFIELD, f"{P} t={t}: collection field of a bundle never ticked in the original (invalid) but the "
                                                 f"reproduction ticks it with an empty delta and makes it valid"))
                self.diverged.add(path)
            elif self.tolerated(path) and empty_now(o) and empty_now(r):
                pass
            else:
                self.out.append((None, f"{P} t={t}: modified={r['m']} in the reproduction, {o['m']} in the original (delta {o['d'][:60]!r} / {r['d'][:60]!r})"))
            flags_ok = False
        if o["v"] != r["v"] and not self.tolerated(path):
            if r["v"] and not o["v"] and k in COLL and parent_kind == 5:
                self.out.append((MECH_NULLFIELD, f"{P} t={t}: valid in the reproduction, invalid in the original"))
                self.diverged.add(path)
            else:
                self.out.append((None, f"{P} t={t}: valid={r['v']} in the reproduction, {o['v']} in the original"))
        if k in (2, 3, 5):
            # children first: a classified deviation below explains differing aggregate flags here
            kids = [(kk, o["items"][kk], r["items"][kk]) for kk in o["items"] if kk in r["items"]] if k == 2 else \
                   [(i, oc, rc) for i, (oc, rc) in enumerate(zip(o["ch"], r["ch"]))]
            for key, oc, rc in kids:
                self.cmp(oc, rc, t, path + (key,), k)
        if (o["lmt"] != r["lmt"] or o["av"] != r["av"]) and not self.tolerated(path) and flags_ok:
            self.out.append((None, f"{P} t={t}: lmt/all_valid {r['lmt']}/{r['av']} in the reproduction, {o['lmt']}/{o['av']} in the original"))
        if k in (0, 7):
            if o["v"] and r["v"] and o["val"] != r["val"]:
                self.out.append((None, f"{P} t={t}: value {r['val']} != {o['val']}"))
        elif k == 1:
            if sorted(o["vals"]) != sorted(r["vals"]):
                self.out.append((None, f"{P} t={t}: set value {sorted(r['vals'])} != {sorted(o['vals'])}"))
            if (sorted(o["add"]), sorted(o["rem"])) != (sorted(r["add"]), sorted(r["rem"])):
                self.out.append((None, f"{P} t={t}: set delta +{sorted(r['add'])} -{sorted(r['rem'])} != +{sorted(o['add'])} -{sorted(o['rem'])}"))
        elif k == 4:
            if o["vals"] != r["vals"] or o["size"] != r["size"]:
                self.out.append((None, f"{P} t={t}: window {r['vals']} != {o['vals']}"))
        elif k == 2:
            if set(o["items"]) != set(r["items"]):
                self.out.append((None, f"{P} t={t}: keys {sorted(r['items'])} != {sorted(o['items'])}"))
            if (sorted(o["add"]), sorted(o["rem"])) != (sorted(r["add"]), sorted(r["rem"])):
                self.out.append((None, f"{P} t={t}: key delta +{sorted(r['add'])} -{sorted(r['rem'])} != +{sorted(o['add'])} -{sorted(o['rem'])}"))
            om = {kk for kk in o["modk"] if kk in o["items"] and not empty_structural(o["items"][kk])}
            rm = {kk for kk in r["modk"] if kk in r["items"] and not empty_structural(r["items"][kk])}
            if om != rm:
                self.out.append((None, f"{P} t={t}: keys modified with content {sorted(rm)} != {sorted(om)}"))
        elif k in (3, 5):
            om = {i for i in o["modi"] if not empty_structural(o["ch"][i])}
            rm = {i for i in r["modi"] if not empty_structural(r["ch"][i])}
            if om != rm:
                self.out.append((None, f"{P} t={t}: children modified with content {sorted(rm)} != {sorted(om)}"))
        if not self.tolerated(path) and not self.diverged and canon(o["d"]) != canon(r["d"]):
            self.out.append((None, f"{P} t={t}: canonical delta {r['d'][:80]!r} != {o['d'][:80]!r}"))


_shapes = set()


def extra_coverage():
    return {"shapes_exercised": sorted(_shapes)}


def check(case, tr):
    res = Result(signature=case.text().split("\n", 1)[1])
    if tr.build_error:
        res.violations.append(Violation(f"valid program rejected at build: {tr.build_error}"))
        return res
    if case.meta.get("kind") == "branch_recorder":
        return check_branch_recorder(case, tr)
    if case.meta.get("kind") == "late_replay":
        return check_late_replay(case, tr)
    if len(tr.runs) < 3:
        res.violations.append(Violation("staged run did not complete"))
        return res
    for r in tr.runs:
        if r.error:
            res.violations.append(Violation(f"stage {r.index} failed: {r.error[:200]}"))
            return res
    _shapes.add(case.meta["shape"])
    d0 = {t: d for t, d, _ in parse_dumps(tr.runs[0]).get(10, [])}
    copies = [{t: d for t, d, _ in parse_dumps(tr.runs[0]).get(u, [])} for u in (21, 23)]
    reps = [{t: d for t, d, _ in parse_dumps(tr.runs[1]).get(11, [])}, {t: d for t, d, _ in parse_dumps(tr.runs[2]).get(12, [])}]
    V = []
    known = {}
    rep_cmp = copy_cmp = 0
    streams = [("copy#1", copies[0], False), ("copy#2", copies[1], False), ("replay#1", reps[0], True), ("replay#2", reps[1], True)]
    memory = case.meta.get("backend") == "memory"       # absolute-time entries: no cycle-index shift
    if case.start != 0 and not memory:
        # known finding F9: dense_record indexes its buffer from MIN_ST, replay reads it from the run's start time
        streams = streams[:2]
        for stage, rep in enumerate(reps, 1):
            nonempty = sorted(t for t, d in d0.items() if not empty_structural(d) or not d["v"])
            want = [t + stage * case.start for t in sorted(d0) if t + stage * case.start < case.end]
            got = sorted(rep)
            if (got or not want) and set(got) <= set(want) and got != sorted(d0):      # (all shifted ticks may fall beyond the end)
                known.setdefault(MECH_SHIFT, f"replay#{stage}: run window starts at {case.start}; the original ticked at {sorted(d0)[:6]}, "
                                             f"the replay of its recording ticks at {got[:6]} (shifted by {stage * case.start})")
            elif got != sorted(d0) and d0:
                V.append(f"replay#{stage} (start={case.start}) ticks at {got[:8]}, original at {sorted(d0)[:8]}")
    for name, stream, is_rep in streams:
        df = Differ()
        prev_valid = False
        for t in sorted(d0):
            d = d0[t]
            if t not in stream:
                if prev_valid and empty_structural(d):
                    known.setdefault(MECH_EMPTY, f"{name}: the original ticked at t={t} with an empty structural delta; the reproduction has no tick there")
                    df.diverged.add(())
                elif not d["v"] and not d["m"]:
                    pass
                else:
                    V.append(f"{name} has no tick at t={t} where the original ticked with delta {d['d'][:80]!r}")
                prev_valid = prev_valid or bool(d["v"])
                continue
            if is_rep:
                rep_cmp += 1
            else:
                copy_cmp += 1
            n0 = len(df.out)
            df.cmp(d, stream[t], t)
            prev_valid = prev_valid or bool(d["v"])
        for mech, msg in df.out:
            if mech:
                known.setdefault(mech, f"{name}: {msg}")
            elif len(V) < 12:
                V.append(f"{name}: {msg}")
        extra = sorted(set(stream) - set(d0))
        if extra:
            V.append(f"{name} ticked at {extra[:6]} where the original did not")
    # recorded buffers
    gs = {}
    for r in tr.runs:
        for seq, kind, tk in r.events:
            if kind == "GS":
                gs[(int(tk[0]), tk[1])] = tk[2]
    bufcmp = 0
    r1, r2, r3 = gs.get((2, "r1")), gs.get((2, "r2")), gs.get((2, "r3"))
    if memory:
        r1, r2, r3 = (gs.get((2, f":memory:verif.rec.r{j}")) for j in (1, 2, 3))
    if memory:
        # (time, delta) entries render their time as an opaque type name and drop/keep structurally empty ticks like the
        # replay does: the buffers are judged through the replayed ticks; only their presence is checked here
        if d0 and (r1 is None or r2 is None or r3 is None):
            V.append("recorded buffers missing from the global state (memory backend)")
        elif d0:
            bufcmp = 1
    elif case.start != 0:
        bufcmp = 0
    elif r1 is not None and r2 is not None and r3 is not None:
        bufcmp = 1
        c1, c2, c3 = canon(r1), canon(r2), canon(r3)
        if not (prune(c1) == prune(c2) == prune(c3)):
            V.append(f"recordings differ in content along the record/replay chain: {r1[:120]} | {r2[:120]} | {r3[:120]}")
        elif not (c1 == c2 == c3):
            known.setdefault(MECH_EMPTY, "recordings along the record/replay chain differ only in structurally empty (sub)deltas")
    elif d0:
        V.append("recorded buffers missing from the global state")
    folds = fold_bad = 0
    if case.opts.get("fold"):
        for seq, kind, tk in tr.runs[0].events:
            if kind == "FOLD":
                folds += 1
                if int(tk[2]) != 1:
                    import re
                    toks = lambda x: sorted(re.findall(r"[A-Za-z0-9.-]+", x.replace("<unset>", "EMPTY").replace("{}", "EMPTY")))
                    if "<unset>" in tk[3] and toks(tk[3]) == toks(tk[4]):
                        # the fold differs only in collection fields of a bundle that never ticked: valid and empty in the copy
                        known.setdefault(MECH_NULLFIELD, f"fold at t={tk[1]}: a collection field of a bundle that never ticked in the original "
                                                         f"(unset) is valid and empty in the folded value: {tk[4][:80]} vs {tk[3][:80]}")
                        continue
                    fold_bad += 1
                    if fold_bad <= 2:
                        V.append(f"folding the recording up to t={tk[1]} yields {tk[4][:100]}; the recorded series held {tk[3][:100]} at that instant")
    for msg in V[:6]:
        res.violations.append(Violation(msg))
    for mech, msg in known.items():
        res.violations.append(Violation(msg, mech))
    res.counters = {"recovery_folds_compared": folds, "long_dense_recordings": case.meta.get("long_run", 0), "memory_backend_chains": 1 if memory else 0,
                    "replayed_ticks_compared": rep_cmp, "copy_ticks_compared": copy_cmp, "buffers_compared": bufcmp,
                    "known_deviation_cases": 1 if known else 0}
    res.nontrivial = len(d0) >= 4
    return res
