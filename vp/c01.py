"""C01 - at most once per cycle, only after producers; unbroken cycles rejected at build."""
from __future__ import annotations
from .runner import Result, Violation, scaled
from .gen_core import gen_case, ProgGen, UID
from .prog import S
from . import model as M

PROPERTY = "C01"
LEVEL = "exploration"
HARNESS = "hgdrive"
RULE = ("[plus: reference selections (if_then_else) whose readers depend on selector and both targets; collection / bundle path "
        "programs, keyed maps, switches and reductions checked by the compiled-edge and single-forward-scan oracles] "
        "random DAG programs (layered, diamond-rich, fan-in/out, nested/inlined sub-graphs to depth 3, structural TSL inputs, "
        "explicit rank dependencies, consumer-before-producer wiring through delayed bindings, feedback loops) x random "
        "histories; plus programs whose dependency cycle is closed through a delayed binding or a rank-dependency pair "
        "(must be rejected) next to the same program cut by a feedback (must build). Non-trivial: >= 5 checked "
        "dependencies or a cyclic program; distinct by program text")
ASSUMPTIONS = ["LifecycleObserver events are emitted in real execution order (one global sequence per run)",
               "uid -> (graph instance, node index) is taken from each node's own start log",
               "g++-12 -O1 build of the working tree with harness-side shims"]
FLOORS = {"deps_checked": {"quick": 3000, "thorough": 40000}, "cyclic_rejected": {"quick": 40, "thorough": 400},
          "node_evals_ordered": {"quick": 20000, "thorough": 200000}, "child_brackets": {"quick": 500, "thorough": 5000},
          "deps_through_reference": {"quick": 100, "thorough": 1500}, "mesh_resumes_after_pause": {"quick": 200, "thorough": 3000},
          "mesh_captured_throws": {"quick": 12, "thorough": 250}, "structural_case_node_evals": {"quick": 3000, "thorough": 40000}}
BATCH = 25


def add_rank_and_delayed(rng, case):
    """Decorate main with explicit rank dependencies and a consumer-before-producer delayed binding."""
    stmts = case.graphs["main"]
    defs = [(k, s.dst) for k, s in enumerate(stmts) if s.dst and s.op not in ("fb", "delayed", "const", "inline", "nested")]
    extra = []
    ranks = []
    for _ in range(rng.choice([0, 1, 2, 4])):
        if len(defs) < 2:
            break
        (ka, a), (kb, b) = sorted(rng.sample(defs, 2))
        # b is defined later than a: "rank b a" (b after a) is consistent with statement order
        extra.append(S("", "rank", b, a))
        ranks.append((b, a))
    case.meta["ranks"] = ranks
    # delayed binding: early consumer of a port bound later to something defined before the consumer
    if defs and rng.random() < 0.5:
        k0, early = rng.choice(defs)
        uid = max([s.uid() or 0 for g in case.graphs.values() for s in g] + [0]) + 1
        d = f"dly{k0}"
        new = stmts[:k0 + 1] + [S(d, "delayed"), S(f"{d}u", "pass", d, uid=uid), S("", "rec", f"{d}u", uid=uid + 1)] + stmts[k0 + 1:]
        new.append(S("", "bindd", d, early))
        case.graphs["main"] = new
    case.graphs["main"] += extra


def make_cyclic(rng, name, kind):
    """A program with a dependency cycle not broken by feedback, and (kind == 'control') its feedback-cut twin."""
    from .prog import Case
    c = Case(name, 0, 12)
    c.scripts[1] = [(0, 1), (1, 2), (4, 7)]
    n = rng.randint(1, 6)
    st = [S("a", "src", uid=1)]
    if kind in ("delayed", "control"):
        st.append(S("d", "delayed") if kind == "delayed" else S("d", "fb", init=0))
        st.append(S("x0", "add2", "a", "d", uid=2))
    else:
        st.append(S("x0", "pass", "a", uid=2))
    prev = "x0"
    for k in range(1, n + 1):
        st.append(S(f"x{k}", rng.choice(["pass", "acc", "count"]), prev, uid=2 + k))
        prev = f"x{k}"
    if kind == "delayed" and rng.random() < 0.4:
        # the cycle is closed through a FORWARDED forward declaration (the placeholder is bound to a second placeholder, which is
        # bound to the descendant), the two bindings wired in either order
        st.insert(1, S("d2", "delayed"))
        binds = [S("", "bindd", "d", "d2"), S("", "bindd", "d2", prev)]
        rng.shuffle(binds)
        st += binds
        c.meta["chained"] = 1
    elif kind == "delayed":
        st.append(S("", "bindd", "d", prev))
    elif kind == "control":
        st.append(S("", "bind", "d", prev))
    elif kind == "rank":
        # x0 must rank after its own descendant
        st.append(S("", "rank", "x0", prev))
    elif kind == "rank2":
        # two independent chains tied into a knot by two rank dependencies
        st.append(S("b", "src", uid=50))
        c.scripts[50] = [(0, 1)]
        st.append(S("y0", "pass", "b", uid=51))
        st.append(S("y1", "pass", "y0", uid=52))
        st.append(S("", "rank", "x0", "y1"))
        st.append(S("", "rank", "y0", prev))
        st.append(S("", "rec", "y1", uid=53))
    st.append(S("", "rec", prev, uid=40))
    if kind in ("delayed", "rank", "rank2", "control") and rng.random() < 0.5 and kind != "control":
        # hide the knot one level down
        c.graphs["sub0"] = [s for s in st if s.op != "rec"] + [S("", "RET", prev)]
        # sub-graph has its own source; wrap
        c.graphs["main"] = [S("n", rng.choice(["inline", "nested"]), sid=0), S("", "rec", "n", uid=41)]
    else:
        c.graphs["main"] = st
    c.meta["cyclic"] = kind != "control"
    c.meta["kind"] = kind
    return c


def gen_mesh_case(rng, name):
    """mesh_: per-key instances that read each other's results; an instance PAUSES at its mesh reference until the referenced
    instance has been evaluated and is then RESUMED in the same cycle. Half of the cases wrap the instance body in try_except
    with a node that throws in some cycles (a cycle abandoned by a captured error, followed by cycles that pause)."""
    from .prog import Case, S
    end = rng.choice([16, 24, 36])
    c = Case(name, 0, end)
    keys = list(range(1, rng.choice([3, 4, 6]) + 1))
    vals, links = {}, {}
    for k in keys:
        vals.setdefault(0 if rng.random() < 0.7 else rng.randrange(1, 4), []).append(f"[{k}]={k * 10}")
    for t in sorted(rng.sample(range(1, end), min(end - 1, rng.choice([5, 9, 14])))):
        vals.setdefault(t, []).append(f"[{rng.choice(keys)}]={rng.randint(1, 99)}")
    for k in keys[1:]:
        if rng.random() < 0.7:
            links.setdefault(rng.choice([0, 0, 1, 2]), []).append(f"[{k}]={rng.randrange(1, k)}")
    for t in sorted(rng.sample(range(2, end), min(end - 2, rng.choice([2, 4, 7])))):
        k = rng.choice(keys[1:])
        links.setdefault(t, []).append(f"[{k}]={rng.randrange(1, k)}" if rng.random() < 0.85 else f"x[{k}]")
    c.cscripts[1] = [f"{t}|" + ",".join(ops) for t, ops in sorted(vals.items())]
    c.cscripts[2] = [f"{t}|" + ",".join(dict.fromkeys(ops)) for t, ops in sorted(links.items())]
    inner = [S("e", "pass", "p0", uid=100), S("th", "thrower", "e", uid=101), S("a", "acc", "th", uid=102), S("l", "pass", "p1", uid=103),
             S("l2", "pass", "l", uid=104), S("dep", "meshref", "l2"), S("g", "gate", "a", "dep", uid=105), S("h", "pass", "g", uid=106)]
    if rng.random() < 0.5:
        c.graphs["sub0"] = inner + [S("", "RET", "h")]
        c.graphs["fn0"] = [S("r", "try", "p0", "p1", sid=0), S("o", "tryout", "r", uid=110), S("", "tryerr", "r", uid=111), S("", "RET", "o")]
        c.faults = [(101, "eval", o) for o in sorted(rng.sample(range(2, 30), rng.choice([1, 2, 4])))]
        c.meta["mesh_try"] = 1
    else:
        c.graphs["fn0"] = inner + [S("", "RET", "h")]
    c.graphs["main"] = [S("d", "csrc", shape="tsd", uid=1), S("k", "csrc", shape="tsd", uid=2), S("m", "mesh", "d", "k", fn="fn2:0"),
                        S("", "cmirror", "m", uid=11)]
    c.meta["mesh"] = 1
    return c


def gen_mesh_diamond(rng, name):
    """mesh_ instances with TWO references each (diamonds: D reads B and C, C reads B); links appear and change while the mesh
    runs, so instances are re-ranked. Oracle (trace only): an instance that reads key a never keeps a's PREVIOUS result in a
    cycle in which a's instance produced a new one - it is evaluated after a in that cycle and reads the new result."""
    from .prog import Case, S
    end = rng.choice([16, 24])
    c = Case(name, 0, end)
    n = rng.choice([4, 5, 6])
    keys = list(range(1, n + 1))
    vals = {0: [f"[{k}]={k * 10}" for k in keys]}
    for t in sorted(rng.sample(range(1, end), rng.choice([6, 10, 14]))):
        for k in rng.sample(keys, rng.choice([1, 1, 2, 3])):
            vals.setdefault(t, []).append(f"[{k}]={k * 10 + rng.randrange(10)}")
    links = {}
    order = list(keys[1:])
    rng.shuffle(order)
    t = 0
    for k in order:                                    # dependencies registered in a shuffled order, some only later
        a, b = rng.randrange(1, k), rng.randrange(1, k)
        links.setdefault(t, []).append(f"[{k}]={a * 100 + b}")
        if rng.random() < 0.5:
            t += rng.choice([0, 1, 2])
    # (links are established in the first cycles and then stay: what the ranks look like in the cycles AFTER an established
    # dependency is re-pointed is the recorded finding F28 - kept visible by a constructed witness - and the constructed
    # re-rank diamonds below cover "a root gains a dependency later")
    c.cscripts[1] = [f"{t}|" + ",".join(dict.fromkeys(ops)) for t, ops in sorted(vals.items())]
    c.cscripts[2] = [f"{t}|" + ",".join(dict.fromkeys(ops)) for t, ops in sorted(links.items())]
    c.graphs["fn0"] = [S("e", "pass", "p0", uid=100), S("l", "pass", "p1", uid=103), S("la", "hi100", "l"), S("lb", "lo100", "l"),
                       S("d1", "meshref", "la"), S("d2", "meshref", "lb"), S("g1", "gate", "e", "d1", uid=105), S("g", "gate", "g1", "d2", uid=106),
                       S("", "RET", "g")]
    c.graphs["main"] = [S("d", "csrc", shape="tsd", uid=1), S("k", "csrc", shape="tsd", uid=2), S("m", "mesh", "d", "k", fn="fn2:0"),
                        S("", "cmirror", "m", uid=11)]
    c.meta["mesh"] = 2
    return c


def mesh_diamond_rerank_case(name, rng):
    """Constructed: D reads B and C, C reads B (built in the first cycle, D registers on B before C does); later B gains a
    dependency on a key that is only ever requested through the mesh (re-rank sweep over B's dependents); afterwards B ticks
    repeatedly, making C and D due in the same scan."""
    c = gen_mesh_diamond(rng, name)
    swap = rng.random() < 0.5
    D, C = (1, 2) if not swap else (2, 1)
    single = rng.random() < 0.5            # C reads B once (its second reference names a key that never exists) or twice
    c.cscripts[1] = ["0|[1]=10,[2]=20,[3]=30", "3|[4]=40"] + [f"{t}|[3]={30 + t % 9}" for t in (5, 8, 11)] + \
                    [f"{t}|[1]={10 + t % 9},[2]={20 + t % 9}" for t in (6, 9, 13)]
    c.cscripts[2] = [f"0|[{D}]=3{C:02d},[{C}]={300 if single else 303}", "3|[3]=404"]
    c.end = 16
    return c


MECH_F28 = "mesh-rank-order-stale-after-relink"


def mesh_f28_witness(name):
    """Witness of F28 (found by the thorough tier, seed 6): key 3 is re-pointed at t=12 (it now reads key 2); in the next cycle
    only key 2 ticks, keys 4, 5 and 6 become due together - and key 5 (reads 4) and key 6 (reads 5) run before key 4."""
    import random
    c = gen_mesh_diamond(random.Random(0), name)
    c.end = 16
    c.cscripts[1] = ["0|[1]=10,[2]=20,[3]=30,[4]=40,[5]=50,[6]=60", "3|[1]=10,[6]=67", "4|[1]=12", "6|[6]=66", "7|[4]=45,[3]=32", "8|[6]=61,[3]=35,[1]=10",
                     "12|[6]=63,[4]=45,[3]=38", "13|[2]=22", "15|[1]=10"]
    c.cscripts[2] = ["0|[2]=101,[5]=202,[3]=101,[6]=305,[4]=103", "5|[5]=403", "10|[4]=301", "12|[3]=202"]
    c.meta["mesh_witness"] = "F28"
    return c


def check_mesh_diamond(case, tr, res):
    run = tr.runs[0]
    if case.meta.get("mesh_witness") == "F28":
        if run.error:
            res.violations.append(Violation(f"witness F28 did not run: {run.error[:200]}"))
            return res
        key_of = {}
        for ue in run.uevals():
            if ue.uid == 100 and ue.gid not in key_of and ue.out is not None:
                key_of[ue.gid] = ue.out // 10
        order = [key_of.get(ue.gid) for ue in run.uevals() if ue.t == 13 and ue.uid == 106]
        if 4 in order and 5 in order and order.index(5) < order.index(4):
            res.violations.append(Violation(f"mesh instances evaluated in the order {order} at t=13: key 5 (reads key 4) and key 6 (reads key 5) ran before "
                                            f"key 4 although all three became due together - the rank order is stale after key 3 was re-pointed at t=12",
                                            MECH_F28))
        res.counters = {"witness_cases": 1}
        return res
    if run.error and "failed_to_settle" in run.error:
        res.counters = {"mesh_runs_failed_to_settle": 1}
        return res
    if run.error:
        res.violations.append(Violation(f"run failed: {run.error[:300]}"))
        return res
    from .gen_coll import write_log
    wl = write_log(run)
    outer = {}                    # t -> keys whose own value / link element was written in that cycle
    for u in (1, 2):
        for t, ops in wl.get(u, []):
            for op in ops:
                if "[" in op:
                    outer.setdefault(t, set()).add(int(op[op.index("[") + 1:op.index("]")]))
    known = []
    link_cycles = {t for t, ops in wl.get(2, [])}
    relink_cycles = 0
    key_of, link_of = {}, {}
    by_t = {}
    for ue in run.uevals():
        if ue.uid == 100 and ue.gid not in key_of and ue.out is not None:
            key_of[ue.gid] = ue.out // 10
        by_t.setdefault(ue.t, []).append(ue)
    out = {}                      # key -> latest result
    checks = stale = 0
    V = []
    for t in sorted(by_t):
        evs = by_t[t]
        for ue in evs:
            if ue.uid == 103 and ue.out is not None:
                link_of[ue.gid] = (ue.out // 100, ue.out % 100)
        new_out = {}
        for ue in evs:
            if ue.uid == 106 and ue.gid in key_of:
                new_out[key_of[ue.gid]] = ue.out
        if t in link_cycles:
            # a cycle in which links change re-ranks instances while they are being evaluated (instances pause and resume, ranks
            # of already snapshotted dependents move): what such a cycle guarantees is not pinned down - the steady cycles are judged
            out.update(new_out)
            relink_cycles += 1
            continue
        reads = {}
        for ue in evs:
            if ue.uid in (105, 106) and ue.gid in key_of:
                reads[(ue.gid, ue.uid)] = ue.ins[1]
        # the engine settles a cycle in SCANS: each scan takes a rank-ordered snapshot of the instances that are due when it starts;
        # instances that become due during a scan (a dependency of theirs produced) run in a later scan. Reconstructed from the
        # trace: evaluation order, and for every instance the position at which it became due.
        order, produced_at = [], {}
        for ue in evs:
            if ue.gid in key_of and ue.uid in (100, 103, 105, 106):
                k_ = key_of[ue.gid]
                if k_ not in order:
                    order.append(k_)
                if ue.uid == 106:
                    produced_at[k_] = order.index(k_)
        key_links = {key_of[g]: ab for g, ab in link_of.items() if g in key_of}
        due = {}
        for k_ in order:
            if k_ in outer.get(t, ()):
                due[k_] = -1
            else:
                ds = [produced_at[x] for x in key_links.get(k_, ()) if x in produced_at and x != k_]
                due[k_] = min(ds) if ds else -1
        scan_of, i_, boundary, sc_ = {}, 0, -1, 0
        while i_ < len(order):
            j_ = i_
            while j_ < len(order) and due[order[j_]] <= boundary:
                j_ += 1
            if j_ == i_:
                j_ = i_ + 1
            for k_ in order[i_:j_]:
                scan_of[k_] = sc_
            boundary, i_, sc_ = j_ - 1, j_, sc_ + 1
        for gid, (a, b) in link_of.items():
            if gid not in key_of:
                continue
            for dep_key, uid in ((a, 105), (b, 106)):
                if dep_key in new_out and dep_key != key_of[gid]:
                    checks += 1
                    r = reads.get((gid, uid))
                    if r is None or not r[0] or r[3] != new_out[dep_key]:
                        stale += 1
                        if scan_of.get(dep_key, 10 ** 6) > scan_of.get(key_of[gid], -1):
                            # known finding F27: the dependency became due only DURING the scan in which the reader ran (it belongs to a
                            # later scan), so the reader's rank snapshot did not contain it. A dependency that was due in the SAME scan
                            # as its reader and still ran after it is a rank-order violation and is reported.
                            known.append(f"t={t}: the instance of key {key_of[gid]} was evaluated before (or not after) the instance of "
                                         f"key {dep_key} it reads, which became due only through another instance's tick in this cycle; the reader "
                                         f"kept the previous result")
                            continue
                        if len(V) < 4:
                            V.append(f"t={t}: the instance of key {key_of[gid]} reads key {dep_key} (reference #{1 if uid == 105 else 2}); that instance produced "
                                     f"{new_out[dep_key]} in this cycle but the reader {'was not evaluated after it' if r is None else 'read ' + str(r)}: "
                                     f"a consumer keeps its producer's previous result")
        out.update(new_out)
    for m in V:
        res.violations.append(Violation(m))
    if known:
        res.violations.append(Violation(known[0], "mesh-dependency-due-mid-pass-evaluated-after-its-reader"))
    res.counters = {"mesh_reference_reads_checked": checks, "mesh_diamond_cases": 1, "mesh_relink_cycles_not_judged": relink_cycles}
    res.nontrivial = checks >= 5
    return res


def check_mesh(case, tr, res):
    if case.meta.get("mesh") == 2:
        return check_mesh_diamond(case, tr, res)
    run = tr.runs[0]
    if run.error and "failed_to_settle" in run.error:
        # the mesh gave up re-ranking its instances after a link change ("failed to settle within the cycle"): an explicit
        # error of an operator none of the properties describes - counted, not judged
        res.counters = {"mesh_runs_failed_to_settle": 1}
        return res
    if run.error:
        res.violations.append(Violation(f"run failed: {run.error[:300]}"))
        return res
    seen, entered, cyc = {}, {}, None
    resumes = throws = 0
    for seq, kind, tk in run.events:
        if kind == "C<" and tk[0] == "0":
            cyc = int(tk[1])
        elif kind == "E<":
            key = (int(tk[0]), int(tk[1]), cyc)
            entered[key] = entered.get(key, 0) + 1
            if entered[key] == 2:
                resumes += 1
        elif kind == "u.throw":
            throws += 1
    for ue in run.uevals():
        key = (ue.uid, ue.gid, ue.idx, ue.t)
        seen[key] = seen.get(key, 0) + 1
    dup = sorted(k for k, n in seen.items() if n > 1)
    if dup:
        res.violations.append(Violation(f"user code ran more than once in one cycle: (uid, graph, node, t) = {dup[:5]} "
                                        f"({len(dup)} node evaluations repeated; the instance was resumed {resumes} time(s) in the run)"))
    res.counters = {"mesh_user_evals_checked": len(seen), "mesh_resumes_after_pause": resumes, "mesh_captured_throws": throws}
    res.nontrivial = resumes >= 1
    return res


def generate(rng, tier, seed):
    n = scaled(400 if tier == "quick" else 6000)
    cases = []
    for k in range(n):
        c = gen_case(rng, f"c01_{seed}_{k}", max_depth=3 if rng.random() < 0.3 else 2, allow_ite=(k % 4 == 3))
        add_rank_and_delayed(rng, c)
        cases.append(c)
    # dependencies through collection / bundle paths and through dynamic children: collection sources, copies and mirrors over
    # the ten shapes, keyed maps, switches, reductions, references to sets / dictionaries (compiled-edge and scan-order oracles)
    from .gen_coll import gen_coll_case
    from .c10 import gen_case10, gen_nested_map_case, gen_explicit_keys_case
    from .c13 import gen_getitem_ref, gen_if_route
    from .c11 import gen_case11
    from .c12 import gen_case12
    from .c13 import gen_coll_ref
    for k in range(n // 4):
        nm = f"c01_{seed}_s{k}"
        r = k % 9
        c = (gen_coll_case(rng, nm, probes=True, copies=2) if r == 0 else gen_case10(rng, nm, k) if r == 1 else
             gen_case11(rng, nm, k) if r == 2 else gen_case12(rng, nm, k) if r == 3 else gen_coll_ref(rng, nm) if r == 4 else
             gen_nested_map_case(rng, nm) if r == 5 else       # a map_ with a pass_through argument produced by a chain of nodes
             gen_explicit_keys_case(rng, nm) if r == 6 else    # a map_ whose children follow an explicit key set
             gen_getitem_ref(rng, nm) if r == 7 else gen_if_route(rng, nm))      # tsd[key] / if_ as sources of references
        c.meta["structural"] = 1
        cases.append(c)
    for k in range(n // 5):
        cases.append(gen_mesh_case(rng, f"c01_{seed}_m{k}"))
    for k in range(n // 5):
        cases.append(gen_mesh_diamond(rng, f"c01_{seed}_md{k}"))
    for k in range(4):
        cases.append(mesh_diamond_rerank_case(f"c01_{seed}_mdr{k}", rng))
    cases.append(mesh_f28_witness(f"c01_{seed}_witnessF28"))
    kinds = ["delayed", "rank", "rank2", "control"]
    for k in range(n // 5):
        cases.append(make_cyclic(rng, f"c01_{seed}_cyc{k}", kinds[k % len(kinds)]))
    return cases


def graph_tables(run):
    """gid -> (parent_gid, parent_idx); uid -> (gid, idx) from start events."""
    parents, where = {}, {}
    for seq, kind, tk in run.events:
        if kind == "G+":
            parents[int(tk[0])] = (int(tk[1]), int(tk[2]))
        elif kind == "u.start":
            where.setdefault(int(tk[0]), []).append((int(tk[1]), int(tk[2])))
    return parents, where


def lift(gid, idx, parents, target_gid):
    """Representative of node (gid, idx) in ancestor graph target_gid, or None."""
    while gid != target_gid:
        if gid not in parents or parents[gid][0] < 0:
            return None
        gid, idx = parents[gid]
    return idx


def ancestors(gid, parents):
    out = [gid]
    while gid in parents and parents[gid][0] >= 0:
        gid = parents[gid][0]
        out.append(gid)
    return out


def check_static_edges(tr, res):
    for tag, g in tr.bgraph.items():
        labels = {idx: schema for idx, _, schema, _ in g["nodes"]}
        for src, kind, tgt, plen, p0 in g["edges"]:
            res.counters["edges_checked"] = res.counters.get("edges_checked", 0) + 1
            if src < tgt:
                continue
            if labels.get(tgt) == "feedback_sink" and p0 == 1:
                continue   # declared rank-free slot: the sink's view of its own source
            res.violations.append(Violation(f"compiled edge {src}->{tgt} in graph '{tag}' does not satisfy source < target "
                                            f"({labels.get(src)} -> {labels.get(tgt)})"))


def check_dynamic(run, res, parents):
    """Strictly increasing node indices inside each graph-evaluation bracket; child brackets inside the owner's bracket."""
    open_graph = {}          # gid -> [t, last_idx]
    node_stack = []          # (gid, idx)
    cycle_t = None
    for seq, kind, tk in run.events:
        if kind == "C<":
            gid, t = int(tk[0]), int(tk[1])
            if gid in open_graph:
                res.violations.append(Violation(f"graph {gid} evaluation re-entered at t={t}"))
            open_graph[gid] = [t, -1]
            pg, pi = parents.get(gid, (-1, -1))
            if pg >= 0:
                res.counters["child_brackets"] = res.counters.get("child_brackets", 0) + 1
                if not node_stack or node_stack[-1] != (pg, pi):
                    res.violations.append(Violation(f"child graph {gid} evaluated at t={t} outside its owner's node evaluation"
                                                    f" (owner node {pg}:{pi}, stack {node_stack[-2:]})"))
                elif pg in open_graph and open_graph[pg][0] != t:
                    res.violations.append(Violation(f"child graph {gid} evaluated at t={t} while its parent is at t={open_graph[pg][0]}"))
        elif kind == "C>":
            open_graph.pop(int(tk[0]), None)
        elif kind == "E<":
            gid, idx = int(tk[0]), int(tk[1])
            st = open_graph.get(gid)
            if st is None:
                res.violations.append(Violation(f"node {gid}:{idx} evaluated outside a graph evaluation bracket"))
            else:
                res.counters["node_evals_ordered"] = res.counters.get("node_evals_ordered", 0) + 1
                if idx <= st[1]:
                    res.violations.append(Violation(f"graph {gid} t={st[0]}: node {idx} evaluated after node {st[1]} "
                                                    f"(not a single forward scan / evaluated twice)"))
                st[1] = idx
            node_stack.append((gid, idx))
        elif kind == "E>":
            if node_stack:
                node_stack.pop()


def check(case, tr):
    res = Result(signature=case.text().split("\n", 1)[1])
    res.counters = {}
    if case.meta.get("cyclic"):
        res.nontrivial = True
        if tr.build_error is None:
            res.violations.append(Violation(f"program with an unbroken dependency cycle ({case.meta['kind']}) was built"
                                            f"{' and run' if tr.runs else ''} instead of being rejected"))
        else:
            res.counters["cyclic_rejected"] = 1
            if tr.runs:
                res.violations.append(Violation("lifecycle events after a rejected build"))
        return res
    if tr.build_error:
        res.violations.append(Violation(f"acyclic program rejected at build: {tr.build_error}"))
        return res
    if case.meta.get("kind") == "control":
        res.counters["feedback_cut_built"] = 1
    check_static_edges(tr, res)
    if case.meta.get("mesh"):
        return check_mesh(case, tr, res)
    run = tr.runs[0]
    if run.error:
        res.violations.append(Violation(f"run failed: {run.error}"))
        return res
    parents, where = graph_tables(run)
    check_dynamic(run, res, parents)
    if case.meta.get("structural"):
        res.counters["structural_case_node_evals"] = res.counters.get("node_evals_ordered", 0)
        res.nontrivial = res.counters.get("node_evals_ordered", 0) >= 20
        return res
    # program-level dependencies: index(producer) < index(consumer) in their common graph
    flat = M.flatten(case)
    deps = 0
    by_uid = {}
    for ue in run.uevals():
        by_uid.setdefault(ue.uid, {}).setdefault(ue.t, ue.seq)
    for i in flat.insts:
        if i.uid is None or i.uid not in where:
            continue
        cg, ci = where[i.uid][0]
        prods, stack = [], [r.target for r in i.ins]
        while stack:
            p = stack.pop()
            if p.op == "ite":
                # reading through a reference: the selector and every possible target are producers of the reader
                res.counters["deps_through_reference"] = res.counters.get("deps_through_reference", 0) + 1
                stack += [r.target for r in p.ins]
            else:
                prods.append(p)
        for p in prods:
            if p.uid is None or p.op in ("fb", "const") or p.uid not in where:
                continue
            pg, pi = where[p.uid][0]
            anc_c = ancestors(cg, parents)
            common = next((g for g in ancestors(pg, parents) if g in anc_c), None)
            if common is None:
                continue
            lp, lc = lift(pg, pi, parents, common), lift(cg, ci, parents, common)
            if lp is None or lc is None or lp == lc:
                continue
            deps += 1
            if not lp < lc:
                res.violations.append(Violation(f"consumer uid {i.uid} (node {lc} of graph {common}) is ranked before its producer "
                                                f"uid {p.uid} (node {lp})"))
            # dynamic: same-cycle runs ordered producer first
            pr = by_uid.get(p.uid, {})
            for t, sq in by_uid.get(i.uid, {}).items():
                if t in pr:
                    res.counters["same_cycle_pairs"] = res.counters.get("same_cycle_pairs", 0) + 1
                    if pr[t] > sq:
                        res.violations.append(Violation(f"uid {i.uid} ran at t={t} before its producer uid {p.uid}"))
    # explicit rank dependencies
    names = {}
    for st in case.graphs["main"]:
        if st.dst and st.uid() is not None and st.op not in ("ite", "icmp"):      # an ite statement's uid names its selector node
            names[st.dst] = st.uid()
    for later, earlier in case.meta.get("ranks", []):
        ul, ue_ = names.get(later), names.get(earlier)
        if ul in where and ue_ in where and where[ul][0][0] == where[ue_][0][0]:
            deps += 1
            if not where[ue_][0][1] < where[ul][0][1]:
                res.violations.append(Violation(f"rank dependency ignored: uid {ul} must rank after uid {ue_}"))
    res.counters["deps_checked"] = deps
    res.nontrivial = deps >= 5
    return res
