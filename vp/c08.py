"""C08 - feedback delivers each value exactly one smallest step later (sequence oracle on recorded streams + model)."""
from __future__ import annotations
from .runner import Result, Violation, scaled
from .gen_core import gen_case, ProgGen, UID, gen_script
from .prog import Case, S
from . import model as M
from .c03 import classify_with_emulations, compare_runs
from .c02 import compare_cycles

PROPERTY = "C08"
LEVEL = "exploration"
HARNESS = "hgdrive"
RULE = ("random programs with 1-3 feedback edges (self loops, mutually dependent loops, loops inside nested graphs, with and "
        "without initial value, writers ticking on consecutive smallest steps and with gaps, passive/damped readers) with a "
        "recorder on every producer port and every feedback reader port. Oracle: reader stream == [(start, init)] ++ "
        "[(t+1, v) for (t, v) in producer stream if t+1 < end], plus model equality of all runs and of the cycle set "
        "(quiescence of passive loops). Non-trivial: >= 3 delivered values; distinct by case text")
ASSUMPTIONS = ["recorders are ordinary sink nodes logging (time, value) from user code",
               "vp/model.py for the remaining nodes", "g++-12 -O1 build of the working tree with harness-side shims"]
FLOORS = {"deliveries_checked": {"quick": 3000, "thorough": 40000}, "loops": {"quick": 300, "thorough": 4000},
          "consecutive_step_writes": {"quick": 300, "thorough": 4000}, "quiescent_loops": {"quick": 4, "thorough": 60},
          "collection_deliveries_checked": {"quick": 500, "thorough": 8000},
          "deliveries_after_captured_error": {"quick": 60, "thorough": 1000}, "passive_active_twin_readers": {"quick": 15, "thorough": 250}}
BATCH = 25


def gen_fb_case(rng, name):
    c = Case(name, rng.choice([0, 0, 5]), 0)
    c.end = c.start + rng.choice([10, 20, 40])
    uid = UID()
    c.meta["fb"] = []           # (reader_rec_uid, producer_rec_uid, init|None, graph)

    def loops(gname, params, depth):
        st = []
        ports = list(params)
        for _ in range(rng.choice([1, 1, 2]) if not params else rng.choice([0, 1])):
            u = uid()
            c.scripts[u] = gen_script(rng, c.start, c.end)
            st.append(S(f"{gname}a{u}", "src", uid=u, mode=rng.choice([0, 1])))
            ports.append(f"{gname}a{u}")
        if rng.random() < 0.3:
            u = uid()
            st.append(S(f"{gname}k{u}", "ticker", uid=u, period=rng.choice([1, 2, 3]), count=rng.choice([2, 5, 9])))
            ports.append(f"{gname}k{u}")
        fbs = []
        for k in range(rng.choice([1, 1, 2, 3])):
            kw = {}
            if rng.random() < 0.6:
                kw["init"] = rng.randint(0, 9)
            nm = f"{gname}f{k}"
            st.append(S(nm, "fb", **kw))
            fbs.append((nm, kw.get("init")))
        body = []
        avail = ports + [f for f, _ in fbs]
        for k in range(rng.randint(1, 6)):
            op = rng.choice(["add2", "add2", "pass", "acc", "sample", "halfgate", "delay", "count"])
            ar = {"add2": 2, "pass": 1, "acc": 1, "sample": 2, "halfgate": 2, "delay": 1, "count": 1}[op]
            args = [rng.choice(avail) for _ in range(ar)]
            # passive reader of a feedback: the loop must become quiescent
            if op == "add2" and rng.random() < 0.3 and any(a in [f for f, _ in fbs] for a in args):
                args = [("~" + a) if a in [f for f, _ in fbs] else a for a in args]
                if all(a.startswith("~") for a in args):
                    args[0] = rng.choice(ports) if ports else args[0][1:]
                c.meta["passive_loop"] = True
            kw = dict(uid=uid())
            if op == "delay":
                kw["k"] = rng.choice([1, 2, 3])
            nm = f"{gname}x{k}"
            st.append(S(nm, op, *args, **kw))
            avail.append(nm)
            body.append(nm)
            if any(a.startswith("~") for a in args) and rng.random() < 0.5:
                # the same definition over the same ports and scalars, reading the feedback ACTIVELY, next to the passive
                # reader (wired before or after it): two different nodes - the passive loop must still become quiescent and
                # the active reader must still see every delivery
                twin = S(nm + "a", op, *[a.lstrip("~") for a in args], **kw)
                if rng.random() < 0.5:
                    st.insert(len(st) - 1, twin)
                else:
                    st.append(twin)
                avail.append(nm + "a")
                c.meta.setdefault("skip_uids", []).append(kw["uid"])
                c.meta["passive_active_twins"] = c.meta.get("passive_active_twins", 0) + 1
        if depth < 1 and rng.random() < 0.35:
            sid = len([g for g in c.graphs if g.startswith("sub")]) + (0 if gname == "main" else 1)
            sid = 1 + max([int(g[3:]) for g in c.graphs if g.startswith("sub")] + [-1])
            c.graphs[f"sub{sid}"] = []   # reserve
            arity = rng.choice([1, 1, 2])
            c.graphs[f"sub{sid}"] = loops(f"s{sid}", [f"p{i}" for i in range(arity)], depth + 1)
            nm = f"{gname}n"
            st.append(S(nm, rng.choice(["nested", "nested", "inline"]), *[rng.choice(avail) for _ in range(arity)], sid=sid))
            w = f"{gname}nw"
            st.append(S(w, "pass", nm, uid=uid()))
            avail.append(w)
            body.append(w)
        for nm, init in fbs:
            prod = rng.choice(body)
            st.append(S("", "bind", nm, prod))
            ru, pu = uid(), uid()
            st.append(S("", "rec", nm, uid=ru))
            st.append(S("", "rec", prod, uid=pu))
            c.meta["fb"].append((ru, pu, init))
        if params:
            st.append(S("", "RET", rng.choice(body)))
        return st

    c.graphs["main"] = loops("main", [], 0)
    return c


def gen_fb_try(rng, name):
    """A feedback loop inside a try_except body; a node ranked after the loop's writer, sink and both recorders throws in some
    of the cycles in which a value was written (the error is captured, the run continues): the written value must still arrive
    one step later, also when nothing else wakes the wrapped graph on that step."""
    c = Case(name, 0, rng.choice([20, 30, 45]))
    uid = UID()
    ua = uid()
    # sparse input: gaps after most ticks, so that only the feedback itself asks for the following step
    t, sc = rng.choice([0, 1]), []
    while t < c.end:
        sc.append((t, rng.randint(-20, 90)))
        t += rng.choice([1, 3, 4, 5, 7])
    c.scripts[ua] = sc
    init = rng.choice([None, 0, 3])
    kw = {} if init is None else {"init": init}
    uw, ur, ut = uid(), uid(), uid()
    body = [S("f", "fb", **kw), S("tot", "add2", "p0", "~f", uid=uid()), S("", "bind", "f", "tot"),
            S("pw", "pass", "tot", uid=uw), S("pr", "pass", "f", uid=ur), S("j", "add2", "pw", "~pr", uid=uid()),
            S("th", "thrower", "j", uid=ut), S("", "RET", "th")]
    c.graphs["sub0"] = body
    c.graphs["main"] = [S("a", "src", uid=ua, mode=rng.choice([0, 1])), S("r", "try", "a", sid=0), S("o", "tryout", "r", uid=uid()),
                        S("", "tryerr", "r", uid=uid()), S("", "rec", "o", uid=uid())]
    n_writes = len([1 for tt, _ in sc if tt < c.end])
    c.faults = [(ut, "eval", o) for o in sorted(rng.sample(range(1, max(2, n_writes) + 1), min(n_writes, rng.choice([1, 2, 4]))))]
    c.meta.update(kind="fbtry", fb=[(ur, uw, init)], thrower=ut)
    return c


def gen_collfb(rng, name):
    """Feedback over a collection shape: producer = scripted collection source, reader mirrored."""
    from .gen_coll import gen_cscript
    end = rng.choice([20, 35])
    c = Case(name, 0, end)
    sh = rng.choice(["tsl", "tsl", "tss", "tsd", "tsb", "lb", "dss"])
    c.cscripts[1] = gen_cscript(rng, sh, 0, end)
    c.meta.update(kind="collfb", shape=sh)
    c.graphs["main"] = [S("d", "csrc", shape=sh, uid=1), S("f", "cfb", shape=sh), S("", "bind", "f", "d"),
                        S("", "cmirror", "d", uid=10), S("", "cmirror", "f", uid=11)]
    return c


def generate(rng, tier, seed):
    n = scaled(400 if tier == "quick" else 6000)
    cases = [gen_fb_case(rng, f"c08_{seed}_{k}") for k in range(n)]
    cases += [gen_collfb(rng, f"c08_{seed}_coll{k}") for k in range(n // 3)]
    cases += [gen_fb_try(rng, f"c08_{seed}_try{k}") for k in range(n // 5)]
    # feedback loops inside the children of a keyed map (the owner must visit a child in the delivery cycle although only a
    # SIBLING key has an outer event then): decided by the C10 instance oracle (each instance == the function run alone)
    from .c10 import gen_case10
    got = k = 0
    while got < n // 8 and k < 40 * n:
        c = gen_case10(rng, f"c08_{seed}_mapfb{k}", k % 11)
        k += 1
        if any(st.op == "fb" for g, sts in c.graphs.items() if g.startswith("fn") or g.startswith("sub") for st in sts):
            c.meta["delegate"] = "c10"
            cases.append(c)
            got += 1
    return cases


def shift_lmt(d, by):
    if isinstance(d, dict):
        out = {k: shift_lmt(v, by) for k, v in d.items()}
        if "lmt" in out and isinstance(out["lmt"], int) and out["lmt"] >= 0:
            out["lmt"] = out["lmt"] + by
        return out
    if isinstance(d, list):
        return [shift_lmt(x, by) for x in d]
    return d


def check_collfb(case, tr):
    from .gen_coll import parse_dumps
    from .c20 import Differ, empty_structural, MECH_EMPTY, MECH_NULLFIELD
    res = Result(signature=case.text().split("\n", 1)[1])
    run = tr.runs[0]
    if tr.build_error or run.error:
        res.violations.append(Violation(f"build/run failed: {tr.build_error or run.error}"))
        return res
    dumps = parse_dumps(run)
    prod = {t: d for t, d, _ in dumps.get(10, [])}
    read = {t: d for t, d, _ in dumps.get(11, [])}
    V, known = [], {}
    df = Differ()
    prev_valid = False
    delivered = 0
    for t in sorted(prod):
        d = prod[t]
        if t + 1 >= case.end:
            continue
        if t + 1 not in read:
            if prev_valid and empty_structural(d):
                known.setdefault(MECH_EMPTY, f"producer ticked at t={t} with an empty structural delta; the feedback reader has no tick at t={t + 1}")
                df.diverged.add(())
            else:
                V.append(f"value written at t={t} (delta {d['d'][:60]!r}) was not delivered at t={t + 1}")
            prev_valid = prev_valid or bool(d["v"])
            continue
        delivered += 1
        df.cmp(d, shift_lmt(read[t + 1], -1), t)
        prev_valid = prev_valid or bool(d["v"])
    for mech, msg in df.out:
        if mech:
            known.setdefault(mech, msg)
        elif len(V) < 8:
            V.append("feedback reader differs from what was written one step earlier: " + msg)
    extra = sorted(t for t in read if t - 1 not in prod)
    if extra:
        V.append(f"feedback reader ticked at {extra[:6]} without a write one step earlier")
    for m in V[:5]:
        res.violations.append(Violation(m))
    for mech, msg in known.items():
        res.violations.append(Violation(msg, mech))
    res.counters = {"collection_deliveries_checked": delivered}
    res.nontrivial = delivered >= 3
    return res


def compare_all(case, run, mr):
    return compare_runs(case, run, mr) + compare_cycles(case, run, mr)


def check(case, tr):
    if case.meta.get("delegate") == "c10":
        from . import c10
        r = c10.check(case, tr)
        r.counters = {"map_children_with_feedback_cases": 1, "map_children_with_feedback_runs_compared": r.counters.get("instance_runs_compared", 0)}
        return r
    if case.meta.get("kind") == "collfb":
        return check_collfb(case, tr)
    res = Result(signature=case.text().split("\n", 1)[1])
    if tr.build_error:
        res.violations.append(Violation(f"valid program rejected at build: {tr.build_error}"))
        return res
    run = tr.runs[0]
    if run.error:
        res.violations.append(Violation(f"run failed: {run.error}"))
        return res
    streams = {}
    for ue in run.uevals():
        streams.setdefault(ue.uid, []).append((ue.t, ue.ins[0][3] if ue.ins else None, ue.ins[0][1] if ue.ins else None))
    delivered = consecutive = 0
    for ru, pu, init in case.meta["fb"]:
        W = [(t, v) for t, v, m in streams.get(pu, []) if m]
        D = [(t, v) for t, v, m in streams.get(ru, []) if m]
        exp = ([(case.start, init)] if init is not None else []) + [(t + 1, v) for t, v in W if t + 1 < case.end]
        # a write at `start` and an initial value both target... init is delivered AT start, the write at start arrives at start+1
        delivered += len(exp)
        consecutive += sum(1 for (a, _), (b, _) in zip(W, W[1:]) if b == a + 1)
        if D != exp:
            lost = [x for x in exp if x not in D]
            extra = [x for x in D if x not in exp]
            res.violations.append(Violation(f"feedback reader stream {D[:8]} != producer stream shifted by one step {exp[:8]} "
                                            f"(lost {lost[:4]}, unexpected {extra[:4]})"))
        same_cycle = set(t for t, _ in W) & set(t for t, _ in D if (t, _) and False)
    if case.meta.get("kind") == "fbtry":
        throws = sum(1 for _, k, tk in run.events if k == "u.throw")
        res.counters = {"deliveries_checked": delivered, "loops": 1, "consecutive_step_writes": consecutive,
                        "deliveries_after_captured_error": throws}
        res.nontrivial = delivered >= 3 and throws >= 1
        return res
    flat = M.flatten(case)
    mr = M.simulate(flat)
    mism = compare_all(case, run, mr)
    if mism:
        mr, vs = classify_with_emulations(case, flat, run, mism, compare_all)
        res.violations += vs
    quiescent = 0
    if case.meta.get("passive_loop") and mr.cycles and mr.cycles[-1] < case.end - 3:
        quiescent = 1
    res.counters = {"deliveries_checked": delivered, "loops": len(case.meta["fb"]), "consecutive_step_writes": consecutive,
                    "quiescent_loops": quiescent, "runs_compared": len(mr.runs),
                    "passive_active_twin_readers": case.meta.get("passive_active_twins", 0)}
    res.nontrivial = delivered >= 3
    return res
