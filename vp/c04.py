"""C04 - modified / valid / last-modified-time tell the truth (passive probes woken every cycle vs the write log)."""
from __future__ import annotations
from .runner import Result, Violation, scaled
from .gen_coll import gen_coll_case, parse_dumps, write_log
from .collmodel import Node, SHAPES, dump_value, _key

PROPERTY = "C04"
LEVEL = "exploration"
HARNESS = "hgdrive"
RULE = ("scripted write histories (several writes in one cycle, gaps, invalidations of TS, child-only writes, key churn) over "
        "TS, TSS, TSD<Int,TS>, TSD<Int,TSS>, TSD<Str,TSB>, TSD<Int,TSD>, TSL<TS,3>, TSL<TSB,2>, TSB{TS,TSS}, TSW; two probe "
        "nodes per output at different ranks with PASSIVE inputs are woken every smallest step by a dense clock and log, for "
        "the endpoint and recursively every child, valid / all_valid / modified / last_modified_time / value / readable delta. "
        "Oracle from the producer's write log alone: modified(t) iff written at t (parents iff a child was), "
        "last_modified_time = latest write <= t, valid from first write until invalidation, both probes and the tick-driven "
        "mirror agree, delta readable only in the producing cycle. Non-trivial: >= 10 probe cycles with >= 1 endpoint both "
        "valid and unmodified; distinct by case text")
ASSUMPTIONS = ["the write log is emitted by the scripted source right before it mutates its output",
               "vp/collmodel.py tracks per-endpoint write times from that log",
               "g++-12 -O1 build of the working tree with harness-side shims"]
FLOORS = {"dynamic_list_element_invalidations": {"quick": 8, "thorough": 150}, "endpoint_checks": {"quick": 80000, "thorough": 1200000}, "quiet_cycle_checks": {"quick": 20000, "thorough": 300000},
          "invalidations": {"quick": 20, "thorough": 300}, "probe_pairs_agree": {"quick": 5000, "thorough": 80000},
          "window_clears": {"quick": 20, "thorough": 500}}
BATCH = 15


def generate(rng, tier, seed):
    from . import gen_coll
    gen_coll.WINDOW_CLEARS = True
    gen_coll.WHOLE_SET_ASSIGN = True
    gen_coll.CONTAINER_INVALIDATE = True
    try:
        return _generate(rng, tier, seed)
    finally:
        gen_coll.WINDOW_CLEARS = False
        gen_coll.WHOLE_SET_ASSIGN = False
        gen_coll.CONTAINER_INVALIDATE = False


def _generate(rng, tier, seed):
    n = scaled(200 if tier == "quick" else 3000)
    cases = []
    for k in range(n):
        cases.append(gen_coll_case(rng, f"c04_{seed}_{k}", probes=True, allow_invalidate=True))
    # consumers bound through a reference (conditional selection over sets / dictionaries and over sibling list elements):
    # the consumer must see the selected producer's value, flags and per-tick delta - the C13 monitors, counted here too
    from .c13 import gen_coll_ref, gen_sibling_ref
    for k in range(n // 4):
        cases.append(gen_coll_ref(rng, f"c04_{seed}_ref{k}") if k % 3 else gen_sibling_ref(rng, f"c04_{seed}_sib{k}"))
    return cases


MECH = "input-delta-readable-outside-producing-cycle"


def walk(node, d, t, path, out, C, parent_ticked, is_child=False):
    """Compare flags of one endpoint; recurse. Appends (mechanism, message) to out."""
    C["endpoint_checks"] = C.get("endpoint_checks", 0) + 1
    emod = node.lmt == t
    if bool(d["m"]) != emod:
        out.append((None, f"{path} t={t}: modified={d['m']} but the producer {'wrote' if emod else 'did not write'} it in this cycle"))
    if d["lmt"] != node.lmt:
        out.append((None, f"{path} t={t}: last_modified_time={d['lmt']} but the latest write was at {node.lmt}"))
    if bool(d["v"]) != node.valid():
        out.append((None, f"{path} t={t}: valid={d['v']} but expected {node.valid()} (lmt {node.lmt})"))
    if bool(d["av"]) != node.all_valid():
        out.append((None, f"{path} t={t}: all_valid={d['av']} but expected {node.all_valid()}"))
    if node.valid() and not emod:
        C["quiet_cycle_checks"] = C.get("quiet_cycle_checks", 0) + 1
    # a per-tick delta is readable only during the cycle that produced it
    if not emod:
        readable = d["d"] not in ("<none>",)
        lists = [x for x in ("add", "rem", "modk", "modi", "dk") if d.get(x)]
        if lists:
            out.append((None, f"{path} t={t}: delta parts {lists} are non-empty in a cycle without a write"))
        elif readable and node.kind in ("ts",):
            # known finding F6 covers exactly: children of a structure/dictionary, and endpoints that hold no value
            # (never written or invalidated). A valid top-level TS with a readable delta in a quiet cycle is NOT covered.
            mech = MECH if (is_child or not node.valid()) else None
            out.append((mech, f"{path} t={t}: delta_value() is readable ({d['d']!r}) although the endpoint was not written in this cycle"
                              f"{' (its parent was)' if parent_ticked else ''}"))
    if node.kind == "tsw" and "hasrem" in d:
        # what fell out of the window / that it was cleared is a per-tick delta too: readable in the producing cycle only
        C["window_delta_checks"] = C.get("window_delta_checks", 0) + 1
        ev = node.evicted.get(t)
        if bool(d["hasrem"]) != (ev is not None):
            out.append((None, f"{path} t={t}: has_removed_value={d['hasrem']} (removed_value={d['remv']}) but "
                              f"{'the push of this cycle evicted ' + str(ev) if ev is not None else 'nothing was evicted in this cycle'}"))
        elif ev is not None and str(d["remv"]) != str(ev):
            out.append((None, f"{path} t={t}: removed_value={d['remv']} but the value evicted in this cycle is {ev}"))
        if bool(d["cleared"]) != (t in node.cleared_at):
            out.append((None, f"{path} t={t}: cleared={d['cleared']} but the window was {'cleared' if t in node.cleared_at else 'not cleared'} in this cycle"))
        if t in node.cleared_at:
            C["window_clears"] = C.get("window_clears", 0) + 1
        if dump_value(d) != node.value():
            out.append((None, f"{path} t={t}: window holds {dump_value(d)} != expected {node.value()}"))
    if node.valid() and node.kind != "tsw":
        val = dump_value(d)
        if val != node.value():
            out.append((None, f"{path} t={t}: value {str(val)[:80]} != expected {str(node.value())[:80]}"))
    k = node.kind
    if k == "tsd":
        live = set(_key(x) for x in d["items"])
        if live != set(node.children):
            out.append((None, f"{path} t={t}: live keys {sorted(live, key=str)} != expected {sorted(node.children, key=str)}"))
        for kk, cd in d["items"].items():
            ch = node.children.get(_key(kk))
            if ch is not None:
                walk(ch, cd, t, f"{path}[{kk}]", out, C, emod, True)
    elif k in ("tsl", "tsb"):
        if k == "tsl" and emod and d.get("dk") is not None:
            # the list's own delta must name exactly the children that were written in this cycle
            C["list_delta_index_checks"] = C.get("list_delta_index_checks", 0) + 1
            want = {i for i, ch in enumerate(node.children) if ch.lmt == t}
            if node.shape[1] == 0:
                # a dynamic list names every element that was mutated in the cycle - written or invalidated on its own
                want = set(getattr(node, "_cycle_ops", {}).get(t, {}))
            if set(d["dk"]) != want:
                f32 = "dynamic-list-delta-drops-sibling-after-child-renotifies" if node.shape[1] == 0 and t in getattr(node, "renotified", ()) else None
                out.append((f32, f"{path} t={t}: the list's delta lists indices {sorted(d['dk'])} but the children written in this cycle are {sorted(want)}"))
        if len(d["ch"]) != len(node.children):
            out.append((None, f"{path} t={t}: list has {len(d['ch'])} elements, expected {len(node.children)}"))
        for i, (ch, cd) in enumerate(zip(node.children, d["ch"])):
            walk(ch, cd, t, f"{path}.{i}", out, C, emod, True)


def check(case, tr):
    res = Result(signature=case.text().split("\n", 1)[1])
    if tr.build_error:
        res.violations.append(Violation(f"valid program rejected at build: {tr.build_error}"))
        return res
    if case.meta.get("kind") in ("coll", "sibling"):
        from .c13 import check_coll, check_sibling
        return check_coll(case, tr) if case.meta["kind"] == "coll" else check_sibling(case, tr)
    run = tr.runs[0]
    if run.error:
        res.violations.append(Violation(f"run failed: {run.error}"))
        return res
    dumps = parse_dumps(run)
    writes = write_log(run)
    C = {}
    out = []
    quiet_cases = 0
    for src in case.meta["sources"]:
        wl = dict((t, ops) for t, ops in writes.get(src["uid"], []))
        C["invalidations"] = C.get("invalidations", 0) + sum(1 for ops in wl.values() for o in ops if o.endswith("i"))
        C["dynamic_list_element_invalidations"] = C.get("dynamic_list_element_invalidations", 0) + \
            (sum(1 for ops in wl.values() for o in ops if o.endswith("]i")) if src["shape"] == "dl" else 0)
        C["container_invalidations"] = C.get("container_invalidations", 0) + sum(1 for ops in wl.values() for o in ops if o == "I")
        streams = [dict((t, d) for t, d, _ in dumps.get(p, [])) for p in src["probes"]]
        mirror = dict((t, d) for t, d, _ in dumps.get(src["mirrors"][0], []))
        node = Node(SHAPES[src["shape"]])
        for t in range(case.start, case.end):
            if t in wl:
                for op in wl[t]:
                    node.apply(op, t)
            seen = []
            for pi, st in enumerate(streams):
                if t not in st:
                    out.append((None, f"probe {src['probes'][pi]} was not woken at t={t}"))
                    continue
                d = st[t]
                if "error" in d:
                    out.append((None, f"probe {src['probes'][pi]} t={t}: reading the input threw {d['error']}"))
                    continue
                walk(node, d, t, f"uid{src['probes'][pi]}", out, C, False)
                seen.append(d)
            if len(seen) == 2:
                C["probe_pairs_agree"] = C.get("probe_pairs_agree", 0) + 1
                if seen[0] != seen[1]:
                    out.append((None, f"two consumers of the same output disagree at t={t}: {str(seen[0])[:120]} vs {str(seen[1])[:120]}"))
            if t in mirror and seen and mirror[t] != seen[0]:
                out.append((None, f"tick-driven and clock-driven consumers of the same output disagree at t={t}"))
    seen_mech = set()
    for mech, msg in out:
        if mech is not None:
            if mech in seen_mech:
                continue
            seen_mech.add(mech)
        if len(res.violations) < 8:
            res.violations.append(Violation(msg, mech))
    res.counters = C
    res.nontrivial = C.get("quiet_cycle_checks", 0) >= 10
    return res
