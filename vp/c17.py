"""C17 - real-time loop never runs early, never drops a wake-up, always stops (timer/stop scenarios + phase-log verdicts)."""
from __future__ import annotations
import json, os, random, time
from .runner import Inconclusive, ensure_build, REPLAYS, write_evidence, sig_hash, scaled
from .rt import Scenario, run_scenarios

PROPERTY = "C17"
LEVEL = "exploration"
RULE = ("real-time runs of 1-5 self-scheduling timer nodes (relative, absolute, wall-clock alarms, alarms already due when "
        "requested, self re-arming chains down to consecutive short steps) x run windows (start in the past so the graph lags, "
        "end time reached while timers are pending, idle graph) x stop requests from a controller thread swept across the "
        "loop's wait/evaluate phases (millisecond + microsecond offsets) x wait slices x seeded delays at the wait / stop hook "
        "points. Oracle: evaluation times strictly increase; every request due before the end (and before a stop) is evaluated "
        "at exactly its logical time and never before the wall clock reached it; already-due alarms fire on the next cycle; "
        "after request_stop() returns at most one further cycle begins and run() returns (a run that stays in the wait phase "
        "after a stop is a violation witnessed by the phase log); the run returns when the end time is reached. Non-trivial: "
        ">= 3 timer evaluations or a stop that landed while the loop was waiting; distinct by scenario text")
ASSUMPTIONS = ["liveness is restated as bounded progress; a watchdog timeout without phase evidence is inconclusive, never a violation",
               "a node reads the wall clock after the loop did, so wall_in_node >= evaluation time is a sound 'never early' check",
               "g++-12 -O1 build of the working tree with harness-side shims"]
FLOORS = {"timer_evaluations": {"quick": 1500, "thorough": 30000}, "requests_honoured": {"quick": 1200, "thorough": 25000},
          "stops_checked": {"quick": 40, "thorough": 800}, "stops_while_waiting": {"quick": 15, "thorough": 300},
          "due_alarms": {"quick": 20, "thorough": 500}, "lagging_runs": {"quick": 20, "thorough": 400},
          "pushes_while_waiting_checked": {"quick": 300, "thorough": 5000}, "idle_stops_checked": {"quick": 8, "thorough": 150}, "stops_requested_during_the_start_phase": {"quick": 5, "thorough": 150}, "relative_wall_alarms_requested_while_lagging": {"quick": 4, "thorough": 120}, "lagging_bursts_of_1024_steps": {"quick": 5, "thorough": 100},
          "push_source_timers_honoured": {"quick": 25, "thorough": 400}, "push_source_timers_with_earlier_push": {"quick": 10, "thorough": 150}}


def gen(rng, k, seed):
    timers = []
    for _ in range(rng.choice([1, 2, 3, 5])):
        kind = rng.choice(["rel", "abs", "wall", "wrel", "due", "chain", "chain"])      # wrel: a wall-clock alarm requested as a delay
        if kind == "chain":
            timers.append(f"chain:{rng.choice([1, 2, 50, 300, 2000, 7000])}:{rng.choice([3, 10, 40])}")
        elif kind == "due":
            timers.append(f"due:{rng.choice([1, 500, 20000])}")
        else:
            timers.append(f"{kind}:{rng.choice([100, 900, 4000, 15000, 45000])}")
    kv = dict(kind="timers", timers=";".join(timers), end_ms=rng.choice([20, 50, 120]),
              start_past_ms=rng.choice([0, 0, 0, 5, 30]), seed=rng.randrange(1 << 30))
    r = rng.random()
    if r < 0.45:
        kv["stop"] = f"afterms:{rng.choice([0, 1, 3, 8, 25])}:{rng.randrange(0, 1000)}"
    else:
        kv["stop"] = "none"
    if rng.random() < 0.08:
        # a lagging run (its whole window lies in the past) that first works through a long burst of consecutive smallest-step
        # cycles and then still owes timers that fall due before the end time: late, never dropped
        n = rng.choice([600, 1000, 1023, 1024])      # (longer bursts are the run the property allows to be cut short)
        kv.update(timers=f"chain:1:{n};rel:{rng.choice([5000, 9000])};abs:{rng.choice([12000, 15000])};chain:1000:5",
                  end_ms=20, start_past_ms=rng.choice([30, 100]), stop="none")
        kv.pop("delays", None)
        kv["lag_burst"] = 1
        return Scenario(f"c17_{seed}_{k}", kv)
    if rng.random() < 0.12:
        # the stop request arrives while the graph is still STARTING: from a node's own start hook, or from another thread while a
        # start hook is slow. The run must end without working through its window (at most one cycle after the request)
        n = len(timers)
        kv["stop"] = f"instart:{rng.randrange(n)}" if rng.random() < 0.5 else f"slowstart:{rng.randrange(n)}:{rng.choice([5, 20])}"
        kv.update(end_ms=rng.choice([300, 600]), start_past_ms=0)
        if not any(t.startswith("chain") for t in timers):
            kv["timers"] = kv["timers"] + ";chain:2000:100"
        kv["stop_in_start"] = 1
        return Scenario(f"c17_{seed}_{k}", kv)
    if rng.random() < 0.15:
        # a long, mostly idle run stopped early: the only thing that can end it in time is the stop request itself
        kv.update(timers=f"rel:{rng.choice([100, 900])}", end_ms=4000, stop=f"afterms:{rng.choice([5, 20, 60])}:{rng.randrange(0, 1000)}")
        kv["idle_stop"] = 1
    elif rng.random() < 0.4:
        kv["slice_us"] = rng.choice([100, 1000, 20000])
    if rng.random() < 0.5:
        ds = []
        for h in rng.sample(["rt.wait.enter", "rt.wait.leave", "rt.stop.before_lock", "rt.stop.before_notify"], rng.choice([1, 2])):
            ds.append(f"{h}:{rng.choice([50, 300, 2000])}:{rng.choice([1, 2, 5])}")
        kv["delays"] = ",".join(ds)
    return Scenario(f"c17_{seed}_{k}", kv)


def gen_push(rng, k, seed):
    """'a value pushed while the loop is waiting is never missed': sparse producers (the loop goes back to its wait between
    sends) on small bounded queues with blocking and non-blocking sends - decided by the C16 history checker."""
    from . import c16
    sc = c16.gen(rng, k, seed)
    sc.name = f"c17_{seed}_p{k}"
    sc.kv.update(policy=rng.choice(["queue", "queue", "burst"]), cap=rng.choice([1, 1, 2]), blocking=rng.choice([1, 1, 0]),
                 producers=rng.choice([1, 2, 3]), msgs=rng.choice([20, 40, 80]), pacing=rng.choice(["sleep:200", "sleep:20", "rand", "yield"]),
                 stop="drain")
    if k % 3 == 2:
        # stopped while SEVERAL producers are parked in send_blocking on a full bounded queue (slow consumer): every one of them
        # is released by the stop and run() returns
        sc.kv.update(policy="queue", cap=rng.choice([1, 2]), blocking=1, producers=rng.choice([2, 3, 4]), msgs=600, pacing="spin",
                     stop=f"afterms:{rng.choice([3, 8, 15])}", delays=f"ps.eval.after_emit:{rng.choice([400, 1500])}:1")
        sc.kv.pop("sources", None)
        sc.kv.pop("caps", None)
        sc.kv["parked_producers"] = 1
    sc.kv["delegate"] = "c16"
    return sc


def gen_pstimer(rng, k, seed):
    """A push source that also owns timers (scheduler extension, wake-ups armed from its start hook), alone or next to a second
    plain push source: values are pushed BEFORE the timers fall due, so the source is evaluated for the push while its own slot
    still holds a future time. The run ends at its end time, every armed wake-up inside the window is owed at exactly its time."""
    end_ms = rng.choice([80, 120, 160])
    nt = rng.choice([1, 2, 3])
    timers = sorted(rng.sample(range(20000, (end_ms - 15) * 1000, 1000), nt))
    kv = dict(kind="pstimer", timers=",".join(str(t) for t in timers), msgs=rng.choice([0, 1, 3, 6, 12]), gap_us=rng.choice([2000, 5000, 9000]),
              two=rng.choice([0, 1]), end_ms=end_ms, seed=rng.randrange(1 << 30))
    if rng.random() < 0.4:
        kv["delays"] = ",".join(f"{h}:{rng.choice([50, 300])}:{rng.choice([1, 2, 5])}" for h in rng.sample(["rt.wait.enter", "rt.wait.leave"], 1))
    return Scenario(f"c17_{seed}_pt{k}", kv)


def check(sc, tr, rc):
    if sc.kv.get("kind") == "pstimer" and tr is not None:
        # the evaluations of the push source for pushed values are not timer evaluations: only the armed times are judged
        import copy
        tr = copy.copy(tr)
        armed = {r[2] for r in tr.requests}
        pushes_before = sum(1 for d in tr.deliveries if any(d[0] < w for w in armed))
        tr.timers = [t for t in tr.timers if t[1] in armed or t[2] < t[1]]       # (an early evaluation is still a violation)
        V, C, verdict = _check(sc, tr, rc)
        C["push_source_timers_honoured"] = C.get("requests_honoured", 0)
        C["push_source_timers_with_earlier_push"] = 1 if pushes_before else 0
        return V, C, verdict
    return _check(sc, tr, rc)


def _check(sc, tr, rc):
    if sc.kv.get("delegate") == "c16":
        from . import c16
        V, C, verdict = c16.check(sc, tr, rc)
        return V, {"pushes_while_waiting_checked": C.get("sends_while_loop_waiting", 0), "push_deliveries_checked": C.get("deliveries_checked", 0),
                   "stops_with_parked_blocking_producers": 1 if sc.kv.get("parked_producers") and tr is not None and tr.run is not None else 0,
                   "_known": []}, verdict
    V, C = [], {}
    kv = sc.kv
    end_us = int(kv["end_ms"]) * 1000
    past_us = int(kv.get("start_past_ms", 0)) * 1000
    if tr is None:
        return [f"no trace (rc={rc})"], C, "inconclusive"
    if tr.run is None:
        if tr.stop is not None:
            waits = [h for h in tr.hooks if h[1].startswith("rt.wait")]
            V.append(f"run() did not return although request_stop() returned at {tr.stop[1]} ns; loop phase log tail: {[(h[1], h[2]) for h in waits[-3:]]}")
            return V, C, "violation"
        return [f"run did not finish (rc={rc}) and no stop was requested"], C, "inconclusive"
    if tr.run[2] != "ok":
        V.append(f"run failed: {tr.errors[:2]}")
    T = sorted(tr.timers, key=lambda x: x[3])
    C["timer_evaluations"] = len(T)
    # evaluation times strictly increase from cycle to cycle
    cyc = []
    for t in T:
        if not cyc or cyc[-1] != t[1]:
            cyc.append(t[1])
    for a, b in zip(cyc, cyc[1:]):
        if not a < b:
            V.append(f"evaluation time went from {a} to {b}")
            break
    # never early
    for lab, et, wall, ts, kind in T:
        if wall < et:
            V.append(f"{lab} evaluated for logical time {et} us when the wall clock was only at {wall} us")
            break
        if et >= end_us:
            V.append(f"{lab} evaluated at {et} us, at/after the end time {end_us} us")
            break
    stop_ret = tr.stop[1] if tr.stop else None
    run_ret = tr.run[1]
    # every request due inside the window is evaluated at exactly its time (unless the run was stopped first)
    evals = {}
    for lab, et, wall, ts, kind in T:
        evals.setdefault(lab, []).append((et, ts))
    honoured = due_alarms = 0
    stop_call = tr.stop[0] if tr.stop else None
    last_cycle_before_stop = max([t[1] for t in T if stop_call is None or t[3] < stop_call] + [-1])
    known = []
    for lab, made, when, kind, wall_at_req in tr.requests:
        if kind in ("due", "wall") and (past_us >= end_us or (wall_at_req is not None and wall_at_req >= end_us)):
            # known finding F14: the wall clock has already passed the end time when the alarm is requested
            if not evals.get(lab):
                known.append(f"{lab}: wall-clock alarm for {when} us (before the end time {end_us} us) was dropped: the wall clock "
                             f"was already beyond the end time when it was requested (run started {past_us} us in the past, wall clock "
                             f"at the request {wall_at_req} us), so the alarm was re-timed beyond the end time")
            continue
        if kind == "wall":
            # exact when still in the future at the request, else 'next cycle': never earlier than requested, and delivered
            got = [e for e in evals.get(lab, []) if e[0] >= when]
            if got:
                honoured += 1
            elif when < end_us - 2000 and stop_call is None:
                V.append(f"{lab}: wall-clock alarm for {when} us was never delivered (evaluations at {[e[0] for e in evals.get(lab, [])][:5]})")
            if any(e[0] < when for e in evals.get(lab, [])):
                V.append(f"{lab}: wall-clock alarm for {when} us fired early at {min(e[0] for e in evals.get(lab))} us")
            continue
        if kind == "due":
            due_alarms += 1
            got = evals.get(lab, [])
            if not got:
                if stop_call is None:
                    V.append(f"{lab}: wall-clock alarm already due when requested was never delivered")
                continue
            continue          # (how late it is delivered is not a verdict: "late if the graph lags" - and a loaded machine lags)
        if when >= end_us or when <= made:
            continue
        hit = [e for e in evals.get(lab, []) if e[0] == when]
        if hit:
            honoured += 1
            continue
        if stop_call is not None:
            continue          # the stop may legitimately have ended the run first
        near = [e[0] for e in evals.get(lab, [])]
        V.append(f"{lab}: wake-up requested for {when} us ({kind}) was not evaluated at that time (evaluations at {near[:6]})")
    C["requests_honoured"] = honoured
    C["due_alarms"] = due_alarms
    C["lagging_runs"] = 1 if past_us > 0 and T else 0
    C["lagging_bursts_of_1024_steps"] = 1 if kv.get("lag_burst") else 0
    C["relative_wall_alarms_requested_while_lagging"] = sum(1 for t in str(kv.get("timers", "")).split(";") if t.startswith("wrel")) if past_us > 0 and T else 0
    # stop: at most one further cycle begins after request_stop() returned, and run() returns
    if tr.stop and tr.stop[0] < tr.run[0]:
        # on a loaded machine the controller thread can call request_stop() before the main thread has entered run(): the
        # property is about stopping a run in progress, so such a scenario says nothing about it
        C["stops_before_run_entered"] = 1
    elif tr.stop:
        C["stops_checked"] = 1
        C["stops_requested_during_the_start_phase"] = 1 if kv.get("stop_in_start") else 0
        C["idle_stops_checked"] = 1 if kv.get("idle_stop") else 0
        later = sorted({t[1] for t in T if t[3] > stop_ret})
        if len(later) > 1:
            V.append(f"{len(later)} cycles ({later[:4]}) began after request_stop() had returned")
        lag_ms = (tr.run[1] - stop_ret) / 1e6
        if lag_ms > 1500 and not later:
            V.append(f"run() returned {lag_ms:.0f} ms after request_stop() had returned although no cycle was in progress (bounded "
                     f"progress: 1500 ms): the stop request was missed by the waiting loop")
        waits = sorted((h[2], h[1]) for h in tr.hooks if h[1] in ("rt.wait.enter", "rt.wait.leave"))
        state = None
        for ts, ph in waits:
            if ts > tr.stop[0]:
                break
            state = ph
        C["stops_while_waiting"] = 1 if state == "rt.wait.enter" else 0
    else:
        # the run ends when the end time is reached
        if len(tr.run) > 4:
            wall_end = tr.run[4]
            if wall_end < end_us - 50 and past_us == 0:
                V.append(f"run() returned at wall {wall_end} us, before the end time {end_us} us, without a stop request")
    C["_known"] = known
    return V, C, "violation" if V else "held"


def main(tier, seed, replay):
    t0 = time.time()
    try:
        exe = ensure_build("hgrt")
    except Inconclusive as e:
        print(f"INCONCLUSIVE property={PROPERTY} reason={e}")
        return 2
    rng = random.Random(f"C17/{seed}/{tier}")
    n = scaled(160 if tier == "quick" else 2500)
    if replay:
        rp = json.load(open(replay))
        scs = [Scenario(rp["scenario"]["name"], rp["scenario"]["kv"])]
    else:
        scs = [gen(rng, k, seed) for k in range(n)] + [gen_push(rng, k, seed) for k in range(n // 5)] + \
              [gen_pstimer(rng, k, seed) for k in range(n // 5)]
    results = run_scenarios(exe, scs, f"C17.{tier}.{seed}", workers=6 if tier == "quick" else 8, timeout=30)
    counters, hard, inconc = {}, [], []
    nontriv, samples = set(), []
    known_hits = []
    from .runner import load_known
    known = load_known()
    for sc, tr, rc, err, secs in results:
        V, C, verdict = check(sc, tr, rc)
        for m in C.pop("_known", []):
            known_hits.append((sc, m))
        for k, v in C.items():
            counters[k] = counters.get(k, 0) + v
        if verdict == "inconclusive":
            inconc.append(f"{sc.name}: {V[0]}")
        elif V:
            sc.observed = getattr(tr, "raw", "")
            hard.append((sc, V))
        if C.get("timer_evaluations", 0) >= 3 or C.get("stops_while_waiting"):
            nontriv.add(sig_hash(sc.text()))
        if len(samples) < 3 and C.get("timer_evaluations", 0) > 3:
            samples.append({"scenario": sc.text(), "counters": C, "seconds": round(secs, 3)})
    if not replay and (tier == "thorough" or os.environ.get("VERIF_TSAN") == "1"):
        # same scenario generator under -fsanitize=thread: data races in the queue / wait-notify protocol
        from .rt import tsan_pass
        try:
            sub = scs[: (40 if tier == "quick" else 400)]
            runs, reports, lock_order = tsan_pass(sub, f"%s.{tier}.{seed}" % PROPERTY)
            counters["tsan_scenarios_completed"] = runs
            counters["tsan_reports"] = len(reports)
            counters["tsan_lock_order_reports"] = lock_order
            for rep in reports[:5]:
                hard.append((sub[0], [f"ThreadSanitizer: {rep['kind']} in {' <- '.join(f.split(' ', 1)[-1][:90] for f in rep['frames'][:3])}",
                                      rep["text"]]))
            if runs < len(sub) // 2:
                inconc.append(f"only {runs} of {len(sub)} scenarios completed under ThreadSanitizer")
        except Inconclusive as e:
            inconc.append(f"tsan build: {e}")
    wall = time.time() - t0
    coverage = {"evaluations": len(results), "distinct_nontrivial": len(nontriv), "rule": RULE, "samples": samples or [{"scenario": scs[0].text()}],
                "monitor_counters": counters, "inconclusive_notes": inconc[:5]}
    if not replay:
        write_evidence(PROPERTY, tier, seed, LEVEL, coverage, ASSUMPTIONS, wall, len(hard))
    MECH = "wall-alarm-dropped-when-wall-clock-past-end"
    if known_hits:
        if MECH in known:
            print(f"KNOWN-FINDING: property={PROPERTY} {MECH}: {known_hits[0][1]} ({len(known_hits)} alarm(s), e.g. {known_hits[0][0].name})")
        else:
            hard += [(sc, [m]) for sc, m in known_hits]
    if hard:
        os.makedirs(os.path.join(REPLAYS, PROPERTY), exist_ok=True)
        for sc, V in hard[:5]:
            path = os.path.join(REPLAYS, PROPERTY, f"{sc.name}.json")
            json.dump({"property": PROPERTY, "scenario": {"name": sc.name, "kv": sc.kv}, "violation": {"what": V[0], "all": V[:10]},
                       "observed_trace": getattr(sc, "observed", "").splitlines()}, open(path, "w"), indent=1)
            print(f"VIOLATION property={PROPERTY} replay={path}")
            for m in V[:3]:
                print(f"  {m}")
        print(f"{PROPERTY}: {len(hard)} violating scenario(s) of {len(results)} ({wall:.1f}s)")
        return 1
    low = [k for k, fl in FLOORS.items() if counters.get(k, 0) < fl[tier]] if not replay else []
    if len(inconc) > max(2, len(results) // 20) or low:
        print(f"INCONCLUSIVE property={PROPERTY} " + "; ".join(inconc[:3] + [f"counter {k}={counters.get(k, 0)} below floor" for k in low]))
        return 2
    print(f"{PROPERTY}: held on {len(results)} real-time scenarios ({wall:.1f}s) counters={json.dumps(counters)}")
    return 0
