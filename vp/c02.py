"""C02 - simulation honours every wake-up at exactly its time, in order; no phantom cycles."""
from __future__ import annotations
from .runner import Result, Violation, scaled
from .gen_core import gen_case
from . import model as M
from .c03 import classify_with_emulations

PROPERTY = "C02"
LEVEL = "exploration"
HARNESS = "hgdrive"
RULE = ("random programs rich in self-scheduling nodes (scripted sources scheduling from start and from eval, tickers on "
        "consecutive smallest steps, delay timers, scheduler-script nodes with tagged/untagged/cancelled requests, feedback, "
        "timers inside nested children up to depth 3) x run windows whose start/end fall on, before and after requests. "
        "Non-trivial: >= 4 honoured requests and >= 3 cycles; distinct by case text")
ASSUMPTIONS = ["requests are logged by the instrumented nodes immediately before the scheduler call is made",
               "vp/model.py pending-set semantics (SchedModel) follow the documented scheduler contract",
               "g++-12 -O1 build of the working tree with harness-side shims"]
FLOORS = {"requests_honoured": {"quick": 3000, "thorough": 40000}, "cycles_compared": {"quick": 4000, "thorough": 50000},
          "next_time_checks": {"quick": 4000, "thorough": 50000}, "requests_beyond_end": {"quick": 50, "thorough": 500},
          "nested_requests": {"quick": 200, "thorough": 2000}, "dynamic_child_runs_compared": {"quick": 1500, "thorough": 25000},
          "combiner_requests_honoured": {"quick": 2000, "thorough": 30000},
          "map_child_start_requests_honoured": {"quick": 100, "thorough": 1500},
          "list_map_child_requests_honoured": {"quick": 300, "thorough": 5000},
          "try_child_requests_honoured_after_caught_error": {"quick": 200, "thorough": 3000},
          "mesh_instance_requests_honoured": {"quick": 300, "thorough": 5000}, "mesh_instances_resumed_after_a_pause": {"quick": 40, "thorough": 600}}
BATCH = 25


def generate(rng, tier, seed):
    n = scaled(500 if tier == "quick" else 8000)
    cases = []
    for k in range(n):
        c = gen_case(rng, f"c02_{seed}_{k}", allow_sched=True, max_depth=3 if rng.random() < 0.3 else 2)
        cases.append(c)
    # wake-ups asked for inside DYNAMIC children (switch branches, map instances with timers) while the owning node is woken
    # for other reasons: every instance run of the standalone oracle that is not input-driven is a wake-up honoured at its time
    from .c12 import gen_case12
    from .c10 import gen_case10
    for k in range(n // 8):
        c = gen_case12(rng, f"c02_{seed}_sw{k}", k) if k % 2 else gen_case10(rng, f"c02_{seed}_mp{k}", k)
        c.meta["delegate"] = "c12" if "spec" in c.meta else "c10"
        cases.append(c)
    for k in range(n // 4):
        cases.append(gen_reduce_timers(rng, f"c02_{seed}_rd{k}"))
    for k in range(n // 8):
        cases.append(gen_map_start_timers(rng, f"c02_{seed}_ms{k}"))
    for k in range(n // 8):
        cases.append(gen_listmap_timers(rng, f"c02_{seed}_lm{k}"))
    for k in range(n // 8):
        cases.append(gen_try_timers(rng, f"c02_{seed}_tt{k}"))
    for k in range(n // 8):
        cases.append(gen_mesh_timers(rng, f"c02_{seed}_mt{k}"))
    return cases


def gen_reduce_timers(rng, name):
    """A reduction whose combiner graphs contain self-scheduling nodes: the reduce node owns ONE schedule slot for all its
    combiners, so every evaluation (value tick, key added or removed, tree rebuilt or grown) must leave the earliest pending
    combiner wake-up armed. Oracle: trace only - every request made inside a combiner that is still alive at its time is
    honoured by an evaluation of the requesting node at exactly that time."""
    from .prog import Case, S
    from .c10 import gen_key_history
    end = rng.choice([30, 45, 60])
    c = Case(name, 0, end)
    hist = gen_key_history(rng, 0, end, rng.choice([4, 6, 9]))
    if rng.random() < 0.6:
        hist = [e for e in hist if "c" != e.split("|")[1]]
    if rng.random() < 0.5:
        # a stable tree of several combiners whose leaves keep ticking at different times: several different wake-ups are
        # pending in different combiners while the node is evaluated for value ticks
        keys = rng.sample(range(9), rng.choice([3, 4, 5, 7]))
        hist = ["1|" + ",".join(f"[{k}]={k * 1000 + 1}" for k in keys)]
        for t in sorted(rng.sample(range(2, end), min(end - 2, rng.choice([6, 10, 16])))):
            hist.append(f"{t}|" + ",".join(f"[{k}]={k * 1000 + t}" for k in rng.sample(keys, rng.choice([1, 1, 2]))))
    c.cscripts[1] = hist
    k1, k2 = rng.choice([3, 5, 10]), rng.choice([2, 7])
    c.graphs["fn1"] = [S("x", "sum2", "p0", "p1"), S("t1", "delay", "p0", uid=101, k=k1), S("t2", "delay", "x", uid=102, k=k2),
                       S("w", "pass", "t1", uid=103), S("", "RET", "x")]
    c.graphs["main"] = [S("d", "csrc", shape="tsd", uid=1), S("r", "reduce", "d", fn="fn2:1"), S("", "rec", "r", uid=50)]
    c.meta["kind2"] = "reduce_timers"
    return c


def gen_map_start_timers(rng, name):
    """A keyed map whose function arms its FIRST wake-up from a start hook for a future time only and does not read the mapped
    element: nothing in a new child is due in the cycle its key appears, so the request reaches the map node only through the
    creation path. Keys arrive at different times, some leave before their wake-ups fall due. Oracle: trace only (as for the
    reduction family) - every request made inside a child that is still alive at its time is honoured at exactly that time."""
    from .prog import Case, S
    from .c10 import gen_key_history
    end = rng.choice([30, 45])
    c = Case(name, 0, end)
    hist = gen_key_history(rng, 0, end, rng.choice([2, 3, 5]))
    if rng.random() < 0.5:
        hist = [e for e in hist if "c" != e.split("|")[1]]
    c.cscripts[1] = hist
    first = rng.choice([2, 3, 5])
    c.scripts[101] = [(first + j * rng.choice([2, 3]), 7 + j) for j in range(rng.choice([1, 3, 4]))]
    c.scripts[101] = sorted(dict(c.scripts[101]).items())
    body = [S("b", "src", uid=101, mode=rng.choice([0, 1]), rel=1), S("w", "pass", "b", uid=102)]
    if rng.random() < 0.4:
        body.append(S("dl", "delay", "w", uid=103, k=rng.choice([1, 2, 4])))
    c.graphs["fn0"] = body + [S("", "RET", "w")]
    c.graphs["main"] = [S("d", "csrc", shape="tsd", uid=1), S("m", "map", "d", fn="fn1:0"), S("", "cmirror", "m", uid=50)]
    c.meta["kind2"] = "reduce_timers"
    c.meta["family"] = "map_start_timers"
    return c


def gen_listmap_timers(rng, name):
    """map_ over a DYNAMIC list whose function schedules itself: the map node owns ONE schedule slot for all its children, so an
    evaluation made for one child (its own alarm, or a tick of its element) must leave the other children's pending alarms armed.
    Elements are appended and rewritten at different times. Oracle: trace only, as for the reduction family."""
    from .prog import Case, S
    end = rng.choice([30, 45])
    c = Case(name, 0, end)
    n, hist = 0, {}
    for t in sorted(rng.sample(range(1, end - 2), rng.choice([5, 8, 12]))):
        ops = []
        for _ in range(rng.choice([1, 1, 2])):
            i = n if (n == 0 or (n < 5 and rng.random() < 0.45)) else rng.randrange(n)
            n = max(n, i + 1)
            ops.append(f"[{i}]={i * 1000 + t}")
        hist[t] = ops
    c.cscripts[1] = [f"{t}|" + ",".join(ops) for t, ops in sorted(hist.items())]
    k1, k2 = rng.choice([2, 3, 5, 9]), rng.choice([1, 4, 7])
    c.graphs["fn0"] = [S("t1", "delay", "p0", uid=101, k=k1), S("t2", "delay", "t1", uid=102, k=k2), S("w", "pass", "t2", uid=103), S("", "RET", "w")]
    c.graphs["main"] = [S("d", "csrc", shape="dl", uid=1), S("m", "map", "d", fn="fn1:0"), S("", "cmirror", "m", uid=50)]
    c.meta["kind2"] = "reduce_timers"
    c.meta["family"] = "listmap_timers"
    return c


def gen_mesh_timers(rng, name):
    """mesh_ instances that hold a self-scheduling node BEFORE their mesh reference: in the cycle an instance first reads a peer that
    has to be created / evaluated first, it is PAUSED at the reference after the timer node has already re-armed itself and is
    resumed later in the same cycle; every wake-up armed before the pause is still owed. Oracle: trace only."""
    from .prog import Case, S
    end = rng.choice([24, 36, 48])
    c = Case(name, 0, end)
    nk = rng.choice([2, 3, 4, 6])
    keys = list(range(1, nk + 1))
    vals = {}
    for k in keys:
        vals.setdefault(0 if rng.random() < 0.6 else rng.choice([1, 2, 5]), []).append(f"[{k}]={k * 10}")
    for t in sorted(rng.sample(range(6, end), rng.choice([0, 2, 4]))):
        vals.setdefault(t, []).append(f"[{rng.choice(keys)}]={rng.randint(1, 99)}")
    links = {}
    for k in keys[1:]:
        if rng.random() < 0.85:
            # a higher key reads a lower one (created later in slot order or in a later cycle): the reader pauses
            links.setdefault(0, []).append(f"[{k}]={rng.randrange(1, k)}")
    c.cscripts[1] = [f"{t}|" + ",".join(ops) for t, ops in sorted(vals.items())]
    c.cscripts[2] = [f"{t}|" + ",".join(ops) for t, ops in sorted(links.items())]
    per = rng.choice([2, 3, 5, 7])
    c.graphs["fn0"] = [S("tk", "ticker", uid=101, period=per, count=rng.choice([4, 6, 9])), S("w", "pass", "tk", uid=102),
                       S("e", "pass", "p0", uid=100), S("l", "pass", "p1", uid=103), S("dep", "meshref", "l"),
                       S("g", "gate", "w", "dep", uid=105), S("h", "add2", "g", "e", uid=106), S("", "RET", "h")]
    c.graphs["main"] = [S("d", "csrc", shape="tsd", uid=1), S("k", "csrc", shape="tsd", uid=2), S("m", "mesh", "d", "k", fn="fn2:0"),
                        S("", "cmirror", "m", uid=50)]
    c.meta["kind2"] = "reduce_timers"
    c.meta["family"] = "mesh_timers"
    return c


def gen_try_timers(rng, name):
    """try_except around a sub-graph that holds self-scheduling nodes and a node that throws once: the exception is caught, the
    wake-ups still pending inside the child must be honoured afterwards (the owner re-arms from the abandoned cycle too)."""
    from .prog import Case, S
    end = rng.choice([24, 36])
    c = Case(name, 0, end)
    c.scripts[1] = [(t, t) for t in sorted(rng.sample(range(0, end), rng.choice([1, 2, 4])))]
    per = rng.choice([2, 3, 5])
    c.graphs["sub0"] = [S("tk", "ticker", uid=101, period=per, count=rng.choice([5, 8])), S("w", "pass", "tk", uid=102),
                        S("dl", "delay", "w", uid=103, k=rng.choice([1, 4])), S("q", "add2", "w", "p0", uid=104), S("", "RET", "w")]
    c.graphs["main"] = [S("a", "src", uid=1, mode=1), S("r_", "try", "a", sid=0), S("o_", "tryout", "r_", uid=300), S("", "tryerr", "r_", uid=301)]
    c.faults = [(rng.choice([102, 103]), "eval", rng.choice([1, 2, 3]))]
    c.meta["kind2"] = "reduce_timers"
    c.meta["family"] = "try_timers"
    return c


def root_cycle_info(run):
    cycles, nexts, slots = [], {}, {}
    for seq, kind, tk in run.events:
        if kind == "C<" and int(tk[0]) == 0:
            cycles.append(int(tk[1]))
        elif kind == "C>" and int(tk[0]) == 0:
            nexts[int(tk[1])] = int(tk[2])
            n = int(tk[3]) if len(tk) > 3 else 0
            slots[int(tk[1])] = [int(x) for x in tk[4:4 + n]]
    return cycles, nexts, slots


def compare_cycles(case, run, mr):
    """Root cycle times and, after every cycle, next_scheduled_time() against the model's pending set."""
    out = []
    got, nexts, slots = root_cycle_info(run)
    exp = mr.cycles
    if got != exp:
        extra = [t for t in got if t not in set(exp)]
        missing = [t for t in exp if t not in set(got)]
        out.append(f"root cycle times differ: phantom cycles at {extra[:6]}, dropped wake-ups at {missing[:6]}"
                   if (extra or missing) else f"cycle order differs: {got[:12]} vs {exp[:12]}")
        return out
    for t in got:
        e, g = mr.next_after.get(t), nexts.get(t)
        if e is None or g is None:
            continue
        g = M.INF if g == -2 else g
        if g != e:
            out.append(f"after cycle t={t} next_scheduled_time()={g} but the earliest pending request is "
                       f"{'none' if e == M.INF else e}")
    return out


def check(case, tr):
    if case.meta.get("delegate"):
        from . import c10, c12
        r = (c12 if case.meta["delegate"] == "c12" else c10).check(case, tr)
        r.counters = {"dynamic_child_cases": 1, "dynamic_child_runs_compared": r.counters.get("instance_runs_compared", 0),
                      "dynamic_child_timer_runs": r.counters.get("timer_runs_in_instances", 0)}
        return r
    if case.meta.get("kind2") == "reduce_timers":
        return check_reduce_timers(case, tr)
    return check_core(case, tr)


def check_reduce_timers(case, tr):
    res = Result(signature=case.text().split("\n", 1)[1])
    if tr.build_error or tr.runs[0].error:
        res.violations.append(Violation(f"build/run failed: {tr.build_error or tr.runs[0].error}"))
        return res
    run = tr.runs[0]
    cycles, evals_at, open_t, reqs, stopped = [], {}, {}, [], {}
    abandoned = set()
    entered = {}                   # (graph, node, cycle) -> evaluation brackets opened (2 = paused at a mesh reference and resumed)
    tnow = None
    for seq, kind, tk in run.events:
        if kind == "C<":
            gid, t = int(tk[0]), int(tk[1])
            open_t[gid] = t
            if gid == 0:
                cycles.append(t)
                tnow = t

        elif kind == "C>":
            open_t.pop(int(tk[0]), None)
        elif kind == "E<":
            gid, idx = int(tk[0]), int(tk[1])
            entered[(gid, idx, tnow)] = entered.get((gid, idx, tnow), 0) + 1
            if gid in open_t:
                evals_at.setdefault((gid, idx), set()).add(open_t[gid])
        elif kind == "u.req":
            reqs.append((int(tk[0]), int(tk[1]), int(tk[2]), int(tk[3]), int(tk[4]), tk[5]))
        elif kind == "G->":
            stopped[int(tk[0])] = tnow
        elif kind == "u.throw":
            abandoned.add(tnow)
    honoured = retired = 0
    for uid, gid, idx, t_made, t_when, phase in reqs:
        if t_when <= t_made or t_when >= case.end:
            continue
        if t_when in abandoned:
            continue                  # the cycle in which it fell due was abandoned by a (captured) exception before the node's turn
        if gid in stopped and stopped[gid] is not None and stopped[gid] <= t_when:
            retired += 1              # the combiner was retired before its wake-up fell due
            continue
        if t_when not in evals_at.get((gid, idx), ()):
            res.violations.append(Violation(f"wake-up requested at t={t_made} for t={t_when} by uid {uid} inside child graph {gid} (alive "
                                            f"at that time) was not honoured: {'no root cycle at that time' if t_when not in cycles else 'the node was not evaluated in that cycle'}"))
            if len(res.violations) >= 4:
                break
            continue
        honoured += 1
    res.counters = {"combiner_requests_honoured": honoured, "combiner_requests_retired": retired}
    if case.meta.get("family") == "try_timers":
        res.counters = {"try_child_requests_honoured_after_caught_error": honoured}
    if case.meta.get("family") == "listmap_timers":
        res.counters = {"list_map_child_requests_honoured": honoured}
    if case.meta.get("family") == "mesh_timers":
        res.counters = {"mesh_instance_requests_honoured": honoured,
                        "mesh_instances_resumed_after_a_pause": sum(1 for v in entered.values() if v >= 2)}
    if case.meta.get("family") == "map_start_timers":
        res.counters = {"map_child_start_requests_honoured": honoured, "map_child_requests_retired": retired}
    res.nontrivial = honoured >= 4
    return res


def check_core(case, tr):
    res = Result(signature=case.text().split("\n", 1)[1])
    if tr.build_error:
        res.violations.append(Violation(f"valid program rejected at build: {tr.build_error}"))
        return res
    run = tr.runs[0]
    if run.error:
        res.violations.append(Violation(f"run failed: {run.error}"))
        return res
    flat = M.flatten(case)
    mr = M.simulate(flat)
    mism = compare_cycles(case, run, mr)
    if mism:
        mr, vs = classify_with_emulations(case, flat, run, mism, compare_cycles)
        res.violations += vs
    # ---- trace-only checks -------------------------------------------------------------------
    cycles = []
    evals_at = {}        # (gid, idx) -> set of t evaluated (E< inside a bracket at t)
    open_t = {}
    nexts = {}
    slots = {}
    sched_uids = {st.uid() for g in case.graphs.values() for st in g if st.op == "sched"}
    reqs = []
    parents = {}
    for seq, kind, tk in run.events:
        if kind == "C<":
            gid, t = int(tk[0]), int(tk[1])
            open_t[gid] = t
            if gid == 0:
                cycles.append(t)
        elif kind == "C>":
            gid = int(tk[0])
            if gid == 0:
                nexts[int(tk[1])] = int(tk[2])
                n = int(tk[3]) if len(tk) > 3 else 0
                slots[int(tk[1])] = [int(x) for x in tk[4:4 + n]]
            open_t.pop(gid, None)
        elif kind == "E<":
            gid, idx = int(tk[0]), int(tk[1])
            if gid in open_t:
                evals_at.setdefault((gid, idx), set()).add(open_t[gid])
        elif kind == "u.req":
            reqs.append((int(tk[0]), int(tk[1]), int(tk[2]), int(tk[3]), int(tk[4]), tk[5]))
        elif kind == "G+":
            parents[int(tk[0])] = int(tk[1])
    for a, b in zip(cycles, cycles[1:]):
        if not a < b:
            res.violations.append(Violation(f"evaluation time did not strictly increase: {a} then {b}"))
    for t in cycles:
        if t < case.start or t >= case.end:
            res.violations.append(Violation(f"cycle at t={t} outside the run window [{case.start},{case.end})"))
    cyc = set(cycles)
    honoured = beyond = nested = 0
    for uid, gid, idx, t_made, t_when, phase in reqs:
        if uid in sched_uids:
            continue                      # cancellable: decided by the model comparison
        if t_when < t_made or (phase == "eval" and t_when <= t_made):
            continue                      # documented: ignored
        if t_when >= case.end:
            beyond += 1
            continue
        if t_when < case.start:
            continue
        if t_when not in cyc:
            res.violations.append(Violation(f"wake-up requested by uid {uid} at t={t_made} for t={t_when} was dropped or shifted: "
                                            f"no cycle at {t_when}"))
            continue
        if t_when not in evals_at.get((gid, idx), ()):
            res.violations.append(Violation(f"cycle at t={t_when} did not evaluate the requesting node uid {uid} ({gid}:{idx})"))
            continue
        honoured += 1
        if parents.get(gid, -1) >= 0:
            nested += 1
    # next_scheduled_time() must also agree with the per-node slots the graph exposes
    nchecks = 0
    for t in cycles:
        if t not in nexts:
            continue
        nchecks += 1
        g = M.INF if nexts[t] == -2 else nexts[t]
        fut = [x for x in slots.get(t, []) if x > t]
        m = min(fut) if fut else M.INF
        if m != g:
            res.violations.append(Violation(f"after cycle t={t} next_scheduled_time()={nexts[t]} disagrees with the per-node slots (min future {m})"))
    res.counters = {"requests_honoured": honoured, "requests_beyond_end": beyond, "nested_requests": nested,
                    "cycles_compared": len(cycles), "next_time_checks": nchecks}
    res.nontrivial = honoured >= 4 and len(cycles) >= 3
    return res
