"""C13 - reading through a reference equals reading its current target (model equality on reference-routing programs)."""
from __future__ import annotations
from .runner import Result, Violation, scaled
from .gen_core import gen_case
from . import model as M
from .c03 import classify_with_emulations, compare_runs, EMULATIONS, BOUNDARY_REF_MSG

PROPERTY = "C13"
LEVEL = "exploration"
HARNESS = "hgdrive"
RULE = ("random dataflow programs in which if_then_else selections (reference-shaped outputs) are wired between sources and "
        "instrumented consumers: several consumers below one reference, references feeding other selections, references passed "
        "into inlined and nested sub-graphs, conditions that re-tick with the same truth value, retargets to targets that ticked "
        "earlier / in the same cycle / never, retarget back; stdlib tsd[key] (getitem_) with a ticking key as the source of the "
        "reference (re-pointed by key ticks, emptied while the key is absent, re-bound when it appears; readers inline and "
        "inside nested graphs). Oracle (model): a consumer runs at t iff the reference was "
        "retargeted at t to a valid target or the selected target ticked at t; it reads the target's current value with "
        "modified == true; re-publishing the same reference and ticks of unselected targets never run it. Non-trivial: >= 1 "
        "retarget to a valid target and >= 1 unselected-target tick; distinct by case text")
ASSUMPTIONS = ["vp/model.py 'ite' semantics: read-through to the selected target with retarget-as-tick; emptied scalar reference is silent",
               "g++-12 -O1 build of the working tree with harness-side shims"]
FLOORS = {"ref_retargets": {"quick": 500, "thorough": 8000}, "ref_target_ticks": {"quick": 1500, "thorough": 25000},
          "ref_republished_same": {"quick": 400, "thorough": 6000}, "ref_unselected_ticks": {"quick": 500, "thorough": 8000},
          "ref_retarget_to_invalid": {"quick": 30, "thorough": 500}, "runs_compared": {"quick": 20000, "thorough": 300000},
          "coll_ref_retargets": {"quick": 150, "thorough": 2500}, "coll_ref_target_ticks": {"quick": 300, "thorough": 5000},
          "coll_ref_retarget_while_old_target_removes": {"quick": 15, "thorough": 250},
          "sibling_ref_retargets": {"quick": 150, "thorough": 2500}, "sibling_ref_unselected_ticks": {"quick": 150, "thorough": 2500},
          "coll_ref_republished_by_a_non_deduplicating_producer": {"quick": 150, "thorough": 2500},
          "if_branch_selections": {"quick": 100, "thorough": 1500}, "if_condition_reticks_same_value": {"quick": 60, "thorough": 900},
          "getitem_retargets": {"quick": 60, "thorough": 900}, "getitem_target_ticks": {"quick": 60, "thorough": 900},
          "getitem_rebinds_after_key_appears": {"quick": 80, "thorough": 1200}, "getitem_cycles_with_absent_key": {"quick": 150, "thorough": 2000}}
BATCH = 25


def gen_coll_ref(rng, name):
    """Selection between two set / dictionary sources; a mirror reads through the reference."""
    from .gen_coll import gen_cscript
    from .prog import Case, S
    end = rng.choice([25, 40])
    c = Case(name, 0, end)
    sh = rng.choice(["tss", "tsd"])
    for u in (1, 2):
        sc = gen_cscript(rng, sh, 2, end)
        first = "+%d" % (u * 10) if sh == "tss" else "[%d]=%d" % (u * 10, u)
        c.cscripts[u] = [f"0|{first}"] + sc          # both targets valid before the first selection
    busy = {int(e.split("|")[0]) for u in (1, 2) for e in c.cscripts[u]}
    free = [t for t in range(2, end) if t not in busy]
    flips = sorted(rng.sample(free, min(len(free), rng.choice([2, 4, 7])))) if free else []
    coincident = sorted(rng.sample(sorted(busy - {0}), min(len(busy) - 1, rng.choice([1, 2, 4, 6])))) if len(busy) > 1 else []
    val = rng.choice([0, 1])
    sc = [(1, val)]
    for t in sorted(set(flips) | set(coincident)):
        if rng.random() < 0.75:
            val = 1 - val
        sc.append((t, val))          # some re-publish the same truth value
    c.scripts[3] = sc
    c.meta.update(kind="coll", shape=sh, strict=flips)
    c.graphs["main"] = [S("a", "csrc", shape=sh, uid=1), S("b", "csrc", shape=sh, uid=2), S("c", "src", uid=3, mode=0),
                        S("r", "ite", "c", "a", "b", uid=4), S("", "cmirror", "r", uid=10),
                        S("", "cmirror", "a", uid=11), S("", "cmirror", "b", uid=12)]
    if rng.random() < 0.5:
        # the reader sits below a producer that publishes the reference it holds AGAIN on every trigger tick (no de-duplication
        # of its own): an unchanged reference applied again must not look like a tick
        c.scripts[5] = [(0, 0)] + [(t, t) for t in sorted(rng.sample(range(1, end), rng.choice([4, 8, 14])))]      # (valid from the start)
        c.graphs["main"][4:5] = [S("tg", "src", uid=5, mode=1), S("rp", "republish", "r", "tg", uid=6), S("", "cmirror", "rp", uid=10)]
        c.meta["republish"] = 1
    if sh == "tsd" and rng.random() < 0.6:
        # the reference handed into sub-graphs (inline, nested, nested twice) that read the dictionary's KEY SET (keys_) and the
        # dictionary itself: cross-boundary retarget notifications
        readers = []
        for j, nest in enumerate(rng.sample([0, 1, 2], rng.choice([1, 2, 3]))):
            u = 20 + 2 * j
            c.graphs["main"].append(S(f"ks{j}", "nkeys", "r", uid=u, nest=nest))
            readers.append([u, nest])
        c.meta["key_readers"] = readers
    return c


def gen_relay_ref(rng, name):
    """A re-pointed reference handed THROUGH a nested graph that returns its parameter (the nested node re-points its forwarding
    output on every retarget); the newly selected target often ticked while it was not selected. Judged at the retarget cycles
    only: the consumer behind the nested graph runs and reads the new target's current value AS MODIFIED (further ticks of this
    shape are the known finding F12 and are not judged here)."""
    from .prog import Case, S
    end = rng.choice([24, 36])
    c = Case(name, 0, end)
    for u in (1, 2):
        c.scripts[u] = [(0, u * 100)] + [(t, u * 100 + t) for t in sorted(rng.sample(range(1, end), rng.choice([4, 8, 12])))]
    val = rng.choice([0, 1])
    cs = [(0, val)]
    for t in sorted(rng.sample(range(2, end), rng.choice([3, 5, 8]))):
        val = 1 - val
        cs.append((t, val))
    c.scripts[3] = cs
    depth = 1       # (two levels would be a sub-graph returning a nested call's port directly: the forwarding-chain shape of F4)
    c.graphs["sub0"] = [S("", "RET", "p0")]
    c.graphs["sub1"] = [S("n", "nested", "p0", sid=0), S("", "RET", "n")]
    c.graphs["main"] = [S("a", "src", uid=1, mode=1), S("b", "src", uid=2, mode=1), S("c", "src", uid=3, mode=1), S("sel", "ite", "c", "a", "b", uid=4),
                        S("y", "nested", "sel", sid=0 if depth == 1 else 1), S("z", "pass", "y", uid=60), S("", "rec", "z", uid=61),
                        S("d", "pass", "sel", uid=62)]
    c.meta.update(kind="relay", depth=depth)
    return c


def check_relay(case, tr):
    res = Result(signature=case.text().split("\n", 1)[1])
    run = tr.runs[0]
    if tr.build_error or run.error:
        res.violations.append(Violation(f"build/run failed: {tr.build_error or run.error}"))
        return res
    tick = {u: dict(case.scripts[u]) for u in (1, 2)}
    cond = dict(case.scripts[3])
    z = {ue.t: ue for ue in run.uevals() if ue.uid == 60}
    held = {1: None, 2: None}
    sel = None
    checked = stale = 0
    last_seen = {1: None, 2: None}
    for t in range(case.start, case.end):
        for u in (1, 2):
            if t in tick[u]:
                held[u] = tick[u][t]
        if t not in cond:
            if sel is not None and t in tick[sel]:
                last_seen[sel] = t
            continue
        new = 1 if cond[t] != 0 else 2
        retarget = sel is not None and new != sel
        sel = new
        if retarget and held[sel] is not None:
            checked += 1
            if last_seen[sel] is not None and max(k for k in tick[sel] if k <= t) > last_seen[sel] and t not in tick[sel]:
                stale += 1          # the new target ticked while it was not selected
            ue = z.get(t)
            if ue is None:
                res.violations.append(Violation(f"t={t}: retarget to source {sel} (value {held[sel]}): the consumer behind the nested pass-through "
                                                f"(depth {case.meta['depth']}) was not evaluated"))
            else:
                valid, mod, lmt, v = ue.ins[0]
                if v != held[sel] or not mod:
                    res.violations.append(Violation(f"t={t}: retarget to source {sel} (value {held[sel]}): the consumer behind the nested pass-through "
                                                    f"(depth {case.meta['depth']}) reads (valid,modified,lmt,value)={ue.ins[0]}: the new target's current "
                                                    f"value must read as modified"))
        last_seen[sel] = t if held[sel] is not None else last_seen[sel]
    res.violations = res.violations[:5]
    res.counters = {"relay_retargets_checked": checked, "relay_retargets_to_a_target_that_ticked_unselected": stale}
    res.nontrivial = stale >= 1
    return res


def gen_getitem_ref(rng, name):
    """stdlib `tsd[key]` (getitem_) with a TICKING key: the result is a reference to the element under the current key - re-pointed
    when the key moves to another key, emptied while the key is absent, re-bound when the key (re)appears. Two consumers read
    through it."""
    from .prog import Case, S
    end = rng.choice([30, 45])
    c = Case(name, 0, end)
    keys = list(range(1, rng.choice([3, 4, 6]) + 1))
    live, sc, v = set(), [], 0
    for t in sorted(rng.sample(range(0, end), rng.choice([10, 18, 26]))):
        ops, touched = [], set()
        for _ in range(rng.choice([1, 1, 2, 3])):
            k = rng.choice(keys)
            if k in touched:
                continue            # one mutation per key and cycle (erase + re-insert in one cycle is not an epoch boundary)
            touched.add(k)
            if k in live and rng.random() < 0.3:
                ops.append(f"x[{k}]")
                live.discard(k)
            else:
                v += 1
                ops.append(f"[{k}]={v}")
                live.add(k)
        if ops:
            sc.append(f"{t}|" + ",".join(ops))
    c.cscripts[1] = sc
    ks, cur = [], None
    for t in sorted(rng.sample(range(0, end), rng.choice([5, 9, 14]))):
        cur = rng.choice(keys + [9]) if (cur is None or rng.random() < 0.75) else cur      # 9 is never a key; some re-ticks
        ks.append((t, cur))
    c.scripts[2] = ks
    c.meta.update(kind="getitem", readers=[10, 12])
    c.graphs["main"] = [S("d", "csrc", shape="tsd", uid=1), S("k", "src", uid=2, mode=0), S("g", "getitem", "d", "k"),
                        S("z", "pass", "g", uid=10), S("", "rec", "z", uid=11), S("y", "pass", "g", uid=12), S("", "cmirror", "d", uid=13)]
    if rng.random() < 0.4:
        c.scripts[5] = [(0, 0)] + [(t, t) for t in sorted(rng.sample(range(1, end), rng.choice([4, 8, 14])))]      # (valid from the start)
        c.graphs["main"][5:6] = [S("tg", "src", uid=5, mode=1), S("rp", "republish", "g", "tg", uid=6), S("y", "pass", "rp", uid=12)]
        c.meta["republish"] = 1
    nest = rng.choice([0, 0, 1, 2])
    if nest:
        # a reader inside a nested graph (depth 1 / 2); the key ticks in the first cycle so that the reference handed in has been
        # published (an unset reference across a nested boundary is the known finding F22)
        if ks[0][0] != 0:
            c.scripts[2] = [(0, rng.choice(keys + [9]))] + ks
        c.graphs["sub0"] = [S("q", "pass", "p0", uid=20), S("", "RET", "q")]
        c.graphs["sub1"] = [S("n", "nested", "p0", sid=0), S("q", "pass", "n", uid=21), S("", "RET", "q")]
        c.graphs["main"] += [S("w", "nested", "g", sid=nest - 1), S("", "rec", "w", uid=30)]
        c.meta["readers"].append(20)
    return c


def check_getitem(case, tr):
    """Oracle (direct): the consumer runs at t iff the current key's element exists and holds a value and (the binding changed at t
    - the key ticked to another key, or the element under the key was (re)created - or the element was written at t); it then reads
    the element's current value as modified. It never runs for writes to other keys, for a key tick that repeats the current
    key, or while the key is absent."""
    from .gen_coll import write_log
    res = Result(signature=case.text().split("\n", 1)[1])
    run = tr.runs[0]
    if tr.build_error or run.error:
        res.violations.append(Violation(f"build/run failed: {tr.build_error or run.error}"))
        return res
    wl = dict(write_log(run).get(1, []))
    ktick = dict(case.scripts[2])
    D, epoch, sel, prev_target = {}, {}, None, None
    V = []
    retargets = target_ticks = absent = rebinds = same = unselected = 0
    got = {u: {ue.t: ue for ue in run.uevals() if ue.uid == u} for u in case.meta["readers"]}
    for t in range(case.start, case.end):
        written = set()
        for op in wl.get(t, []):
            if op.startswith("x["):
                D.pop(int(op[2:-1]), None)
            else:
                k, val = op[1:].split("]=")
                k = int(k)
                if k not in D:
                    epoch[k] = epoch.get(k, 0) + 1
                D[k] = int(val)
                written.add(k)
        if t in ktick:
            if ktick[t] == sel:
                same += 1
            sel = ktick[t]
        target = (sel, epoch[sel]) if sel in D else None
        expect = target is not None and (target != prev_target or sel in written)
        if target is None and sel is not None and (t in ktick or prev_target is not None):
            absent += 1
        if expect:
            if target != prev_target:
                if prev_target is not None and prev_target[0] != sel:
                    retargets += 1
                else:
                    rebinds += 1
            else:
                target_ticks += 1
        elif written - {sel}:
            unselected += 1
        for u in case.meta["readers"]:
            ue = got[u].get(t)
            if expect and ue is None:
                V.append(f"t={t}: consumer uid {u} of d[key] was not evaluated (key={sel}, element value {D[sel]}, "
                         f"{'binding changed' if target != prev_target else 'element written'} in this cycle)")
            elif not expect and ue is not None:
                V.append(f"t={t}: consumer uid {u} of d[key] was evaluated (reads {ue.ins[0]}) although the current key {sel} "
                         f"{'is absent' if target is None else 'was neither re-pointed nor written'} (written keys {sorted(written)})")
            elif expect:
                valid, mod, lmt, v = ue.ins[0]
                if v != D[sel] or not mod or not valid:
                    V.append(f"t={t}: consumer uid {u} of d[key] reads (valid,modified,lmt,value)={ue.ins[0]}; the element under key {sel} "
                             f"holds {D[sel]} and must read as modified")
        prev_target = target
    for m in V[:5]:
        res.violations.append(Violation(m))
    res.counters = {"getitem_retargets": retargets, "getitem_rebinds_after_key_appears": rebinds, "getitem_target_ticks": target_ticks,
                    "getitem_cycles_with_absent_key": absent, "getitem_same_key_reticks": same, "getitem_unselected_key_writes": unselected}
    res.nontrivial = retargets >= 1 and target_ticks >= 1
    return res


def gen_if_route(rng, name):
    """stdlib if_(condition, ts): the stream is routed to one of two reference-shaped outputs; the branch that is not selected holds
    an EMPTY reference. A reader of a branch runs when the branch becomes selected (it reads the stream's current value as
    modified) and on the stream's ticks while selected; the condition re-ticking with the same truth value re-publishes both
    references (this operator does not de-duplicate) and must not run anybody."""
    from .prog import Case, S
    end = rng.choice([30, 45])
    c = Case(name, 0, end)
    c.scripts[1] = [(t, 100 + t) for t in sorted(rng.sample(range(0, end), rng.choice([6, 12, 20])))]
    v = rng.choice([0, 1])
    cs = [(rng.choice([0, 1, 3]), v)]
    for t in sorted(rng.sample(range(cs[0][0] + 1, end), rng.choice([4, 8, 12]))):
        if rng.random() < 0.6:
            v = 1 - v
        cs.append((t, v))
    c.scripts[3] = cs
    c.graphs["main"] = [S("a", "src", uid=1, mode=1), S("c", "src", uid=3, mode=1), S("t", "ifroute", "c", "a", uid=4, branch="true"),
                        S("f", "ifroute", "c", "a", uid=4, branch="false"), S("x", "pass", "t", uid=10), S("y", "pass", "f", uid=12),
                        S("", "rec", "x", uid=11), S("", "rec", "y", uid=13)]
    c.meta.update(kind="ifroute")
    return c


def check_if_route(case, tr):
    res = Result(signature=case.text().split("\n", 1)[1])
    run = tr.runs[0]
    if tr.build_error or run.error:
        res.violations.append(Violation(f"build/run failed: {tr.build_error or run.error}"))
        return res
    at, ct = dict(case.scripts[1]), dict(case.scripts[3])
    got = {u: {ue.t: ue for ue in run.uevals() if ue.uid == u} for u in (10, 12)}
    held, sel = None, None
    V = []
    selections = ticks = reticks = other = 0
    for t in range(case.start, case.end):
        if t in at:
            held = at[t]
        switched = False
        if t in ct:
            new = 10 if ct[t] != 0 else 12
            switched = new != sel
            reticks += 0 if switched else 1
            sel = new
        for u in (10, 12):
            expect = u == sel and held is not None and (switched or t in at)
            ue = got[u].get(t)
            if expect != (ue is not None):
                V.append(f"t={t}: reader of the {'true' if u == 10 else 'false'} branch of if_ {'did not run' if expect else 'ran'} (selected branch: "
                         f"{'true' if sel == 10 else 'false' if sel == 12 else 'none'}, {'selected in this cycle' if switched else 'condition ' + ('re-ticked' if t in ct else 'quiet')}, "
                         f"stream {'ticked' if t in at else 'did not tick'})")
            elif ue is not None:
                valid, mod, lmt, v = ue.ins[0]
                if v != held or not mod:
                    V.append(f"t={t}: reader of a branch of if_ reads (valid,modified,lmt,value)={ue.ins[0]}; the routed stream holds {held} and must read as modified")
            if expect:
                selections += 1 if switched else 0
                ticks += 0 if switched else 1
            elif t in at and u != sel:
                other += 1
    for m in V[:5]:
        res.violations.append(Violation(m))
    res.counters = {"if_branch_selections": selections, "if_selected_branch_ticks": ticks, "if_condition_reticks_same_value": reticks,
                    "if_unselected_branch_quiet_ticks": other}
    res.nontrivial = selections >= 2 and reticks >= 1
    return res


def gen_sibling_ref(rng, name):
    """Selection between two ELEMENTS OF ONE list output (same owning output, same schema): references to siblings."""
    from .prog import Case, S
    end = rng.choice([25, 40])
    c = Case(name, 0, end)
    i, j = rng.sample([0, 1, 2], 2)
    sc, v = [], 1
    for t in sorted(rng.sample(range(0, end), rng.choice([8, 14, 20]))):
        ops = []
        for k in rng.sample([0, 1, 2], rng.choice([1, 1, 2, 3])):
            v += 1
            ops.append(f"[{k}]={v}")
        sc.append(f"{t}|" + ",".join(ops))
    c.cscripts[1] = sc
    val = rng.choice([0, 1])
    cs = [(rng.choice([0, 1, 2]), val)]
    for t in sorted(rng.sample(range(3, end), rng.choice([3, 5, 8]))):
        if rng.random() < 0.8:
            val = 1 - val
        cs.append((t, val))
    c.scripts[3] = cs
    c.meta.update(kind="sibling", elems=[i, j])
    c.graphs["main"] = [S("l", "csrc", shape="tsl", uid=1), S("e0", "elem", "l", str(i)), S("e1", "elem", "l", str(j)),
                        S("c", "src", uid=3, mode=0), S("r", "ite", "c", "e0", "e1", uid=4), S("", "rec", "r", uid=10),
                        S("p", "pass", "r", uid=11), S("", "rec", "p", uid=12)]
    return c


def check_sibling(case, tr):
    """Oracle: the same program over two SEPARATE outputs that carry the two elements' write histories (reference model)."""
    from .gen_coll import write_log
    from .prog import Case, S
    res = Result(signature=case.text().split("\n", 1)[1])
    run = tr.runs[0]
    if tr.build_error or run.error:
        res.violations.append(Violation(f"build/run failed: {tr.build_error or run.error}"))
        return res
    wl = dict(write_log(run).get(1, []))
    twin = Case("twin", case.start, case.end)
    twin.scripts[3] = list(case.scripts[3])
    for n, k in enumerate(case.meta["elems"]):
        sc = []
        for t in sorted(wl):
            vals = [int(op.split("=")[1]) for op in wl[t] if op.startswith(f"[{k}]=")]
            if vals:
                sc.append((t, vals[-1]))
        twin.scripts[101 + n] = sc
    twin.graphs["main"] = [S("e0", "src", uid=101, mode=1), S("e1", "src", uid=102, mode=1)] + \
        [st for st in case.graphs["main"] if st.op not in ("csrc", "elem")]
    twin.meta["skip_uids"] = [101, 102]
    flat = M.flatten(twin)
    mr = M.simulate(flat)
    mism = compare_runs(twin, run, mr)
    if mism:
        mr_alt = M.simulate(flat, ref_invalid_notify=False)
        if not compare_runs(twin, run, mr_alt):
            mr, mism = mr_alt, []
    if mism:
        res.violations.append(Violation("selection between two elements of one list output differs from the same selection between two "
                                        "separate outputs: " + "; ".join(mism[:3])))
    st = mr.stats
    res.counters = {"sibling_ref_retargets": st.get("ref_retargets", 0), "sibling_ref_target_ticks": st.get("ref_target_ticks", 0),
                    "sibling_ref_unselected_ticks": st.get("ref_unselected_ticks", 0)}
    res.nontrivial = st.get("ref_retargets", 0) >= 2
    return res


def generate(rng, tier, seed):
    n = scaled(400 if tier == "quick" else 6000)
    cases = [gen_case(rng, f"c13_{seed}_{k}", allow_ite=True, allow_fb=rng.random() < 0.3,
                      n_nodes=rng.choice([4, 6, 9, 14, 20])) for k in range(n)]
    cases += [gen_coll_ref(rng, f"c13_{seed}_coll{k}") for k in range(n // 4)]
    cases += [gen_sibling_ref(rng, f"c13_{seed}_sib{k}") for k in range(n // 5)]
    cases += [gen_relay_ref(rng, f"c13_{seed}_rly{k}") for k in range(n // 5)]
    cases += [gen_getitem_ref(rng, f"c13_{seed}_gi{k}") for k in range(n // 4)]
    cases += [gen_if_route(rng, f"c13_{seed}_if{k}") for k in range(n // 6)]
    from .witness import f12_case
    cases.append(f12_case(f"c13_{seed}_witnessF12"))
    from .witness import f22_case
    cases.append(f22_case(f"c13_{seed}_witnessF22"))
    return cases


def check_coll(case, tr):
    from .gen_coll import parse_dumps, write_log
    from .collmodel import Node, SHAPES, dump_value, _key
    res = Result(signature=case.text().split("\n", 1)[1])
    run = tr.runs[0]
    if tr.build_error or run.error:
        res.violations.append(Violation(f"build/run failed: {tr.build_error or run.error}"))
        return res
    dumps = parse_dumps(run)
    mirror = {t: d for t, d, _ in dumps.get(10, [])}
    wl = {u: dict(write_log(run).get(u, [])) for u in (1, 2)}
    nodes = {u: Node(SHAPES[case.meta["shape"]]) for u in (1, 2)}
    cond = dict(case.scripts[3])
    sel = None
    V = []
    retargets = target_ticks = unselected = same = old_removes = 0
    prev_vals = {1: None, 2: None}
    for t in range(case.start, case.end):
        before = {u: nodes[u].value() for u in (1, 2)}
        for u in (1, 2):
            for op in wl[u].get(t, []):
                nodes[u].apply(op, t)
        retarget = False
        if t in cond:
            new = 1 if cond[t] != 0 else 2
            if new != sel:
                old, sel, retarget = sel, new, True
            else:
                same += 1
        if sel is None:
            if t in mirror:
                V.append(f"consumer ticked at t={t} before any reference was published")
            continue
        tgt = nodes[sel]
        wrote = t in wl[sel]
        other = 3 - sel
        if t in wl[other] and not retarget:
            unselected += 1
        expect_tick = retarget or wrote
        if expect_tick != (t in mirror):
            V.append(f"t={t}: consumer {'did not tick' if expect_tick else 'ticked'} (retarget={retarget}, selected target wrote={wrote}, "
                     f"unselected target wrote={t in wl[other]})")
            continue
        if t not in mirror:
            continue
        d = mirror[t]
        if dump_value(d) != tgt.value():
            V.append(f"t={t}: value read through the reference {str(dump_value(d))[:80]} != selected target's value {str(tgt.value())[:80]}")
        if retarget:
            retargets += 1
            if old is not None and set(before[old]) - set(nodes[old].value()) - set(tgt.value()):
                old_removes += 1        # the old target drops a key (absent from the new one) in the retarget cycle itself
            if old is not None:
                ov, nv = before[old], tgt.value()
                eadd, erem = set(nv) - set(ov), set(ov) - set(nv)
                gadd, grem = set(_key(x) for x in d["add"]), set(_key(x) for x in d["rem"])
                if (gadd, grem) != (eadd, erem):
                    V.append(f"t={t}: retarget delta added={sorted(gadd, key=str)} removed={sorted(grem, key=str)} != difference between old and new "
                             f"contents added={sorted(eadd, key=str)} removed={sorted(erem, key=str)}")
        else:
            target_ticks += 1
            if tgt.kind == "tss":
                eadd, erem = (tgt.added, tgt.removed) if tgt.dt == t else (set(), set())
            else:
                eadd, erem, _ = tgt.delta_sets(t)
            gadd, grem = set(_key(x) for x in d["add"]), set(_key(x) for x in d["rem"])
            if (gadd, grem) != (set(eadd), set(erem)):
                V.append(f"t={t}: delta read through the reference +{sorted(gadd, key=str)} -{sorted(grem, key=str)} != the target's own delta "
                         f"+{sorted(eadd, key=str)} -{sorted(erem, key=str)}")
    # key-set readers inside sub-graphs (inline / nested): whenever the key set read through the reference changes - the selected
    # target's own key delta, or the difference between the old and the new target on a retarget - the reader ticks with exactly
    # that delta and the right key set; the dictionary mirror next to it reads the selected target's value whenever it ticks
    nested_key_checks = 0
    if case.meta.get("key_readers") and not V:
        nodes2 = {u: Node(SHAPES[case.meta["shape"]]) for u in (1, 2)}
        for u_reader, nest in case.meta["key_readers"]:
            ks = {t: d for t, d, _ in dumps.get(u_reader, [])}
            dm = {t: d for t, d, _ in dumps.get(u_reader + 1, [])}
            nodes2 = {u: Node(SHAPES[case.meta["shape"]]) for u in (1, 2)}
            sel2, prev_keys = None, None
            for t in range(case.start, case.end):
                for u in (1, 2):
                    for op in wl[u].get(t, []):
                        nodes2[u].apply(op, t)
                if t in cond:
                    sel2 = 1 if cond[t] != 0 else 2
                if sel2 is None:
                    continue
                keys = set(nodes2[sel2].value())
                if prev_keys is not None and keys != prev_keys:
                    nested_key_checks += 1
                    eadd, erem = keys - prev_keys, prev_keys - keys
                    d = ks.get(t)
                    if d is None:
                        V.append(f"t={t}: key-set reader uid {u_reader} (nesting depth {nest}) was not evaluated although the key set read through "
                                 f"the reference changed (+{sorted(eadd)} -{sorted(erem)})")
                    else:
                        gadd, grem = set(_key(x) for x in d["add"]), set(_key(x) for x in d["rem"])
                        if (gadd, grem) != (eadd, erem):
                            V.append(f"t={t}: key-set reader uid {u_reader} (nesting depth {nest}) saw +{sorted(gadd)} -{sorted(grem)}, the key set "
                                     f"read through the reference changed by +{sorted(eadd)} -{sorted(erem)}")
                        elif set(_key(x) for x in dump_value(d)) != keys:
                            V.append(f"t={t}: key-set reader uid {u_reader} reads {sorted(dump_value(d))[:8]}, the selected target's keys are {sorted(keys)[:8]}")
                if t in dm and dump_value(dm[t]) != nodes2[sel2].value():
                    V.append(f"t={t}: dictionary reader uid {u_reader + 1} (nesting depth {nest}) reads {str(dump_value(dm[t]))[:80]} != selected "
                             f"target's value {str(nodes2[sel2].value())[:80]}")
                prev_keys = keys
    for m in V[:5]:
        res.violations.append(Violation(m))
    rep = sum(1 for t, _ in case.scripts.get(5, []) if t < case.end) if case.meta.get("republish") else 0
    res.counters = {"coll_ref_republished_by_a_non_deduplicating_producer": rep, "nested_key_set_changes_checked": nested_key_checks, "coll_ref_retargets": retargets, "coll_ref_target_ticks": target_ticks, "coll_ref_unselected_ticks": unselected,
                    "coll_ref_republished_same": same, "coll_ref_retarget_while_old_target_removes": old_removes}
    res.nontrivial = retargets >= 2
    return res


def check(case, tr):
    if case.meta.get("witness"):
        from .witness import check_witness
        return check_witness(case, tr)
    if case.meta.get("kind") == "coll":
        return check_coll(case, tr)
    if case.meta.get("kind") == "sibling":
        return check_sibling(case, tr)
    if case.meta.get("kind") == "relay":
        return check_relay(case, tr)
    if case.meta.get("kind") == "getitem":
        return check_getitem(case, tr)
    if case.meta.get("kind") == "ifroute":
        return check_if_route(case, tr)
    res = Result(signature=case.text().split("\n", 1)[1])
    if tr.build_error:
        res.violations.append(Violation(f"valid program rejected at build: {tr.build_error}"))
        return res
    run = tr.runs[0]
    if run.error:
        res.violations.append(Violation(f"run failed: {run.error[:300]}"))
        return res
    flat = M.flatten(case)
    mr = M.simulate(flat)
    mism = compare_runs(case, run, mr)
    if mism:
        # the property is silent on whether a retarget to a target that holds no value wakes the consumer: accept every reading
        for reading in (False, "old_ticked"):
            mr_alt = M.simulate(flat, ref_invalid_notify=reading)
            if not compare_runs(case, run, mr_alt):
                mr, mism = mr_alt, []
                break
    if mism:
        # known-finding emulations, under either reading of the silent retarget-to-unset corner
        def cmp_alt(c, r, m):
            return compare_runs(c, r, m)
        best = None
        for notify in (True, False, "old_ticked"):
            for flags in EMULATIONS:
                mr2 = M.simulate(flat, ref_invalid_notify=notify, **flags)
                if (mr2.stale or mr2.sampled or mr2.stale_armed or mr2.boundary_refs) and not compare_runs(case, run, mr2):
                    best = mr2
                    break
            if best:
                break
        if best is not None:
            mr = best
            if best.boundary_refs:
                res.violations.append(Violation(BOUNDARY_REF_MSG % (best.boundary_refs[:3],), "nested-boundary-unset-reference-reads-valid-empty"))
            if best.sampled:
                res.violations.append(Violation(f"node with an all-Unchecked validity gate inside a nested graph ran at child start although "
                                                f"its boundary source never ticked: (uid,t)={best.sampled[:3]}", "nested-start-samples-unset-source"))
            if best.stale or best.stale_armed:
                res.violations.append(Violation(f"node stays armed / user code ran at a cancelled wake-up time: runs (uid,t)={best.stale[:3]} "
                                                f"armed (uid,t,slot)={best.stale_armed[:3]}", "cancelled-wakeup-still-evaluates"))
        else:
            mr, vs = classify_with_emulations(case, flat, run, mism)
            res.violations += vs
    st = mr.stats
    res.counters = {k: st.get(k, 0) for k in ("ref_retargets", "ref_target_ticks", "ref_republished_same", "ref_unselected_ticks",
                                              "ref_retarget_to_invalid")}
    res.counters["runs_compared"] = len(mr.runs)
    res.nontrivial = st.get("ref_retargets", 0) >= 1 and st.get("ref_unselected_ticks", 0) >= 1
    return res
