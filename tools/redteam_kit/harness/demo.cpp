#include <hgraph/lib/std/std_operators.h>
#include <hgraph/lib/std/std_nodes.h>
#include <hgraph/runtime/runtime.h>
#include <hgraph/types/graph_wiring.h>
#include <hgraph/types/static_node.h>
#include <hgraph/types/subgraph_wiring.h>
#include <hgraph/runtime/lifecycle_observer.h>

#include <cstdio>
#include <vector>

using namespace hgraph;

struct Ticker
{
    static constexpr auto name = "ticker";
    static constexpr bool schedule_on_start = true;
    static void start(State<Int> n) { n.set(Int{0}); }
    static void eval(NodeScheduler sched, State<Int> n, Scalar<"limit", Int> limit, Out<TS<Int>> out)
    {
        out.set(n.get());
        n.set(n.get() + 1);
        if (n.get() < limit.value()) sched.schedule(MIN_TD * 3);
    }
};

struct AddOne
{
    static constexpr auto name = "add_one";
    static void eval(In<"in", TS<Int>> in, Out<TS<Int>> out) { out.set(in.value() + 1); }
};

struct Sum
{
    static constexpr auto name = "sum";
    static void eval(In<"a", TS<Int>> a, In<"b", TS<Int>> b, Out<TS<Int>> out) { out.set(a.value() + b.value()); }
};

struct Print
{
    static constexpr auto name = "print";
    static void eval(In<"in", TS<Int>> in, DateTime now)
    {
        std::printf("t=%lld v=%lld\n", (long long)(now - MIN_ST).count(), (long long)in.value());
    }
};

struct Sub
{
    static constexpr auto name = "sub";
    static Port<TS<Int>> compose(Wiring &w, Port<TS<Int>> x) { return wire<AddOne>(w, wire<AddOne>(w, x)); }
};

struct G
{
    static constexpr auto name = "g";
    static void compose(Wiring &w)
    {
        auto t = wire<Ticker>(w, Int{4});
        auto a = wire<AddOne>(w, t);
        auto n = nested_<Sub>(w, t);
        wire<Print>(w, wire<Sum>(w, a, n));
    }
};

struct Obs : LifecycleObserver
{
    void on_before_graph_evaluation(const GraphView &g) override
    {
        std::printf("  cycle graph=%s t=%lld\n", std::string(g.schema()->name()).c_str(),
                    (long long)(g.evaluation_time() - MIN_ST).count());
    }
    void on_before_node_evaluation(const NodeView &n) override
    {
        std::printf("    eval node %zu (%s)\n", n.node_index(), std::string(n.label()).c_str());
    }
    void on_after_stop_node(const NodeView &n) override { std::printf("    stopped %zu\n", n.node_index()); }
};

int main()
{
    GraphBuilder gb = build_graph<G>();
    for (auto &e : gb.edges()) std::printf("edge %zu -> %zu\n", graph_edge_source_node(e.source_node), e.target_node);
    Obs obs;
    GraphExecutorBuilder eb;
    eb.graph_builder(std::move(gb)).start_time(MIN_ST).end_time(MIN_ST + TimeDelta{100}).add_lifecycle_observer(&obs);
    auto ex = eb.make_executor();
    ex.view().run();
    return 0;
}
