#!/venv/bin/python
"""Apply each seeded change to /repo, run the checks named in its meta.json (quick tier), undo it, report caught/missed.
   tools/seeded.py [name ...]      (never leaves /repo modified)"""
import json, os, subprocess, sys, glob, time

VERIF = os.path.dirname(os.path.dirname(os.path.abspath(__file__)))
names = sys.argv[1:] or sorted(os.path.basename(d) for d in glob.glob(os.path.join(VERIF, "seeded", "*")) if os.path.isdir(d))
results = {}
for n in names:
    d = os.path.join(VERIF, "seeded", n)
    meta = json.load(open(os.path.join(d, "meta.json")))
    st = subprocess.run(["git", "-C", "/repo", "status", "--porcelain"], capture_output=True, text=True).stdout.strip()
    if st:
        print("refusing: /repo is dirty:\n" + st)
        sys.exit(2)
    r = subprocess.run(["git", "-C", "/repo", "apply", os.path.join(d, "patch.diff")], capture_output=True, text=True)
    if r.returncode != 0:
        print(n, "patch does not apply:", r.stderr[:300])
        results[n] = "patch-failed"
        continue
    try:
        caught = []
        for prop in meta["checks"]:
            t0 = time.time()
            tier = meta.get("tier", "quick")
            rr = subprocess.run([os.path.join(VERIF, "check"), prop, "--tier", tier], capture_output=True, text=True,
                                env={**os.environ, "VERIF_SCRATCH": os.path.join(VERIF, "scratch", "seeded")})
            viol = [l for l in rr.stdout.splitlines() if l.startswith("VIOLATION")]
            print(f"  {n}: {prop} rc={rr.returncode} violations={len(viol)} ({time.time()-t0:.0f}s)")
            if rr.returncode == 1 and viol:
                caught.append(prop)
                detail = [l for l in rr.stdout.splitlines() if l.startswith("  ")][:2]
                for l in detail:
                    print("     ", l.strip()[:200])
        results[n] = "caught by " + ",".join(caught) if caught else "MISSED"
    finally:
        subprocess.run(["git", "-C", "/repo", "checkout", "--", "."], check=True)
print(json.dumps(results, indent=1))
