#!/venv/bin/python
"""Apply each seeded change to /repo, run the checks named in its meta.json (quick tier), undo it, report caught/missed.
   tools/seeded.py [name ...]      (never leaves /repo modified)"""
import json, os, subprocess, sys, glob, time

VERIF = os.path.dirname(os.path.dirname(os.path.abspath(__file__)))
REPO = "/repo"
ENV_EXTRA = {}
if "--scratch" in sys.argv:
    # same checks, pointed at a scratch worktree of /repo HEAD with its own (copied, relocatable) build directory, so that
    # the checks of the unchanged tree can run at the same time
    sys.argv.remove("--scratch")
    base = os.environ.get("SEEDED_SCRATCH", "/tmp/rt/mine")
    REPO = os.path.join(base, "wt")
    if not os.path.isdir(REPO):
        subprocess.run(["git", "-C", "/repo", "worktree", "add", "--detach", REPO, "HEAD"], check=True)
    head = subprocess.run(["git", "-C", "/repo", "rev-parse", "HEAD"], capture_output=True, text=True).stdout.strip()
    subprocess.run(["git", "-C", REPO, "checkout", "-q", "--detach", head], check=True)
    broot = os.path.join(base, "build")
    if not os.path.isdir(broot):
        os.makedirs(broot)
        subprocess.run(["cp", "-a", os.path.join(VERIF, ".build", "plain"), os.path.join(VERIF, ".build", "repo_roots.txt"), broot], check=True)
    ENV_EXTRA = {"VERIF_REPO": REPO, "VERIF_BUILD_ROOT": broot, "VERIF_OUT": os.path.join(base, "out"),
                 "VERIF_SCRATCH": os.path.join(base, "scratch")}
names = sys.argv[1:] or sorted(os.path.basename(d) for d in glob.glob(os.path.join(VERIF, "seeded", "*")) if os.path.isdir(d))
if ENV_EXTRA:
    for n in names:
        m = json.load(open(os.path.join(VERIF, "seeded", n, "meta.json")))
        fl = "tsan" if m.get("env", {}).get("VERIF_TSAN") else "asan" if m.get("env", {}).get("VERIF_ASAN") else None
        if fl and not os.path.isdir(os.path.join(ENV_EXTRA["VERIF_BUILD_ROOT"], fl)) and os.path.isdir(os.path.join(VERIF, ".build", fl)):
            subprocess.run(["cp", "-a", os.path.join(VERIF, ".build", fl), ENV_EXTRA["VERIF_BUILD_ROOT"]], check=True)
results = {}
for n in names:
    d = os.path.join(VERIF, "seeded", n)
    meta = json.load(open(os.path.join(d, "meta.json")))
    if meta.get("neutralised"):
        print(f"  {n}: neutralised - {meta['neutralised'][:120]}")
        results[n] = "neutralised by a later fix (not counted)"
        continue
    st = subprocess.run(["git", "-C", REPO, "status", "--porcelain"], capture_output=True, text=True).stdout.strip()
    if st:
        print("refusing: /repo is dirty:\n" + st)
        sys.exit(2)
    r = subprocess.run(["git", "-C", REPO, "apply", os.path.join(d, "patch.diff")], capture_output=True, text=True)
    if r.returncode != 0:
        print(n, "patch does not apply:", r.stderr[:300])
        results[n] = "patch-failed"
        continue
    try:
        caught = []
        for prop in meta["checks"]:
            t0 = time.time()
            tier = meta.get("tier", "quick")
            rr = subprocess.run([os.path.join(VERIF, "check"), prop, "--tier", tier], capture_output=True, text=True,
                                env={**os.environ, "VERIF_SCRATCH": os.path.join(VERIF, "scratch", "seeded"), **ENV_EXTRA, **meta.get("env", {})})
            viol = [l for l in rr.stdout.splitlines() if l.startswith("VIOLATION")]
            print(f"  {n}: {prop} rc={rr.returncode} violations={len(viol)} ({time.time()-t0:.0f}s)")
            if rr.returncode == 1 and viol:
                caught.append(prop)
                detail = [l for l in rr.stdout.splitlines() if l.startswith("  ")][:2]
                for l in detail:
                    print("     ", l.strip()[:200])
        results[n] = "caught by " + ",".join(caught) if caught else "MISSED"
    finally:
        subprocess.run(["git", "-C", REPO, "checkout", "--", "."], check=True)
print(json.dumps(results, indent=1))
