#!/bin/bash
# tools/confirm_rt.sh <ID> <checks...>  - re-verify a red-team deliverable in its scratch worktree (demo passes without the
# change, fails with it), then store it as /verif/seeded/rt-<ID>/ with meta.json
ID=$1; shift
PFX=${RT_PREFIX:-rt}
D=/tmp/rt/$ID
id=$(echo $ID | tr A-Z a-z)
source $D/env.sh
cd $D
[ -f out/patch.diff ] || { echo "no patch"; exit 1; }
cp out/demo.cpp kit/harness/demo_$id.cpp
git -C wt checkout -- . && git -C wt stash list >/dev/null
echo "== unchanged tree"; /venv/bin/python kit/build/build.py harness demo_$id --quiet >/dev/null 2>&1; timeout 120 build/plain/demo_$id > out/run_clean.txt 2>&1; rc_clean=$?
git -C wt apply $D/out/patch.diff || { echo "patch does not apply"; exit 1; }
echo "== with change"; /venv/bin/python kit/build/build.py harness demo_$id --quiet >/dev/null 2>&1; timeout 120 build/plain/demo_$id > out/run_changed.txt 2>&1; rc_changed=$?
git -C wt checkout -- .
echo "clean rc=$rc_clean changed rc=$rc_changed"
if [ $rc_clean -eq 0 ] && [ $rc_changed -ne 0 ]; then
  S=/verif/seeded/$PFX-$ID; mkdir -p $S
  cp out/patch.diff $S/patch.diff; cp out/demo.cpp $S/demo.cpp; cp out/README.md $S/README.md 2>/dev/null
  checks=$(printf '"%s",' "$@"); checks="[${checks%,}]"
  /venv/bin/python - <<PY
import json
prop="$ID"
json.dump({"property": prop, "origin": "independent red-team sub-agent (given only the property text and a scratch worktree)",
           "needs": open("$D/out/README.md").read()[:1200] if __import__("os").path.exists("$D/out/README.md") else "",
           "confirmed": "demo exits 0 on the unchanged tree (rc=$rc_clean) and non-zero with the change (rc=$rc_changed), re-run by tools/confirm_rt.sh",
           "checks": json.loads('$checks'), "ran": "tools/seeded.py $PFX-$ID"}, open("$S/meta.json", "w"), indent=1)
PY
  echo "stored $S"
else
  echo "NOT CONFIRMED"
fi
