#!/bin/bash
# tools/bg_thorough.sh <seed> [IDs...]  - meant for `vp run --with-repo`: thorough tier on a snapshot of /repo HEAD with a private build
# root (a copy of /verif/.build, so that seeded changes applied to /repo meanwhile do not leak in). Results are NOT evidence.
seed=$1; shift
ids=${@:-C01 C02 C03 C04 C05 C06 C07 C08 C09 C10 C11 C12 C13 C14 C15 C16 C17 C18 C19 C20}
export VERIF_REPO=${VP_RUN_REPO:-/repo} VERIF_BUILD_ROOT=$PWD/.build VERIF_OUT=$PWD/out VERIF_SCRATCH=$PWD/scratch VERIF_WORKERS=${VERIF_WORKERS:-6}
mkdir -p out/evidence
[ -d .build ] || cp -a /verif/.build .build
for id in $ids; do
  s=$(date +%s)
  ./check $id --tier thorough --seed $seed > out/$id.s$seed.log 2>&1
  echo "$id seed=$seed rc=$? $(( $(date +%s)-s ))s viol=$(grep -c '^VIOLATION' out/$id.s$seed.log)"
  grep '^VIOLATION' -A3 out/$id.s$seed.log | cut -c1-700
done
