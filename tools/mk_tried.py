#!/usr/bin/env python3
"""tools/mk_tried.py - write /tmp/rt/<ID>.prop.txt and /tmp/rt/<ID>.tried.txt (one line per earlier red-team change of that
property, taken from the tables of DESIGN.md section 10 and the repaired defects of section 6)."""
import re, shutil, sys
rows = {}
for line in open('/verif/DESIGN.md'):
    m = re.match(r'\|\s*((?:rt\d?|own)-[\w-]+)\s*\|\s*(C\d\d)\s*\|\s*(.*?)\s*\|\s*(.*?)\s*\|\s*$', line)
    if m:
        rows.setdefault(m.group(2), []).append(f"* {m.group(1)}: {m.group(3)}")
for i in range(1, 21):
    pid = f"C{i:02d}"
    shutil.copy(f'/verif/tools/redteam_kit/{pid}.prop.txt', f'/tmp/rt/{pid}.prop.txt')
    with open(f'/tmp/rt/{pid}.tried.txt', 'w') as f:
        f.write(f"Changes already made against {pid} in earlier rounds (mechanism / what it needed to manifest):\n\n")
        f.write("\n".join(rows.get(pid, [])) + "\n")
    print(pid, len(rows.get(pid, [])))
