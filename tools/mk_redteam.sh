#!/bin/bash
# tools/mk_redteam.sh <ID>  -> /tmp/rt/<ID>/{wt (git worktree of /repo HEAD), kit, build (pre-seeded build dir), out}
set -e
ID=$1
D=/tmp/rt/$ID
rm -rf $D/kit $D/build $D/out
mkdir -p $D/out
if [ ! -d $D/wt ]; then git -C /repo worktree add --detach $D/wt HEAD >/dev/null 2>&1; fi
cp -r /tmp/rt/kit $D/kit
mkdir -p $D/build/plain
cp -r /verif/.build/plain/obj $D/build/plain/obj
cp /verif/.build/plain/libhgraph_tree.a /verif/.build/plain/libhgraph_tree.a.stamp $D/build/plain/
cp -r /verif/.build/gen $D/build/gen
cp /verif/.build/repo_roots.txt $D/build/
echo "export VERIF_REPO=$D/wt VERIF_BUILD_ROOT=$D/build" > $D/env.sh
echo ready $D
